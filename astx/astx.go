// Package astx is a reflection toolkit over github.com/z7zmey/php-parser/pkg/ast.
//
// It derives, from the declared struct layout of the node types alone, a
// source-order walk of any tree.  Two conventions of pkg/ast/node.go are used
// (and verified by SelfTest):
//
//  1. declared field order is source order;
//  2. a []*token.Token field holds the separators of the []ast.Vertex field
//     that immediately precedes it: item, sep, item, sep, ... with any
//     surplus separators trailing.
//
// Nothing here calls the printer, traverser or dumper of the library, so the
// walk is an independent reference for them.
package astx

import (
	"bytes"
	"fmt"
	"reflect"
	"sort"
	"sync"

	"github.com/z7zmey/php-parser/pkg/ast"
	"github.com/z7zmey/php-parser/pkg/position"
	"github.com/z7zmey/php-parser/pkg/token"
)

// FieldClass classifies a struct field of a node.
type FieldClass int

const (
	FPosition FieldClass = iota
	FToken
	FTokenList
	FChild
	FChildList
	FValue
	FOther
)

func (c FieldClass) String() string {
	return [...]string{"position", "token", "tokenlist", "child", "childlist", "value", "other"}[c]
}

// Field describes one struct field of a node type.
type Field struct {
	Name  string
	Index int
	Class FieldClass
	// SepOf is, for a token-list field, the index (into Schema.Fields) of the
	// child-list field whose separators it holds, else -1.
	SepOf int
	// Seps is, for a child-list field, the index of its separator field, else -1.
	Seps int
}

// Schema describes a node type.
type Schema struct {
	Type   reflect.Type // struct type
	Name   string       // e.g. "StmtIf"
	Fields []Field
	// VisitorMethod is the ast.Visitor method that receives this type.
	VisitorMethod string
}

var (
	vertexType    = reflect.TypeOf((*ast.Vertex)(nil)).Elem()
	vertexListTyp = reflect.TypeOf([]ast.Vertex(nil))
	tokenPtrType  = reflect.TypeOf((*token.Token)(nil))
	tokenListType = reflect.TypeOf([]*token.Token(nil))
	posPtrType    = reflect.TypeOf((*position.Position)(nil))
	bytesType     = reflect.TypeOf([]byte(nil))

	schemaOnce sync.Once
	schemas    map[reflect.Type]*Schema
	kindList   []*Schema
)

func buildSchemas() {
	schemas = map[reflect.Type]*Schema{}
	vis := reflect.TypeOf((*ast.Visitor)(nil)).Elem()
	for i := 0; i < vis.NumMethod(); i++ {
		m := vis.Method(i)
		if m.Type.NumIn() != 1 {
			continue
		}
		pt := m.Type.In(0)
		if pt.Kind() != reflect.Ptr || pt.Elem().Kind() != reflect.Struct {
			continue
		}
		st := pt.Elem()
		s := &Schema{Type: st, Name: st.Name(), VisitorMethod: m.Name}
		for j := 0; j < st.NumField(); j++ {
			f := st.Field(j)
			fd := Field{Name: f.Name, Index: j, SepOf: -1, Seps: -1, Class: FOther}
			switch f.Type {
			case posPtrType:
				fd.Class = FPosition
			case tokenPtrType:
				fd.Class = FToken
			case tokenListType:
				fd.Class = FTokenList
			case vertexType:
				fd.Class = FChild
			case vertexListTyp:
				fd.Class = FChildList
			case bytesType:
				fd.Class = FValue
			}
			s.Fields = append(s.Fields, fd)
		}
		for j := range s.Fields {
			if s.Fields[j].Class == FTokenList && j > 0 && s.Fields[j-1].Class == FChildList {
				s.Fields[j].SepOf = j - 1
				s.Fields[j-1].Seps = j
			}
		}
		schemas[st] = s
		kindList = append(kindList, s)
	}
	sort.Slice(kindList, func(i, j int) bool { return kindList[i].Name < kindList[j].Name })
}

// Kinds returns the schema of every concrete node type reachable from the
// ast.Visitor interface, sorted by name.
func Kinds() []*Schema {
	schemaOnce.Do(buildSchemas)
	return kindList
}

// SchemaOf returns the schema for the dynamic type of n (nil if n is nil or unknown).
func SchemaOf(n ast.Vertex) *Schema {
	schemaOnce.Do(buildSchemas)
	if IsNil(n) {
		return nil
	}
	t := reflect.TypeOf(n)
	if t.Kind() == reflect.Ptr {
		t = t.Elem()
	}
	return schemas[t]
}

// SchemaByName looks a kind up by its struct name.
func SchemaByName(name string) *Schema {
	for _, s := range Kinds() {
		if s.Name == name {
			return s
		}
	}
	return nil
}

// New allocates a zero node of the kind.
func (s *Schema) New() ast.Vertex {
	return reflect.New(s.Type).Interface().(ast.Vertex)
}

// IsNil reports whether v is a nil interface or a typed nil pointer.
func IsNil(v ast.Vertex) bool {
	if v == nil {
		return true
	}
	rv := reflect.ValueOf(v)
	return rv.Kind() == reflect.Ptr && rv.IsNil()
}

// KindName is the struct name of the node ("<nil>" for nil).
func KindName(n ast.Vertex) string {
	s := SchemaOf(n)
	if s == nil {
		if IsNil(n) {
			return "<nil>"
		}
		return reflect.TypeOf(n).String()
	}
	return s.Name
}

// SelfTest verifies the two layout conventions the walk relies on: every
// token-list field directly follows a child-list field, every field has a
// known class, Position is the first field.
func SelfTest() error {
	for _, s := range Kinds() {
		if len(s.Fields) == 0 || s.Fields[0].Class != FPosition || s.Fields[0].Name != "Position" {
			return fmt.Errorf("astx: %s: first field is not Position", s.Name)
		}
		for i, f := range s.Fields {
			if f.Class == FOther {
				return fmt.Errorf("astx: %s.%s: unknown field type", s.Name, f.Name)
			}
			if f.Class == FPosition && i != 0 {
				return fmt.Errorf("astx: %s.%s: second position field", s.Name, f.Name)
			}
			if f.Class == FTokenList && f.SepOf < 0 {
				return fmt.Errorf("astx: %s.%s: separator list does not follow a child list", s.Name, f.Name)
			}
		}
	}
	if len(Kinds()) == 0 {
		return fmt.Errorf("astx: no node kinds discovered")
	}
	return nil
}

// PartKind distinguishes the immediate parts of a node.
type PartKind int

const (
	PToken PartKind = iota
	PChild
)

// Part is one immediate constituent of a node in source order.
type Part struct {
	Kind  PartKind
	Slot  string // field name
	Index int    // index within a list slot, -1 for scalar slots
	Tok   *token.Token
	Child ast.Vertex
}

// Parts lists the immediate tokens and children of n in source order
// (separators interleaved with the items of their list). Nil tokens and nil
// children are skipped.
func Parts(n ast.Vertex) []Part {
	s := SchemaOf(n)
	if s == nil {
		return nil
	}
	rv := reflect.ValueOf(n).Elem()
	var out []Part
	for i := 0; i < len(s.Fields); i++ {
		f := s.Fields[i]
		switch f.Class {
		case FToken:
			if t := rv.Field(f.Index).Interface().(*token.Token); t != nil {
				out = append(out, Part{Kind: PToken, Slot: f.Name, Index: -1, Tok: t})
			}
		case FChild:
			fv := rv.Field(f.Index)
			if !fv.IsNil() {
				c := fv.Interface().(ast.Vertex)
				if !IsNil(c) {
					out = append(out, Part{Kind: PChild, Slot: f.Name, Index: -1, Child: c})
				}
			}
		case FChildList:
			items := rv.Field(f.Index).Interface().([]ast.Vertex)
			var seps []*token.Token
			sepName := ""
			if f.Seps >= 0 {
				seps = rv.Field(s.Fields[f.Seps].Index).Interface().([]*token.Token)
				sepName = s.Fields[f.Seps].Name
			}
			for k, it := range items {
				if !IsNil(it) {
					out = append(out, Part{Kind: PChild, Slot: f.Name, Index: k, Child: it})
				}
				if k < len(seps) && seps[k] != nil {
					out = append(out, Part{Kind: PToken, Slot: sepName, Index: k, Tok: seps[k]})
				}
			}
			for k := len(items); k < len(seps); k++ {
				if seps[k] != nil {
					out = append(out, Part{Kind: PToken, Slot: sepName, Index: k, Tok: seps[k]})
				}
			}
		case FTokenList:
			if f.SepOf < 0 {
				for k, t := range rv.Field(f.Index).Interface().([]*token.Token) {
					if t != nil {
						out = append(out, Part{Kind: PToken, Slot: f.Name, Index: k, Tok: t})
					}
				}
			}
		}
	}
	return out
}

// Children lists the immediate children of n in declared (source) order.
func Children(n ast.Vertex) []Part {
	var out []Part
	for _, p := range Parts(n) {
		if p.Kind == PChild {
			out = append(out, p)
		}
	}
	return out
}

// Walk visits n and its descendants pre-order, children in source order.
// fn receives the node and its path; returning false prunes the subtree.
func Walk(n ast.Vertex, fn func(n ast.Vertex, path string) bool) {
	walk(n, KindName(n), fn)
}

func walk(n ast.Vertex, path string, fn func(ast.Vertex, string) bool) {
	if IsNil(n) {
		return
	}
	if !fn(n, path) {
		return
	}
	for _, c := range Children(n) {
		walk(c.Child, childPath(path, c), fn)
	}
}

func childPath(path string, c Part) string {
	if c.Index >= 0 {
		return fmt.Sprintf("%s.%s[%d]/%s", path, c.Slot, c.Index, KindName(c.Child))
	}
	return fmt.Sprintf("%s.%s/%s", path, c.Slot, KindName(c.Child))
}

// Nodes returns the pre-order node sequence.
func Nodes(n ast.Vertex) []ast.Vertex {
	var out []ast.Vertex
	Walk(n, func(n ast.Vertex, _ string) bool { out = append(out, n); return true })
	return out
}

// Tokens returns every token of the subtree in source order. Free-floating
// tokens are not expanded (they hang off the returned tokens).
func Tokens(n ast.Vertex) []*token.Token {
	var out []*token.Token
	collectTokens(n, &out)
	return out
}

func collectTokens(n ast.Vertex, out *[]*token.Token) {
	for _, p := range Parts(n) {
		if p.Kind == PToken {
			*out = append(*out, p.Tok)
		} else {
			collectTokens(p.Child, out)
		}
	}
}

// FlatTokens returns every token of the subtree in source order with the
// free-floating tokens expanded in place before their owner.
func FlatTokens(n ast.Vertex) []*token.Token {
	var out []*token.Token
	for _, t := range Tokens(n) {
		out = append(out, t.FreeFloating...)
		out = append(out, t)
	}
	return out
}

// Render concatenates free-floating values and value of every token in source order.
func Render(n ast.Vertex) []byte {
	var b bytes.Buffer
	for _, t := range Tokens(n) {
		for _, ff := range t.FreeFloating {
			b.Write(ff.Value)
		}
		b.Write(t.Value)
	}
	return b.Bytes()
}

// GetField returns the reflect.Value of a named field of n.
func GetField(n ast.Vertex, name string) reflect.Value {
	return reflect.ValueOf(n).Elem().FieldByName(name)
}

// Value returns the []byte Value field of a leaf (nil,false if the kind has none).
func Value(n ast.Vertex) ([]byte, bool) {
	s := SchemaOf(n)
	if s == nil {
		return nil, false
	}
	for _, f := range s.Fields {
		if f.Class == FValue {
			return reflect.ValueOf(n).Elem().Field(f.Index).Bytes(), true
		}
	}
	return nil, false
}
