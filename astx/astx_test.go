package astx

import (
	"bytes"
	"os"
	"testing"

	"github.com/z7zmey/php-parser/pkg/conf"
	"github.com/z7zmey/php-parser/pkg/errors"
	"github.com/z7zmey/php-parser/pkg/parser"
	"github.com/z7zmey/php-parser/pkg/version"
)

func TestSelf(t *testing.T) {
	if err := SelfTest(); err != nil {
		t.Fatal(err)
	}
	t.Logf("%d kinds", len(Kinds()))
}

func TestRenderRepoFiles(t *testing.T) {
	for _, c := range []struct {
		path string
		maj  uint64
		min  uint64
	}{{"/repo/internal/php7/test.php", 7, 4}, {"/repo/internal/php5/test.php", 5, 6}} {
		src, err := os.ReadFile(c.path)
		if err != nil {
			t.Fatal(err)
		}
		nerr := 0
		root, err := parser.Parse(src, conf.Config{Version: &version.Version{Major: c.maj, Minor: c.min}, ErrorHandlerFunc: func(e *errors.Error) { nerr++ }})
		if err != nil || nerr != 0 {
			t.Fatalf("%s: err=%v nerr=%d", c.path, err, nerr)
		}
		if got := Render(root); !bytes.Equal(got, src) {
			t.Fatalf("%s: render differs", c.path)
		}
		cl := Clone(root)
		if d := Equal(root, cl, WithTokens|WithPositions); d != "" {
			t.Fatalf("clone differs: %s", d)
		}
		if Fingerprint(root) != Fingerprint(cl) {
			t.Fatal("fingerprint of clone differs")
		}
		t.Logf("%s: %d nodes %d tokens", c.path, len(Nodes(root)), len(Tokens(root)))
	}
}
