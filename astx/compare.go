package astx

import (
	"bytes"
	"fmt"
	"reflect"
	"strconv"

	"github.com/z7zmey/php-parser/pkg/ast"
	"github.com/z7zmey/php-parser/pkg/position"
	"github.com/z7zmey/php-parser/pkg/token"
)

// Mode selects what Equal compares.
type Mode int

const (
	// Structure: node kinds, which child slots are filled, list lengths, Value bytes.
	Structure Mode = 0
	// WithTokens additionally compares token slots: presence, ID, Value and
	// the free-floating list (ID, Value) of every token.
	WithTokens Mode = 1
	// WithPositions additionally compares node positions and token positions.
	WithPositions Mode = 2
)

// Equal compares two trees. It returns "" when equal, otherwise a description
// of the first difference including its path.
func Equal(a, b ast.Vertex, mode Mode) string {
	return equal(a, b, mode, KindName(a))
}

func equal(a, b ast.Vertex, mode Mode, path string) string {
	an, bn := IsNil(a), IsNil(b)
	if an || bn {
		if an != bn {
			return fmt.Sprintf("%s: presence differs: %s vs %s", path, KindName(a), KindName(b))
		}
		return ""
	}
	sa, sb := SchemaOf(a), SchemaOf(b)
	if sa == nil || sb == nil {
		return fmt.Sprintf("%s: unknown node type %T / %T", path, a, b)
	}
	if sa != sb {
		return fmt.Sprintf("%s: kind differs: %s vs %s", path, sa.Name, sb.Name)
	}
	va, vb := reflect.ValueOf(a).Elem(), reflect.ValueOf(b).Elem()
	for _, f := range sa.Fields {
		fa, fb := va.Field(f.Index), vb.Field(f.Index)
		switch f.Class {
		case FPosition:
			if mode&WithPositions != 0 {
				if d := posDiff(fa.Interface().(*position.Position), fb.Interface().(*position.Position)); d != "" {
					return fmt.Sprintf("%s: node position differs: %s", path, d)
				}
			}
		case FValue:
			if !bytes.Equal(fa.Bytes(), fb.Bytes()) {
				return fmt.Sprintf("%s.%s: value differs: %q vs %q", path, f.Name, fa.Bytes(), fb.Bytes())
			}
		case FToken:
			if mode&WithTokens != 0 {
				if d := tokenDiff(fa.Interface().(*token.Token), fb.Interface().(*token.Token), mode); d != "" {
					return fmt.Sprintf("%s.%s: %s", path, f.Name, d)
				}
			}
		case FTokenList:
			if mode&WithTokens != 0 {
				la, lb := fa.Interface().([]*token.Token), fb.Interface().([]*token.Token)
				if len(la) != len(lb) {
					return fmt.Sprintf("%s.%s: token list length differs: %d vs %d", path, f.Name, len(la), len(lb))
				}
				for i := range la {
					if d := tokenDiff(la[i], lb[i], mode); d != "" {
						return fmt.Sprintf("%s.%s[%d]: %s", path, f.Name, i, d)
					}
				}
			}
		case FChild:
			var ca, cb ast.Vertex
			if !fa.IsNil() {
				ca = fa.Interface().(ast.Vertex)
			}
			if !fb.IsNil() {
				cb = fb.Interface().(ast.Vertex)
			}
			if d := equal(ca, cb, mode, fmt.Sprintf("%s.%s/%s", path, f.Name, KindName(ca))); d != "" {
				return d
			}
		case FChildList:
			la, lb := fa.Interface().([]ast.Vertex), fb.Interface().([]ast.Vertex)
			if len(la) != len(lb) {
				return fmt.Sprintf("%s.%s: list length differs: %d vs %d", path, f.Name, len(la), len(lb))
			}
			for i := range la {
				if d := equal(la[i], lb[i], mode, fmt.Sprintf("%s.%s[%d]/%s", path, f.Name, i, KindName(la[i]))); d != "" {
					return d
				}
			}
		}
	}
	return ""
}

func posDiff(a, b *position.Position) string {
	if a == nil || b == nil {
		if a != b {
			return fmt.Sprintf("%s vs %s", PosString(a), PosString(b))
		}
		return ""
	}
	if *a != *b {
		return fmt.Sprintf("%s vs %s", PosString(a), PosString(b))
	}
	return ""
}

// PosString renders a position as "[startLine:endLine startPos:endPos]".
func PosString(p *position.Position) string {
	if p == nil {
		return "nil"
	}
	return fmt.Sprintf("[L%d-%d @%d-%d]", p.StartLine, p.EndLine, p.StartPos, p.EndPos)
}

func tokenDiff(a, b *token.Token, mode Mode) string {
	if a == nil || b == nil {
		if a != b {
			return fmt.Sprintf("token presence differs: %s vs %s", TokString(a), TokString(b))
		}
		return ""
	}
	if a.ID != b.ID || !bytes.Equal(a.Value, b.Value) {
		return fmt.Sprintf("token differs: %s vs %s", TokString(a), TokString(b))
	}
	if len(a.FreeFloating) != len(b.FreeFloating) {
		return fmt.Sprintf("free-floating count differs on %s: %s vs %s", TokString(a), ffString(a), ffString(b))
	}
	for i := range a.FreeFloating {
		fa, fb := a.FreeFloating[i], b.FreeFloating[i]
		if fa.ID != fb.ID || !bytes.Equal(fa.Value, fb.Value) {
			return fmt.Sprintf("free-floating[%d] differs on %s: %s vs %s", i, TokString(a), TokString(fa), TokString(fb))
		}
		if mode&WithPositions != 0 {
			if d := posDiff(fa.Position, fb.Position); d != "" {
				return fmt.Sprintf("free-floating[%d] position differs on %s: %s", i, TokString(a), d)
			}
		}
	}
	if mode&WithPositions != 0 {
		if d := posDiff(a.Position, b.Position); d != "" {
			return fmt.Sprintf("token position differs on %s: %s", TokString(a), d)
		}
	}
	return ""
}

// TokString renders a token for messages.
func TokString(t *token.Token) string {
	if t == nil {
		return "<nil>"
	}
	return fmt.Sprintf("%s%s", IDString(t.ID), strconv.Quote(string(t.Value)))
}

func ffString(t *token.Token) string {
	var b bytes.Buffer
	b.WriteByte('[')
	for i, f := range t.FreeFloating {
		if i > 0 {
			b.WriteByte(' ')
		}
		b.WriteString(TokString(f))
	}
	b.WriteByte(']')
	return b.String()
}

// IDString names a token id without relying on token.ID.String for single chars.
func IDString(id token.ID) string {
	if id > 0 && id < 256 {
		return "'" + string(rune(id)) + "'"
	}
	return id.String()
}

// Fingerprint is a complete, deterministic text rendering of a tree: kinds,
// slots, values, tokens with ids/values/positions/free-floating, node
// positions. Two trees have the same fingerprint iff Equal(..,
// WithTokens|WithPositions) holds (nil and empty lists are not distinguished).
func Fingerprint(n ast.Vertex) string {
	var b bytes.Buffer
	fingerprint(&b, n, 0)
	return b.String()
}

func indent(b *bytes.Buffer, d int) {
	for i := 0; i < d; i++ {
		b.WriteString("  ")
	}
}

func fpTok(b *bytes.Buffer, t *token.Token) {
	if t == nil {
		b.WriteString("<nil>")
		return
	}
	b.WriteString(TokString(t))
	b.WriteString(PosString(t.Position))
	if len(t.FreeFloating) > 0 {
		b.WriteString(" ff{")
		for i, f := range t.FreeFloating {
			if i > 0 {
				b.WriteByte(' ')
			}
			if f == nil {
				b.WriteString("<nil>")
				continue
			}
			b.WriteString(TokString(f))
			b.WriteString(PosString(f.Position))
		}
		b.WriteString("}")
	}
}

func fingerprint(b *bytes.Buffer, n ast.Vertex, d int) {
	if IsNil(n) {
		b.WriteString("<nil>\n")
		return
	}
	s := SchemaOf(n)
	if s == nil {
		fmt.Fprintf(b, "<unknown %T>\n", n)
		return
	}
	rv := reflect.ValueOf(n).Elem()
	b.WriteString(s.Name)
	b.WriteByte(' ')
	b.WriteString(PosString(rv.Field(0).Interface().(*position.Position)))
	b.WriteByte('\n')
	for _, f := range s.Fields {
		fv := rv.Field(f.Index)
		switch f.Class {
		case FValue:
			if fv.Len() > 0 {
				indent(b, d+1)
				fmt.Fprintf(b, "%s=%q\n", f.Name, fv.Bytes())
			}
		case FToken:
			if t := fv.Interface().(*token.Token); t != nil {
				indent(b, d+1)
				b.WriteString(f.Name)
				b.WriteString(": ")
				fpTok(b, t)
				b.WriteByte('\n')
			}
		case FTokenList:
			for i, t := range fv.Interface().([]*token.Token) {
				indent(b, d+1)
				fmt.Fprintf(b, "%s[%d]: ", f.Name, i)
				fpTok(b, t)
				b.WriteByte('\n')
			}
		case FChild:
			if !fv.IsNil() {
				c := fv.Interface().(ast.Vertex)
				if !IsNil(c) {
					indent(b, d+1)
					b.WriteString(f.Name)
					b.WriteString(": ")
					fingerprint(b, c, d+1)
				}
			}
		case FChildList:
			for i, c := range fv.Interface().([]ast.Vertex) {
				indent(b, d+1)
				fmt.Fprintf(b, "%s[%d]: ", f.Name, i)
				fingerprint(b, c, d+1)
			}
		}
	}
}

// Shape is a fingerprint without tokens and positions (kinds, slots, values).
func Shape(n ast.Vertex) string {
	var b bytes.Buffer
	shape(&b, n, 0)
	return b.String()
}

func shape(b *bytes.Buffer, n ast.Vertex, d int) {
	if IsNil(n) {
		b.WriteString("<nil>\n")
		return
	}
	s := SchemaOf(n)
	if s == nil {
		fmt.Fprintf(b, "<unknown %T>\n", n)
		return
	}
	rv := reflect.ValueOf(n).Elem()
	b.WriteString(s.Name)
	for _, f := range s.Fields {
		if f.Class == FValue && rv.Field(f.Index).Len() > 0 {
			fmt.Fprintf(b, " %q", rv.Field(f.Index).Bytes())
		}
	}
	b.WriteByte('\n')
	for _, f := range s.Fields {
		fv := rv.Field(f.Index)
		switch f.Class {
		case FChild:
			if !fv.IsNil() {
				c := fv.Interface().(ast.Vertex)
				if !IsNil(c) {
					indent(b, d+1)
					b.WriteString(f.Name)
					b.WriteString(": ")
					shape(b, c, d+1)
				}
			}
		case FChildList:
			for i, c := range fv.Interface().([]ast.Vertex) {
				indent(b, d+1)
				fmt.Fprintf(b, "%s[%d]: ", f.Name, i)
				shape(b, c, d+1)
			}
		}
	}
}

// Clone deep-copies a tree including tokens, free-floating tokens, positions
// and values (nothing is shared with the original).
func Clone(n ast.Vertex) ast.Vertex {
	if IsNil(n) {
		return nil
	}
	s := SchemaOf(n)
	if s == nil {
		panic(fmt.Sprintf("astx.Clone: unknown node %T", n))
	}
	src := reflect.ValueOf(n).Elem()
	dstp := reflect.New(s.Type)
	dst := dstp.Elem()
	for _, f := range s.Fields {
		fv := src.Field(f.Index)
		switch f.Class {
		case FPosition:
			if p := fv.Interface().(*position.Position); p != nil {
				c := *p
				dst.Field(f.Index).Set(reflect.ValueOf(&c))
			}
		case FValue:
			if !fv.IsNil() {
				dst.Field(f.Index).SetBytes(append([]byte{}, fv.Bytes()...))
			}
		case FToken:
			dst.Field(f.Index).Set(reflect.ValueOf(CloneToken(fv.Interface().(*token.Token))))
		case FTokenList:
			l := fv.Interface().([]*token.Token)
			if l != nil {
				nl := make([]*token.Token, len(l))
				for i, t := range l {
					nl[i] = CloneToken(t)
				}
				dst.Field(f.Index).Set(reflect.ValueOf(nl))
			}
		case FChild:
			if !fv.IsNil() {
				c := Clone(fv.Interface().(ast.Vertex))
				if c != nil {
					dst.Field(f.Index).Set(reflect.ValueOf(c))
				}
			}
		case FChildList:
			l := fv.Interface().([]ast.Vertex)
			if l != nil {
				nl := make([]ast.Vertex, len(l))
				for i, c := range l {
					nl[i] = Clone(c)
				}
				dst.Field(f.Index).Set(reflect.ValueOf(nl))
			}
		}
	}
	return dstp.Interface().(ast.Vertex)
}

// CloneToken deep-copies a token. Free-floating tokens are copied to a fixed
// depth (trivia of trivia of trivia is dropped): the library never nests
// trivia, and a token graph damaged into a cycle must not hang the harness.
func CloneToken(t *token.Token) *token.Token { return cloneToken(t, 0) }

func cloneToken(t *token.Token, depth int) *token.Token {
	if t == nil {
		return nil
	}
	c := &token.Token{ID: t.ID}
	if t.Value != nil {
		c.Value = append([]byte{}, t.Value...)
	}
	if t.Position != nil {
		p := *t.Position
		c.Position = &p
	}
	if t.FreeFloating != nil && depth < 3 {
		c.FreeFloating = make([]*token.Token, len(t.FreeFloating))
		for i, f := range t.FreeFloating {
			c.FreeFloating[i] = cloneToken(f, depth+1)
		}
	}
	return c
}
