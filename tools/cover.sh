#!/bin/bash
# development tool: statement coverage of /repo reached by the quick checks (one shard each).
# usage: tools/cover.sh [props...]   -> /var/tmp/vcov/merged.txt + uncovered.txt   (scratch under /var/tmp, removable)
export GOFLAGS=-mod=mod GOPROXY=off GOSUMDB=off GOTOOLCHAIN=local
cd "$(dirname "$0")/.."
ROOT=$(pwd); OUT=/var/tmp/vcov; mkdir -p $OUT
props=${@:-c01 c02 c03 c04 c05 c06 c07 c08 c09 c10 c12 c13 c14 c15 c16 c17 c18}
for p in $props; do
  ( go test -c -vet=off -cover -coverpkg=github.com/z7zmey/php-parser/... -o $OUT/$p.test ./checks/$p/ || exit 1
    cd checks/$p
    mkdir -p $OUT/tmp.$p
    VERIF_ROOT=$ROOT VERIF_TIER=quick VERIF_SEED=${VERIF_SEED:-0} VERIF_SHARD=0 VERIF_SHARDS=8 VERIF_STATS=$OUT/stats.$p.json VERIF_TMP=$OUT/tmp.$p \
      $OUT/$p.test -test.timeout=0 -test.count=1 -rapid.nofailfile -test.coverprofile=$OUT/$p.prof > $OUT/$p.log 2>&1
    echo "$p exit=$?" ) &
done
wait
python3 - <<'P'
import glob,re,collections
cov=collections.defaultdict(int); stm={}
for f in glob.glob('/var/tmp/vcov/*.prof'):
    for l in open(f):
        if l.startswith('mode:'): continue
        m=re.match(r'(.*):(\d+)\.(\d+),(\d+)\.(\d+) (\d+) (\d+)',l)
        k=(m.group(1),int(m.group(2)),int(m.group(3)),int(m.group(4)),int(m.group(5)))
        stm[k]=int(m.group(6)); cov[k]+=int(m.group(7))
byfile=collections.defaultdict(lambda:[0,0])
unc=[]
for k,n in stm.items():
    byfile[k[0]][1]+=n
    if cov[k]>0: byfile[k[0]][0]+=n
    else: unc.append(k)
with open('/var/tmp/vcov/merged.txt','w') as o:
    for f,(c,t) in sorted(byfile.items()):
        o.write('%6.1f%% %5d/%5d %s\n'%(100.0*c/max(t,1),c,t,f))
with open('/var/tmp/vcov/uncovered.txt','w') as o:
    for k in sorted(unc):
        o.write('%s:%d.%d-%d.%d\n'%k)
print(open('/var/tmp/vcov/merged.txt').read())
P
