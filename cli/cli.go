// Package cli runs the repository's command-line tool (cmd/php-parser), which several properties
// name as an observation point (-pb print back, -d dump, -r resolved names, -e errors, -phpver).
// The driver builds the binary from the tree under test (plain and, for C11, with -race) and passes
// its path in VERIF_CLI / VERIF_CLI_RACE; scratch directories live under VERIF_TMP (the shard's work
// directory) and are removed after each case.
package cli

import (
	"bytes"
	"context"
	"encoding/base64"
	"encoding/json"
	"os"
	"os/exec"
	"path/filepath"
	"sort"
	"strings"
	"time"
)

// Path is the plain binary ("" when the driver did not build one).
func Path() string { return os.Getenv("VERIF_CLI") }

// RacePath is the binary built with the race detector.
func RacePath() string { return os.Getenv("VERIF_CLI_RACE") }

// Result of one invocation.
type Result struct {
	Stdout, Stderr []byte
	Exit           int
	TimedOut       bool
	Err            error // could not be started at all
}

// Run executes bin with args in dir. The limit is a hang watchdog (a normal run takes milliseconds).
func Run(bin, dir string, limit time.Duration, env []string, args ...string) Result {
	ctx, cancel := context.WithTimeout(context.Background(), limit)
	defer cancel()
	cmd := exec.CommandContext(ctx, bin, args...)
	cmd.Dir = dir
	cmd.Env = append(os.Environ(), env...)
	var so, se bytes.Buffer
	cmd.Stdout, cmd.Stderr = &so, &se
	err := cmd.Run()
	r := Result{Stdout: so.Bytes(), Stderr: se.Bytes()}
	if ctx.Err() == context.DeadlineExceeded {
		r.TimedOut = true
		return r
	}
	if err != nil {
		if ee, ok := err.(*exec.ExitError); ok {
			r.Exit = ee.ExitCode()
		} else {
			r.Err = err
		}
	}
	return r
}

// TempDir creates a scratch directory and returns it with its clean-up function.
func TempDir(prefix string) (string, func(), error) {
	base := os.Getenv("VERIF_TMP")
	if base == "" {
		base = os.TempDir()
	}
	if err := os.MkdirAll(base, 0o755); err != nil {
		return "", nil, err
	}
	d, err := os.MkdirTemp(base, prefix)
	if err != nil {
		return "", nil, err
	}
	return d, func() { _ = os.RemoveAll(d) }, nil
}

// WriteTree writes the files (relative path -> content) below dir.
func WriteTree(dir string, files map[string][]byte) error {
	for rel, b := range files {
		p := filepath.Join(dir, rel)
		if err := os.MkdirAll(filepath.Dir(p), 0o755); err != nil {
			return err
		}
		if err := os.WriteFile(p, b, 0o644); err != nil {
			return err
		}
	}
	return nil
}

// ReadTree reads every regular file below dir (relative path -> content).
func ReadTree(dir string) (map[string][]byte, error) {
	out := map[string][]byte{}
	err := filepath.Walk(dir, func(p string, fi os.FileInfo, err error) error {
		if err != nil {
			return err
		}
		if fi.Mode().IsRegular() {
			b, err := os.ReadFile(p)
			if err != nil {
				return err
			}
			rel, _ := filepath.Rel(dir, p)
			out[rel] = b
		}
		return nil
	})
	return out, err
}

// PrefixedLines returns, sorted, the lines of text that start with prefix (prefix removed).
func PrefixedLines(text []byte, prefix string) []string {
	var out []string
	for _, l := range strings.Split(string(text), "\n") {
		if strings.HasPrefix(l, prefix) {
			out = append(out, l[len(prefix):])
		}
	}
	sort.Strings(out)
	return out
}

// HasRaceReport reports whether the output of a -race binary contains a data race report.
func HasRaceReport(stderr []byte) bool {
	return bytes.Contains(stderr, []byte("WARNING: DATA RACE"))
}

// EncodeTree renders a file tree for a replay file's meta data (relative path -> base64 content).
func EncodeTree(files map[string][]byte) string {
	m := map[string]string{}
	for k, v := range files {
		m[k] = base64.StdEncoding.EncodeToString(v)
	}
	b, _ := json.Marshal(m)
	return string(b)
}

// DecodeTree is the inverse of EncodeTree.
func DecodeTree(s string) map[string][]byte {
	var m map[string]string
	if json.Unmarshal([]byte(s), &m) != nil {
		return nil
	}
	out := map[string][]byte{}
	for k, v := range m {
		b, err := base64.StdEncoding.DecodeString(v)
		if err != nil {
			return nil
		}
		out[k] = b
	}
	return out
}
