// Package progs is the shared program source of the checks: it draws a
// generated program for a version under the standard exclusion options (one
// switch per open known finding), renders it under a policy and reports the
// generator's feature counts to the harness.
package progs

import (
	"bytes"
	"strings"

	"github.com/z7zmey/php-parser/pkg/ast"
	"pgregory.net/rapid"

	"verif/harness"
	"verif/phpgen"
	"verif/px"
)

// Options returns the standard generator options for a version: everything
// the family has, minus the constructs behind open known findings.
func Options(v px.Ver) phpgen.Options {
	return phpgen.Options{
		PHP7: !v.IsPHP5(), Flexible: v.Flexible(), RandomCase: true, MaxDepth: 3,
		NoEmptyHeredoc73:     harness.FindingOpen("empty-heredoc-73"),
		NoBinaryPrefixSingle: harness.FindingOpen("binary-prefix-single-quote"),
		NoLoneCR:             harness.FindingOpen("lone-cr-newline"),
		NoPHP5Goto:           harness.FindingOpen("php5-goto-label-span"),
		NoPHP5NewChain:       harness.FindingOpen("php5-new-chain-span"),
		NoEncapsedVarDim:     harness.FindingOpen("encapsed-var-dim-span"),
	}
}

// StructuralOptions is Options without the three switches that exist only because of *span* findings
// (php5-goto-label-span, php5-new-chain-span, encapsed-var-dim-span): checks that do not compare node
// positions with the generator's model (round trip, structure, formatting, traversal, observers,
// recovery, dumps ...) generate those constructs, so that a span finding does not hide them from
// every other property.
func StructuralOptions(v px.Ver) phpgen.Options {
	o := Options(v)
	o.NoPHP5Goto, o.NoPHP5NewChain, o.NoEncapsedVarDim = false, false, false
	return o
}

// Padding draws, for about one case in eight, inline HTML to put in front of the program so that
// all of its tokens lie beyond a size threshold: > 256 lines, > 65536 bytes, > 65536 lines (LF or CRLF).
func Padding(rt *rapid.T) []byte {
	switch rapid.IntRange(0, 31).Draw(rt, "padding") {
	case 0:
		harness.Class("padding:300-lines")
		return bytes.Repeat([]byte("x\n"), 300)
	case 1:
		harness.Class("padding:66000-bytes-one-line")
		return bytes.Repeat([]byte("a"), 66000)
	case 2:
		harness.Class("padding:66000-lines")
		return bytes.Repeat([]byte("\n"), 66000)
	case 3:
		harness.Class("padding:33000-crlf-lines")
		return bytes.Repeat([]byte("\r\n"), 33000)
	}
	return nil
}

// Case is one generated program.
type Case struct {
	G    *phpgen.Gen
	Root *ast.Root
	Ver  px.Ver
}

// Draw draws a program of min..max top-level statements for version v.
func Draw(rt *rapid.T, v px.Ver, o phpgen.Options, min, max int) *Case {
	g := phpgen.New(rt, o)
	return &Case{G: g, Root: g.Program(min, max), Ver: v}
}

// Policy builds a policy of the kind with the standard exclusions.
func Policy(rt *rapid.T, kind phpgen.PolicyKind, excluded *int) phpgen.Policy {
	p := phpgen.Policy{Kind: kind, NoLoneCR: harness.FindingOpen("lone-cr-newline"), Excluded: excluded}
	if kind >= phpgen.PolicyWhitespace {
		p.T = rt
		p.ShortOpenTag = true
	}
	return p
}

// Report sends the generator's feature and exclusion counters to the harness.
func (c *Case) Report() {
	for k, n := range c.G.Feat {
		if strings.HasPrefix(k, "pair:") {
			harness.Distinct("operator-pairs (inner kind / outer operator / side)", k)
			continue
		}
		harness.ClassN(k, n)
	}
	for k, n := range c.G.Excl {
		for i := 0; i < n; i++ {
			harness.Excluded(k)
		}
	}
}
