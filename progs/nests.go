package progs

import (
	"fmt"

	"verif/harness"
	"verif/phpgen"
	"verif/px"
)

// NestCase is one enumerated operator nest, built freshly for a version (programs are mutable trees).
type NestCase struct {
	Name string
	Nest phpgen.Nest
}

// EachNest enumerates the operator nests of this tier and shard and calls f with a fresh generator and
// program per nest: every pair (depth 2) with each leaf kind, every triple (depth 3) inside each
// fusion family, and — thorough tier only — every triple over all operators. build returns nil when
// the version's family lacks an operator.
func EachNest(v px.Ver, common bool, f func(name string, build func() *NestProgram) bool) {
	ops := phpgen.NestOps()
	i := 0
	stop := false
	emit := func(label string, n phpgen.Nest) {
		if stop {
			return
		}
		i++
		if !harness.MyShare(i) {
			return
		}
		name := label + ": " + n.Name(ops)
		build := func() *NestProgram {
			o := Options(v)
			o.RandomCase = false
			o.Common = common
			g := phpgen.New(nil, o)
			root := g.NestProgram(ops, n)
			if root == nil {
				return nil
			}
			return &NestProgram{G: g, Case: &Case{G: g, Root: root, Ver: v}}
		}
		if !f(name, build) {
			stop = true
		}
	}
	phpgen.EnumNests(ops, 2, nil, []int{0, 1, 2, 3}, func(n phpgen.Nest) { emit("pair", n) })
	fams := phpgen.FusionFamilies(ops)
	for _, fam := range []string{"sign", "dot", "amp-pipe", "angle", "question", "star-eq", "word", "low-right"} {
		leaves := []int{0}
		if fam == "dot" || fam == "sign" {
			leaves = []int{0, 1, 2, 3}
		}
		phpgen.EnumNests(ops, 3, fams[fam], leaves, func(n phpgen.Nest) { emit("family "+fam, n) })
	}
	if harness.Thorough() {
		phpgen.EnumNests(ops, 3, nil, []int{0}, func(n phpgen.Nest) { emit("triple", n) })
		harness.Exhaustive(fmt.Sprintf("operator nests: every pair x 4 leaf kinds, every triple over all %d operators (each operand position), version %s", len(ops), v))
	} else {
		harness.Exhaustive(fmt.Sprintf("operator nests: every pair of the %d operators x 4 leaf kinds and every triple inside 8 fusion families (each operand position)", len(ops)))
	}
}

// NestProgram is a built nest.
type NestProgram struct {
	G *phpgen.Gen
	*Case
}
