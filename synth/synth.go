// Package synth builds synthetic nodes of any kind whose slots hold unique
// markers, for the exhaustive per-kind checks (C12, C15, C16).
package synth

import (
	"fmt"
	"reflect"

	"github.com/z7zmey/php-parser/pkg/ast"
	"github.com/z7zmey/php-parser/pkg/position"
	"github.com/z7zmey/php-parser/pkg/token"

	"verif/astx"
)

// Markers hands out unique marker values.
type Markers struct {
	n int
	// WithFF attaches one free-floating marker token to every marker token.
	WithFF bool
	// WithPos gives every marker token / node a distinct position.
	WithPos bool
	// Deep makes child markers two levels deep (a node with a child of its own), so
	// that "presented but not descended into" is visible to a traversal check.
	Deep bool
	// BlockStmt fills child slots named "Stmt" with a brace-bearing statement list
	// (marker braces, one marker statement) instead of a leaf.
	BlockStmt bool
}

// OpenMark / CloseMark delimit marker texts in printer output.
const (
	OpenTok, CloseTok = "⟦", "⟧" // token value marker  ⟦T12⟧
	OpenFF, CloseFF   = "⟪", "⟫" // free-floating marker ⟪F12⟫
)

func (m *Markers) next() int { m.n++; return m.n }

func (m *Markers) pos(k int) *position.Position {
	if !m.WithPos {
		return nil
	}
	return &position.Position{StartLine: k, EndLine: k + 1, StartPos: 10 * k, EndPos: 10*k + 5}
}

// Token returns a fresh marker token.
func (m *Markers) Token() *token.Token {
	k := m.next()
	t := &token.Token{ID: token.T_STRING, Value: []byte(fmt.Sprintf("%sT%d%s", OpenTok, k, CloseTok)), Position: m.pos(k)}
	if m.WithFF {
		f := m.next()
		t.FreeFloating = []*token.Token{{ID: token.T_WHITESPACE, Value: []byte(fmt.Sprintf("%sF%d%s", OpenFF, f, CloseFF)), Position: m.pos(f)}}
	}
	return t
}

// Leaf returns a fresh marker leaf (an Identifier whose token is a marker).
func (m *Markers) Leaf() ast.Vertex {
	t := m.Token()
	k := m.next()
	leaf := &ast.Identifier{Position: m.pos(k), IdentifierTkn: t, Value: t.Value}
	if m.Deep {
		return &ast.ExprBrackets{Position: m.pos(m.next()), Expr: leaf}
	}
	return leaf
}

// Block returns a statement list with marker braces and one marker statement.
func (m *Markers) Block() ast.Vertex {
	return &ast.StmtStmtList{Position: m.pos(m.next()), OpenCurlyBracketTkn: m.Token(), Stmts: []ast.Vertex{m.Leaf()}, CloseCurlyBracketTkn: m.Token()}
}

// SlotFields lists the indices (into s.Fields) of the fields of the given classes.
func SlotFields(s *astx.Schema, classes ...astx.FieldClass) []int {
	var out []int
	for i, f := range s.Fields {
		for _, c := range classes {
			if f.Class == c {
				out = append(out, i)
			}
		}
	}
	return out
}

// Build allocates a node of kind s and fills the fields selected by present
// (index into s.Fields). Lists get listLen(i) items (child lists: marker
// leaves; token lists: marker tokens). Value fields get val.
func Build(s *astx.Schema, m *Markers, present func(i int) bool, listLen func(i int) int, val []byte) ast.Vertex {
	n := s.New()
	rv := reflect.ValueOf(n).Elem()
	for i, f := range s.Fields {
		if f.Class == astx.FPosition {
			if m.WithPos {
				rv.Field(f.Index).Set(reflect.ValueOf(m.pos(m.next())))
			}
			continue
		}
		if !present(i) {
			continue
		}
		switch f.Class {
		case astx.FToken:
			rv.Field(f.Index).Set(reflect.ValueOf(m.Token()))
		case astx.FTokenList:
			k := listLen(i)
			l := make([]*token.Token, k)
			for j := range l {
				l[j] = m.Token()
			}
			rv.Field(f.Index).Set(reflect.ValueOf(l))
		case astx.FChild:
			if m.BlockStmt && f.Name == "Stmt" {
				rv.Field(f.Index).Set(reflect.ValueOf(m.Block()))
			} else {
				rv.Field(f.Index).Set(reflect.ValueOf(m.Leaf()))
			}
		case astx.FChildList:
			k := listLen(i)
			l := make([]ast.Vertex, k)
			for j := range l {
				l[j] = m.Leaf()
			}
			rv.Field(f.Index).Set(reflect.ValueOf(l))
		case astx.FValue:
			rv.Field(f.Index).SetBytes(append([]byte{}, val...))
		}
	}
	return n
}

// Describe renders which slots a synthetic node has filled.
func Describe(s *astx.Schema, present func(i int) bool, listLen func(i int) int) string {
	out := s.Name + "{"
	first := true
	for i, f := range s.Fields {
		if f.Class == astx.FPosition || !present(i) {
			continue
		}
		if !first {
			out += " "
		}
		first = false
		out += f.Name
		if f.Class == astx.FChildList || f.Class == astx.FTokenList {
			out += fmt.Sprintf("[%d]", listLen(i))
		}
	}
	return out + "}"
}
