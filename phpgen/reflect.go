package phpgen

import (
	"reflect"

	"github.com/z7zmey/php-parser/pkg/ast"
	"github.com/z7zmey/php-parser/pkg/position"
	"github.com/z7zmey/php-parser/pkg/token"

	"verif/astx"
)

func typeName(n ast.Vertex) string {
	t := reflect.TypeOf(n)
	if t.Kind() == reflect.Ptr {
		t = t.Elem()
	}
	return t.Name()
}

// fieldVertex returns the child held by the named ast.Vertex field (nil if absent).
func fieldVertex(n ast.Vertex, name string) ast.Vertex {
	rv := reflect.ValueOf(n)
	if rv.Kind() != reflect.Ptr || rv.IsNil() {
		return nil
	}
	f := rv.Elem().FieldByName(name)
	if !f.IsValid() || f.Kind() != reflect.Interface || f.IsNil() {
		return nil
	}
	v, _ := f.Interface().(ast.Vertex)
	if astx.IsNil(v) {
		return nil
	}
	return v
}

// firstToken returns the first token of a subtree in source order.
func firstToken(n ast.Vertex) *token.Token {
	ts := astx.Tokens(n)
	if len(ts) == 0 {
		return nil
	}
	return ts[0]
}

// lastToken returns the last token of a subtree in source order.
func lastToken(n ast.Vertex) *token.Token {
	ts := astx.Tokens(n)
	if len(ts) == 0 {
		return nil
	}
	return ts[len(ts)-1]
}

var reflectZeroPos = reflect.Zero(reflect.TypeOf((*position.Position)(nil)))

func reflectValueOf(p *position.Position) reflect.Value { return reflect.ValueOf(p) }
