package phpgen

import (
	"reflect"
	"strings"

	"github.com/z7zmey/php-parser/pkg/ast"

	"verif/astx"
)

// operandFields lists, for operator nodes, the child slots that hold
// arbitrary expression operands (slots that must stay a variable, a class
// reference or a name are not listed).
func operandFields(n ast.Vertex) []string {
	k := typeName(n)
	switch {
	case strings.HasPrefix(k, "ExprBinary"):
		return []string{"Left", "Right"}
	case k == "ExprAssignReference":
		return nil
	case strings.HasPrefix(k, "ExprAssign"):
		return []string{"Expr"}
	case strings.HasPrefix(k, "ExprCast"):
		return []string{"Expr"}
	}
	switch k {
	case "ExprTernary":
		return []string{"Cond", "IfTrue", "IfFalse"}
	case "ExprBooleanNot", "ExprBitwiseNot", "ExprUnaryMinus", "ExprUnaryPlus", "ExprErrorSuppress", "ExprPrint", "ExprClone", "ExprInstanceOf",
		"ExprInclude", "ExprIncludeOnce", "ExprRequire", "ExprRequireOnce", "ExprYieldFrom":
		return []string{"Expr"}
	case "ExprYield":
		return []string{"Key", "Val"}
	}
	return nil
}

// BracketAll puts every operand of every operator of the tree into
// parentheses (in place). The result is the "twin" of a generated program: it
// no longer depends on any precedence or associativity rule, so parsing it
// must give the same grouping as the minimally bracketed rendering.
func (g *Gen) BracketAll(root ast.Vertex) int {
	n := 0
	for _, node := range astx.Nodes(root) {
		// operators written in a string's simple interpolation syntax ("$a[-1]") cannot take brackets
		inString := false
		for _, p := range astx.Parts(node) {
			if p.Kind == astx.PToken && g.gaps[p.Tok] == GapNone {
				inString = true
			}
		}
		if inString {
			continue
		}
		for _, f := range operandFields(node) {
			fv := reflect.ValueOf(node).Elem().FieldByName(f)
			if !fv.IsValid() || fv.IsNil() {
				continue
			}
			c := fv.Interface().(ast.Vertex)
			if _, ok := c.(*ast.ExprBrackets); ok {
				continue
			}
			fv.Set(reflect.ValueOf(ast.Vertex(g.Brackets(c))))
			n++
		}
	}
	return n
}

// StripBrackets removes every ExprBrackets node from the tree (in place) and returns the new root.
func StripBrackets(root ast.Vertex) ast.Vertex {
	unwrap := func(c ast.Vertex) ast.Vertex {
		for {
			b, ok := c.(*ast.ExprBrackets)
			if !ok || b == nil {
				return c
			}
			c = b.Expr
		}
	}
	root = unwrap(root)
	var walk func(n ast.Vertex)
	walk = func(n ast.Vertex) {
		s := astx.SchemaOf(n)
		if s == nil {
			return
		}
		rv := reflect.ValueOf(n).Elem()
		for _, f := range s.Fields {
			switch f.Class {
			case astx.FChild:
				fv := rv.Field(f.Index)
				if fv.IsNil() {
					continue
				}
				c := unwrap(fv.Interface().(ast.Vertex))
				fv.Set(reflect.ValueOf(c))
				walk(c)
			case astx.FChildList:
				l := rv.Field(f.Index).Interface().([]ast.Vertex)
				for i := range l {
					if astx.IsNil(l[i]) {
						continue
					}
					l[i] = unwrap(l[i])
					walk(l[i])
				}
			}
		}
	}
	walk(root)
	return root
}
