// Package phpgen generates valid PHP programs as token-bearing pkg/ast trees.
//
// A generated case is a synthetic ast tree whose token slots are filled (ID and
// Value = lexeme as it will appear in the source) but that carries no trivia
// and no positions. Layout (layout.go) then renders the tree under a trivia
// policy: it attaches free-floating tokens to every token, computes the source
// text and assigns the offsets and lines of every token. One generated object
// therefore carries, without consulting the parser, the source bytes, the
// expected node kinds / roles / values, the expected tokens with their trivia
// attachment and the expected positions.
//
// All random choices are rapid draws.
package phpgen

import (
	"strings"

	"github.com/z7zmey/php-parser/pkg/ast"
	"github.com/z7zmey/php-parser/pkg/token"
	"pgregory.net/rapid"
)

// GapKind restricts the trivia allowed in the gap before a token.
type GapKind int

const (
	GapFree GapKind = iota // any trivia; whitespace mandatory only where lexemes would fuse
	GapNone                // nothing may be inserted (inside string-like constructs, after a close tag)
	GapWS                  // whitespace only, no comments
	GapMust                // like GapFree but at least one whitespace/comment is mandatory
)

// Options selects the derivable language and switches constructs off.
type Options struct {
	PHP7     bool // PHP 7 family (else PHP 5.6)
	Flexible bool // >= 7.3 heredoc terminators may be generated
	// Common restricts generation to syntax PHP 5 and PHP 7 share with the same meaning (C10).
	Common bool
	// RandomCase draws a random letter case for keywords.
	RandomCase bool
	// MaxDepth bounds expression/statement nesting.
	MaxDepth int
	// LeadHTML, when non-empty, is emitted as inline HTML at the very start of the file (before the
	// first open tag): padding that moves every later token past offset / line thresholds
	// (256 or 65536 lines, 65536 bytes) without making the program expensive to generate.
	LeadHTML []byte
	// NoHTML disables close tags / inline HTML / <?= inside the program.
	NoHTML bool
	// NoDeep disables deep-nest programs (deep.go).
	NoDeep bool
	// NoHalt disables __halt_compiler.
	NoHalt bool
	// Exclusions for open known findings (counted by the caller through Excl).
	NoEmptyHeredoc73 bool // empty heredoc body under >= 7.3 (finding empty-heredoc-73)
	NoEncapsedVarDim bool // "${a[1]}" (C05 finding: span)
	NoPHP5NewChain   bool // PHP 5 new $a->b[0] (C05 finding)
	NoPHP5Goto       bool // PHP 5 goto label span (C05 finding)
	// Simple restricts to constructs the formatter handles (set by C17 as findings are triaged).
	NoNowdoc bool
	// NoAltCloseTag: alternative-syntax statements end in ";" rather than a close tag (C17 finding formatter-brace-close-tag).
	NoAltCloseTag bool
	// BraceAltIfBeforeElse: an alternative-syntax if that is the unbraced body of an if/elseif followed by else/elseif is put in braces (C17 finding formatter-dangling-else).
	BraceAltIfBeforeElse bool
	NoBinaryPrefixSingle bool // b'...' (finding binary-prefix-single-quote)
	// NoLoneCR avoids a lone CR where the lexer needs a "newline" or whitespace between tokens (finding lone-cr-newline).
	NoLoneCR bool
}

// Gen is the generation context.
type Gen struct {
	T         *rapid.T
	O         Options
	depth     int
	listShort bool // exprgen.go listTarget: the outermost list of the pattern under construction is written [...]
	deepClass bool // deep.go: the nest under construction already contains a class
	// gap rules for the gap *before* a token
	gaps map[*token.Token]GapKind
	// Excl counts constructs skipped because of an exclusion option.
	Excl map[string]int
	// Feat counts features used by the generated program (distribution measurement).
	Feat map[string]int
	// closing heredoc labels by termination style (see layout)
	flexEnds   map[*token.Token]bool
	legacyEnds map[*token.Token]bool
	// HaltTail is the raw text after __halt_compiler(); (nil when there is no such statement).
	HaltTail []byte
	inString int
	inFunc   int // nesting depth of function-like bodies (yield allowed)
	inClass  int
	inLoop   int
	// LeadHashBang: the program starts with inline HTML whose first line begins with "#!"; it is only
	// text when a real shebang line precedes it, so Render forces the shebang line for such programs.
	LeadHashBang bool
	// listInForeach: the list() being drawn is a foreach target
	listInForeach bool
	// nestLeafKind selects the leaf of the operator-nest enumeration (opnest.go)
	nestLeafKind int
}

// New creates a generator.
func New(t *rapid.T, o Options) *Gen {
	if o.MaxDepth == 0 {
		o.MaxDepth = 4
	}
	return &Gen{T: t, O: o, gaps: map[*token.Token]GapKind{}, Excl: map[string]int{}, Feat: map[string]int{},
		flexEnds: map[*token.Token]bool{}, legacyEnds: map[*token.Token]bool{}}
}

func (g *Gen) feat(s string) { g.Feat[s]++ }

// --- draws ---------------------------------------------------------------

func (g *Gen) intn(n int, label string) int { return rapid.IntRange(0, n-1).Draw(g.T, label) }
func (g *Gen) rng(lo, hi int, label string) int {
	return rapid.IntRange(lo, hi).Draw(g.T, label)
}
func (g *Gen) flip(label string) bool { return rapid.Bool().Draw(g.T, label) }

// count draws the length of a list (arguments, items, names, cases ...): usually lo..hi, one time in
// twelve up to nine. Lists are assembled by repeated append (capacities 1, 2, 4, 8), so what a list of
// 3, 5, 6 or 7 elements leaves behind — spare capacity another append can write into — differs from
// what the usual one to three elements leave.
func (g *Gen) count(lo, hi int, label string) int {
	if g.depth <= g.O.MaxDepth && hi < 9 && rapid.IntRange(0, 11).Draw(g.T, label+"-long") == 0 {
		g.feat("long-list")
		return rapid.IntRange(hi+1, 9).Draw(g.T, label)
	}
	return rapid.IntRange(lo, hi).Draw(g.T, label)
}

// chance is true with probability about num/den.
func (g *Gen) chance(num, den int, label string) bool {
	return rapid.IntRange(1, den).Draw(g.T, label) <= num
}
func (g *Gen) pick(label string, xs ...string) string {
	return xs[rapid.IntRange(0, len(xs)-1).Draw(g.T, label)]
}

// --- tokens --------------------------------------------------------------

func (g *Gen) tok(id token.ID, val string) *token.Token {
	return &token.Token{ID: id, Value: []byte(val)}
}

// ch is a single-character token.
func (g *Gen) ch(c byte) *token.Token {
	return &token.Token{ID: token.ID(c), Value: []byte{c}}
}

func (g *Gen) setGap(t *token.Token, k GapKind) *token.Token {
	if t != nil {
		g.gaps[t] = k
	}
	return t
}

// spell draws a letter case for a keyword.
func (g *Gen) spell(word string) string {
	if !g.O.RandomCase {
		return word
	}
	switch g.intn(6, "case") {
	case 0:
		return strings.ToUpper(word)
	case 1:
		return strings.ToUpper(word[:1]) + word[1:]
	case 2:
		b := []byte(word)
		for i := range b {
			if b[i] >= 'a' && b[i] <= 'z' && g.flip("up") {
				b[i] -= 32
			}
		}
		return string(b)
	}
	return word
}

// kw is a keyword token with a drawn letter case.
func (g *Gen) kw(id token.ID, word string) *token.Token {
	w := g.spell(word)
	if w != word {
		g.feat("keyword-case")
	}
	return g.tok(id, w)
}

// --- identifiers ---------------------------------------------------------

// Identifier pools avoid every word that is reserved, semi-reserved or a cast
// type name in either language family, so that no check depends on
// per-version reserved-word sets.
var (
	varNames   = []string{"a", "b", "c", "i", "k", "v", "x", "foo", "barBaz", "_tmp", "x1", "Obj", "\xc3\xbcber", "this", "GLOBALS", "value_2", "\xd7\xa9\xd7\x9c", "\x80x", "\xff"}
	plainNames = []string{"Foo", "Bar", "baz", "qux", "A", "B", "T1", "_x", "camelCase", "snake_case", "\xc3\x9cn\xc3\xaf", "x1", "Zed", "handler", "Q", "\xd7\xa9\xd7\x9c\xd7\x95\xd7\x9d", "\x80abc", "\xbf_", "\xf7a", "\xffz", "a\xd7"}
	labelNames = []string{"EOT", "EOD", "HTML", "_L1", "X", "Sql"}
)

func (g *Gen) varName() string   { return "$" + varNames[g.intn(len(varNames), "var")] }
func (g *Gen) plainName() string { return plainNames[g.intn(len(plainNames), "name")] }

// Ident builds an Identifier leaf from a T_STRING token.
func (g *Gen) Ident(s string) *ast.Identifier {
	return &ast.Identifier{IdentifierTkn: g.tok(token.T_STRING, s), Value: []byte(s)}
}

// identTok builds an Identifier from an arbitrary token (keyword used as identifier).
func (g *Gen) identTok(t *token.Token) *ast.Identifier {
	return &ast.Identifier{IdentifierTkn: t, Value: t.Value}
}

// Var builds a simple variable $name.
func (g *Gen) Var(name string) *ast.ExprVariable {
	return &ast.ExprVariable{Name: &ast.Identifier{IdentifierTkn: g.tok(token.T_VARIABLE, name), Value: []byte(name)}}
}

func (g *Gen) simpleVar() *ast.ExprVariable { return g.Var(g.varName()) }

// --- names ---------------------------------------------------------------

func (g *Gen) nameParts(n int) ([]ast.Vertex, []*token.Token) {
	var parts []ast.Vertex
	var seps []*token.Token
	for i := 0; i < n; i++ {
		s := g.plainName()
		parts = append(parts, &ast.NamePart{StringTkn: g.tok(token.T_STRING, s), Value: []byte(s)})
		if i < n-1 {
			seps = append(seps, g.tok(token.T_NS_SEPARATOR, "\\"))
		}
	}
	return parts, seps
}

// NameOf builds a plain (possibly qualified) name from its segments.
func (g *Gen) NameOf(segs ...string) *ast.Name {
	n := &ast.Name{}
	for i, s := range segs {
		n.Parts = append(n.Parts, &ast.NamePart{StringTkn: g.tok(token.T_STRING, s), Value: []byte(s)})
		if i < len(segs)-1 {
			n.SeparatorTkns = append(n.SeparatorTkns, g.tok(token.T_NS_SEPARATOR, "\\"))
		}
	}
	return n
}

// Name draws a name of one of the three forms.
func (g *Gen) Name() ast.Vertex {
	n := 1
	if g.chance(1, 3, "qualified") {
		n = g.count(2, 3, "segments")
	}
	parts, seps := g.nameParts(n)
	switch g.intn(6, "nameform") {
	case 0:
		g.feat("name-fq")
		return &ast.NameFullyQualified{NsSeparatorTkn: g.tok(token.T_NS_SEPARATOR, "\\"), Parts: parts, SeparatorTkns: seps}
	case 1:
		g.feat("name-relative")
		return &ast.NameRelative{NsTkn: g.kw(token.T_NAMESPACE, "namespace"), NsSeparatorTkn: g.tok(token.T_NS_SEPARATOR, "\\"), Parts: parts, SeparatorTkns: seps}
	}
	return &ast.Name{Parts: parts, SeparatorTkns: seps}
}

// PlainName is an unqualified or qualified Name (never FQ/relative).
func (g *Gen) PlainName() *ast.Name {
	n := 1
	if g.chance(1, 4, "qualified") {
		n = 2
	}
	parts, seps := g.nameParts(n)
	return &ast.Name{Parts: parts, SeparatorTkns: seps}
}
