package phpgen

import (
	"fmt"

	"github.com/z7zmey/php-parser/pkg/ast"
	"github.com/z7zmey/php-parser/pkg/token"
)

// Wide lists: the counterpart of deep.go. Drawn lists have one to three (rarely nine) elements; whatever
// is allocated, grown or indexed per list (separator slices, item slices built by repeated append, block
// allocators for name parts or items, buffers of the visitors) is also a function of the length. A wide
// program has one list of n elements, n from ten to 1025 around powers of two, in one of the list
// positions of the grammar. Only syntax shared by both families is used.

// WideCounts are the list lengths drawn for wide programs.
var WideCounts = []int{10, 15, 16, 17, 31, 32, 33, 63, 64, 65, 127, 128, 129, 255, 256, 257, 511, 512, 513, 1023, 1024, 1025}

func (g *Gen) wideN() int {
	// two lists in three stay at or below 65 elements
	n := WideCounts[g.intn(10, "widecount")]
	if g.chance(1, 3, "wider") {
		n = WideCounts[10+g.intn(len(WideCounts)-10, "widecount2")]
	}
	if n >= 255 {
		g.feat("wide-list>=255")
	}
	return n
}

func (g *Gen) commas(n int) []*token.Token {
	var seps []*token.Token
	for i := 0; i < n-1; i++ {
		seps = append(seps, g.ch(','))
	}
	return seps
}

func (g *Gen) numbered(prefix string, i int) string { return fmt.Sprintf("%s%d", prefix, i) }

// WideStatement draws one statement that holds a list of n elements.
func (g *Gen) WideStatement() ast.Vertex {
	n := g.wideN()
	semi := g.ch(';')
	leaf := func(i int) ast.Vertex {
		if i%3 == 0 {
			return g.SmallInt()
		}
		return g.Var(g.numbered("$w", i))
	}
	kind := g.intn(16, "widekind")
	g.feat(fmt.Sprintf("wide-kind-%d", kind))
	switch kind {
	case 0: // array items
		a := &ast.ExprArray{OpenBracketTkn: g.ch('['), CloseBracketTkn: g.ch(']'), SeparatorTkns: g.commas(n)}
		for i := 0; i < n; i++ {
			a.Items = append(a.Items, &ast.ExprArrayItem{Val: leaf(i)})
		}
		return &ast.StmtExpression{Expr: &ast.ExprAssign{Var: g.simpleVar(), EqualTkn: g.ch('='), Expr: a}, SemiColonTkn: semi}
	case 1: // keyed items, long form
		a := &ast.ExprArray{ArrayTkn: g.kw(token.T_ARRAY, "array"), OpenBracketTkn: g.ch('('), CloseBracketTkn: g.ch(')'), SeparatorTkns: g.commas(n)}
		for i := 0; i < n; i++ {
			a.Items = append(a.Items, &ast.ExprArrayItem{Key: g.SmallInt(), DoubleArrowTkn: g.tok(token.T_DOUBLE_ARROW, "=>"), Val: leaf(i)})
		}
		return &ast.StmtExpression{Expr: &ast.ExprAssign{Var: g.simpleVar(), EqualTkn: g.ch('='), Expr: a}, SemiColonTkn: semi}
	case 2: // call arguments
		c := &ast.ExprFunctionCall{Function: g.PlainName(), OpenParenthesisTkn: g.ch('('), CloseParenthesisTkn: g.ch(')'), SeparatorTkns: g.commas(n)}
		for i := 0; i < n; i++ {
			c.Args = append(c.Args, &ast.Argument{Expr: leaf(i)})
		}
		return &ast.StmtExpression{Expr: c, SemiColonTkn: semi}
	case 3: // parameters
		f := &ast.StmtFunction{FunctionTkn: g.kw(token.T_FUNCTION, "function"), Name: g.Ident(g.plainName()), OpenParenthesisTkn: g.ch('('), CloseParenthesisTkn: g.ch(')'),
			OpenCurlyBracketTkn: g.ch('{'), CloseCurlyBracketTkn: g.ch('}'), SeparatorTkns: g.commas(n)}
		for i := 0; i < n; i++ {
			f.Params = append(f.Params, &ast.Parameter{Var: g.Var(g.numbered("$p", i))})
		}
		return f
	case 4: // name parts
		nm := &ast.Name{}
		for i := 0; i < n; i++ {
			s := g.plainName()
			nm.Parts = append(nm.Parts, &ast.NamePart{StringTkn: g.tok(token.T_STRING, s), Value: []byte(s)})
			if i < n-1 {
				nm.SeparatorTkns = append(nm.SeparatorTkns, g.tok(token.T_NS_SEPARATOR, "\\"))
			}
		}
		return &ast.StmtExpression{Expr: &ast.ExprNew{NewTkn: g.kw(token.T_NEW, "new"), Class: nm}, SemiColonTkn: semi}
	case 5: // cases
		sw := &ast.StmtSwitch{SwitchTkn: g.kw(token.T_SWITCH, "switch"), OpenParenthesisTkn: g.ch('('), Cond: g.simpleVar(), CloseParenthesisTkn: g.ch(')'), OpenCurlyBracketTkn: g.ch('{'), CloseCurlyBracketTkn: g.ch('}')}
		for i := 0; i < n; i++ {
			sw.Cases = append(sw.Cases, &ast.StmtCase{CaseTkn: g.kw(token.T_CASE, "case"), Cond: g.SmallInt(), CaseSeparatorTkn: g.ch(':'), Stmts: []ast.Vertex{&ast.StmtBreak{BreakTkn: g.kw(token.T_BREAK, "break"), SemiColonTkn: g.ch(';')}}})
		}
		return sw
	case 6: // elseif chain
		f := &ast.StmtIf{IfTkn: g.kw(token.T_IF, "if"), OpenParenthesisTkn: g.ch('('), Cond: g.simpleVar(), CloseParenthesisTkn: g.ch(')'), Stmt: &ast.StmtStmtList{OpenCurlyBracketTkn: g.ch('{'), CloseCurlyBracketTkn: g.ch('}')}}
		for i := 0; i < n; i++ {
			f.ElseIf = append(f.ElseIf, &ast.StmtElseIf{ElseIfTkn: g.kw(token.T_ELSEIF, "elseif"), OpenParenthesisTkn: g.ch('('), Cond: leaf(i), CloseParenthesisTkn: g.ch(')'), Stmt: &ast.StmtStmtList{OpenCurlyBracketTkn: g.ch('{'), CloseCurlyBracketTkn: g.ch('}')}})
		}
		return f
	case 7: // class members
		c := &ast.StmtClass{ClassTkn: g.kw(token.T_CLASS, "class"), Name: g.Ident(g.plainName()), OpenCurlyBracketTkn: g.ch('{'), CloseCurlyBracketTkn: g.ch('}')}
		for i := 0; i < n; i++ {
			c.Stmts = append(c.Stmts, &ast.StmtPropertyList{Modifiers: []ast.Vertex{g.modifier(token.T_PUBLIC, "public")}, Props: []ast.Vertex{&ast.StmtProperty{Var: g.Var(g.numbered("$m", i))}}, SemiColonTkn: g.ch(';')})
		}
		return c
	case 8: // constant list
		c := &ast.StmtConstList{ConstTkn: g.kw(token.T_CONST, "const"), SeparatorTkns: g.commas(n), SemiColonTkn: semi}
		for i := 0; i < n; i++ {
			c.Consts = append(c.Consts, &ast.StmtConstant{Name: g.Ident(g.numbered("K", i)), EqualTkn: g.ch('='), Expr: g.SmallInt()})
		}
		return c
	case 9: // echo list
		e := &ast.StmtEcho{EchoTkn: g.kw(token.T_ECHO, "echo"), SeparatorTkns: g.commas(n), SemiColonTkn: semi}
		for i := 0; i < n; i++ {
			e.Exprs = append(e.Exprs, leaf(i))
		}
		return e
	case 10: // isset / unset / global / static
		switch g.intn(4, "widevars") {
		case 0:
			x := &ast.ExprIsset{IssetTkn: g.kw(token.T_ISSET, "isset"), OpenParenthesisTkn: g.ch('('), CloseParenthesisTkn: g.ch(')'), SeparatorTkns: g.commas(n)}
			for i := 0; i < n; i++ {
				x.Vars = append(x.Vars, g.Var(g.numbered("$w", i)))
			}
			return &ast.StmtExpression{Expr: x, SemiColonTkn: semi}
		case 1:
			x := &ast.StmtUnset{UnsetTkn: g.kw(token.T_UNSET, "unset"), OpenParenthesisTkn: g.ch('('), CloseParenthesisTkn: g.ch(')'), SeparatorTkns: g.commas(n), SemiColonTkn: semi}
			for i := 0; i < n; i++ {
				x.Vars = append(x.Vars, g.Var(g.numbered("$w", i)))
			}
			return x
		case 2:
			x := &ast.StmtGlobal{GlobalTkn: g.kw(token.T_GLOBAL, "global"), SeparatorTkns: g.commas(n), SemiColonTkn: semi}
			for i := 0; i < n; i++ {
				x.Vars = append(x.Vars, g.Var(g.numbered("$w", i)))
			}
			return x
		}
		x := &ast.StmtStatic{StaticTkn: g.kw(token.T_STATIC, "static"), SeparatorTkns: g.commas(n), SemiColonTkn: semi}
		for i := 0; i < n; i++ {
			x.Vars = append(x.Vars, &ast.StmtStaticVar{Var: g.Var(g.numbered("$w", i))})
		}
		return x
	case 11: // left-deep concatenation: n operators, depth n
		var e ast.Vertex = leaf(1)
		for i := 0; i < n; i++ {
			e = &ast.ExprBinaryConcat{Left: e, OpTkn: g.ch('.'), Right: g.Var(g.numbered("$w", i))}
		}
		return &ast.StmtExpression{Expr: &ast.ExprAssign{Var: g.simpleVar(), EqualTkn: g.ch('='), Expr: e}, SemiColonTkn: semi}
	case 12: // list() targets
		l := &ast.ExprList{ListTkn: g.kw(token.T_LIST, "list"), OpenBracketTkn: g.ch('('), CloseBracketTkn: g.ch(')'), SeparatorTkns: g.commas(n)}
		for i := 0; i < n; i++ {
			l.Items = append(l.Items, &ast.ExprArrayItem{Val: g.Var(g.numbered("$w", i))})
		}
		return &ast.StmtExpression{Expr: &ast.ExprAssign{Var: l, EqualTkn: g.ch('='), Expr: g.simpleVar()}, SemiColonTkn: semi}
	case 13: // dimensions: $a[1][2]...[n]
		var e ast.Vertex = g.simpleVar()
		for i := 0; i < n; i++ {
			e = &ast.ExprArrayDimFetch{Var: e, OpenBracketTkn: g.ch('['), Dim: g.SmallInt(), CloseBracketTkn: g.ch(']')}
		}
		return &ast.StmtExpression{Expr: e, SemiColonTkn: semi}
	case 14: // property chain: $a->p0->p1...
		var e ast.Vertex = g.simpleVar()
		for i := 0; i < n; i++ {
			e = &ast.ExprPropertyFetch{Var: e, ObjectOperatorTkn: g.tok(token.T_OBJECT_OPERATOR, "->"), Prop: g.Ident(g.numbered("p", i))}
		}
		return &ast.StmtExpression{Expr: e, SemiColonTkn: semi}
	}
	// implements list
	c := &ast.StmtClass{ClassTkn: g.kw(token.T_CLASS, "class"), Name: g.Ident(g.plainName()), ImplementsTkn: g.kw(token.T_IMPLEMENTS, "implements"), ImplementsSeparatorTkns: g.commas(n), OpenCurlyBracketTkn: g.ch('{'), CloseCurlyBracketTkn: g.ch('}')}
	for i := 0; i < n; i++ {
		c.Implements = append(c.Implements, g.NameOf(g.numbered("I", i)))
	}
	return c
}
