package phpgen

import (
	"github.com/z7zmey/php-parser/pkg/ast"
	"github.com/z7zmey/php-parser/pkg/token"
)

// Expr draws an expression. Brackets are inserted exactly where the
// precedence table requires them to preserve the drawn grouping.
func (g *Gen) Expr() ast.Vertex {
	if g.inString > 0 {
		// inside string interpolation: small operands only (no nested string-like constructs)
		switch g.intn(4, "instring") {
		case 0:
			return g.SmallInt()
		case 1:
			return g.simpleVar()
		case 2:
			return &ast.ExprBinaryPlus{Left: g.simpleVar(), OpTkn: g.ch('+'), Right: g.SmallInt()}
		default:
			s := g.pick("instr", "'k'", "'a b'", "'0'")
			return &ast.ScalarString{StringTkn: g.tok(token.T_CONSTANT_ENCAPSED_STRING, s), Value: []byte(s)}
		}
	}
	g.depth++
	defer func() { g.depth-- }()
	if g.depth > g.O.MaxDepth {
		return g.atom()
	}
	switch g.intn(20, "exprkind") {
	case 0, 1, 2, 3:
		return g.binary()
	case 4:
		return g.assign()
	case 5:
		return g.ternary()
	case 6, 7:
		return g.prefix()
	case 8:
		return g.lowPrefix()
	case 9, 10:
		return g.Variable(3, false)
	case 11:
		return g.callLike()
	default:
		return g.atom()
	}
}

// ExprNoLow draws an expression that is not a bare low-precedence prefix form
// (used where the brief's constructs want a plain operand).
func (g *Gen) binary() ast.Vertex {
	for {
		op := binOps[g.intn(len(binOps), "binop")]
		if op.php7 && (!g.O.PHP7 || g.O.Common) {
			continue
		}
		if g.intn(4, "instanceof") == 0 && g.intn(3, "io2") == 0 {
			l := g.Expr()
			n := &ast.ExprInstanceOf{InstanceOfTkn: g.kw(token.T_INSTANCEOF, "instanceof")}
			n.Expr = g.operand(l, pInstance, aNone, left)
			switch g.intn(4, "ioclass") {
			case 0:
				n.Class = g.simpleVar()
			case 1:
				if !(!g.O.PHP7 && g.O.NoPHP5NewChain) && !g.O.Common {
					g.feat("instanceof-chain")
					n.Class = g.newVariable()
					break
				}
				n.Class = g.simpleVar()
			default:
				n.Class = g.classRef(false)
			}
			g.feat("op:instanceof")
			return n
		}
		l, r := g.Expr(), g.Expr()
		lex := op.lex
		if op.word {
			lex = g.spell(lex)
		}
		n := op.mk(g.operand(l, op.prec, op.assoc, left), g.tok(op.id, lex), g.operand(r, op.prec, op.assoc, right))
		g.feat("op:" + op.name)
		g.notePair(l, op.name, "L")
		g.notePair(r, op.name, "R")
		return n
	}
}

// notePair records an (inner operator, outer operator, side) adjacency for the
// distribution report.
func (g *Gen) notePair(child ast.Vertex, outer, s string) {
	if exprInfo(child).shape == sAtom {
		return
	}
	g.Feat["pair:"+typeName(child)+"/"+outer+"/"+s]++
}

func (g *Gen) assign() ast.Vertex {
	for {
		op := assignOps[g.intn(len(assignOps), "assignop")]
		if op.php7 && (!g.O.PHP7 || g.O.Common) {
			continue
		}
		var target ast.Vertex
		if op.lex == "=" && g.chance(1, 4, "destructure") {
			target = g.listTarget(0)
		} else {
			target = g.Variable(2, true)
		}
		if op.lex == "=" && g.chance(1, 6, "byref") {
			if _, isList := target.(*ast.ExprList); !isList {
				g.feat("op:=&")
				var src ast.Vertex
				if g.chance(1, 5, "refnew") && !g.O.PHP7 {
					src = g.newExpr()
				} else {
					src = g.Variable(2, false)
				}
				return &ast.ExprAssignReference{Var: target, EqualTkn: g.ch('='), AmpersandTkn: g.ch('&'), Expr: src}
			}
		}
		e := g.Expr()
		g.feat("op:" + op.lex)
		g.notePair(e, op.lex, "R")
		// the right operand of an assignment is delimited on the left by the operator and open on the right
		return op.mk(target, g.tok(op.id, op.lex), g.operand(e, pAssign, aRight, right))
	}
}

func (g *Gen) ternary() ast.Vertex {
	c, f := g.Expr(), g.Expr()
	n := &ast.ExprTernary{QuestionTkn: g.ch('?'), ColonTkn: g.ch(':')}
	n.Cond = g.operand(c, pTernary, aLeft, left)
	if g.chance(2, 3, "longternary") {
		n.IfTrue = g.Expr()
		g.feat("op:?:long")
	} else {
		g.feat("op:?:short")
		g.setGap(n.ColonTkn, GapFree)
	}
	n.IfFalse = g.operand(f, pTernary, aLeft, right)
	g.notePair(c, "?:", "L")
	g.notePair(f, "?:", "R")
	return n
}

type castOp struct {
	id    token.ID
	words []string
	mk    func(t *token.Token, e ast.Vertex) ast.Vertex
}

var castOps = []castOp{
	{token.T_INT_CAST, []string{"int", "integer"}, func(t *token.Token, e ast.Vertex) ast.Vertex { return &ast.ExprCastInt{CastTkn: t, Expr: e} }},
	{token.T_BOOL_CAST, []string{"bool", "boolean"}, func(t *token.Token, e ast.Vertex) ast.Vertex { return &ast.ExprCastBool{CastTkn: t, Expr: e} }},
	{token.T_DOUBLE_CAST, []string{"float", "double", "real"}, func(t *token.Token, e ast.Vertex) ast.Vertex {
		return &ast.ExprCastDouble{CastTkn: t, Expr: e}
	}},
	{token.T_STRING_CAST, []string{"string", "binary"}, func(t *token.Token, e ast.Vertex) ast.Vertex {
		return &ast.ExprCastString{CastTkn: t, Expr: e}
	}},
	{token.T_ARRAY_CAST, []string{"array"}, func(t *token.Token, e ast.Vertex) ast.Vertex { return &ast.ExprCastArray{CastTkn: t, Expr: e} }},
	{token.T_OBJECT_CAST, []string{"object"}, func(t *token.Token, e ast.Vertex) ast.Vertex {
		return &ast.ExprCastObject{CastTkn: t, Expr: e}
	}},
	{token.T_UNSET_CAST, []string{"unset"}, func(t *token.Token, e ast.Vertex) ast.Vertex { return &ast.ExprCastUnset{CastTkn: t, Expr: e} }},
}

// prefix draws a tightly binding prefix operator.
func (g *Gen) prefix() ast.Vertex {
	switch g.intn(9, "prefixkind") {
	case 0:
		g.feat("op:!")
		e := g.Expr()
		g.notePair(e, "!", "R")
		return &ast.ExprBooleanNot{ExclamationTkn: g.ch('!'), Expr: g.prefixOperand(e, pNot)}
	case 1:
		g.feat("op:~")
		e := g.Expr()
		g.notePair(e, "~", "R")
		return &ast.ExprBitwiseNot{TildaTkn: g.ch('~'), Expr: g.prefixOperand(e, pUnary)}
	case 2:
		g.feat("op:u-")
		e := g.Expr()
		g.notePair(e, "u-", "R")
		return &ast.ExprUnaryMinus{MinusTkn: g.ch('-'), Expr: g.prefixOperand(e, pUnary)}
	case 3:
		g.feat("op:u+")
		e := g.Expr()
		g.notePair(e, "u+", "R")
		return &ast.ExprUnaryPlus{PlusTkn: g.ch('+'), Expr: g.prefixOperand(e, pUnary)}
	case 4:
		g.feat("op:@")
		e := g.Expr()
		g.notePair(e, "@", "R")
		return &ast.ExprErrorSuppress{AtTkn: g.ch('@'), Expr: g.prefixOperand(e, pUnary)}
	case 5:
		c := castOps[g.intn(len(castOps), "cast")]
		w := g.spell(c.words[g.intn(len(c.words), "castword")])
		sp := func() string { return g.pick("castsp", "", "", " ", "\t", "  ") }
		lex := "(" + sp() + w + sp() + ")"
		g.feat("op:cast")
		e := g.Expr()
		g.notePair(e, "cast", "R")
		return c.mk(g.tok(c.id, lex), g.prefixOperand(e, pUnary))
	case 6:
		g.feat("op:++pre")
		if g.flip("incdec") {
			return &ast.ExprPreInc{IncTkn: g.tok(token.T_INC, "++"), Var: g.Variable(2, true)}
		}
		return &ast.ExprPreDec{DecTkn: g.tok(token.T_DEC, "--"), Var: g.Variable(2, true)}
	case 7:
		g.feat("op:post++")
		if g.flip("incdec") {
			return &ast.ExprPostInc{Var: g.Variable(2, true), IncTkn: g.tok(token.T_INC, "++")}
		}
		return &ast.ExprPostDec{Var: g.Variable(2, true), DecTkn: g.tok(token.T_DEC, "--")}
	default:
		g.feat("op:clone")
		e := g.Expr()
		return &ast.ExprClone{CloneTkn: g.kw(token.T_CLONE, "clone"), Expr: g.prefixOperand(e, pClone)}
	}
}

// lowPrefix draws print / include / yield / arrow function: prefix forms that
// take everything to their right.
func (g *Gen) lowPrefix() ast.Vertex {
	switch g.intn(7, "lowprefix") {
	case 0:
		g.feat("op:print")
		e := g.Expr()
		g.notePair(e, "print", "R")
		return &ast.ExprPrint{PrintTkn: g.kw(token.T_PRINT, "print"), Expr: g.prefixOperand(e, pPrint)}
	case 1:
		g.feat("op:include")
		e := g.prefixOperand(g.Expr(), pInclude)
		switch g.intn(4, "inc") {
		case 0:
			return &ast.ExprInclude{IncludeTkn: g.kw(token.T_INCLUDE, "include"), Expr: e}
		case 1:
			return &ast.ExprIncludeOnce{IncludeOnceTkn: g.kw(token.T_INCLUDE_ONCE, "include_once"), Expr: e}
		case 2:
			return &ast.ExprRequire{RequireTkn: g.kw(token.T_REQUIRE, "require"), Expr: e}
		default:
			return &ast.ExprRequireOnce{RequireOnceTkn: g.kw(token.T_REQUIRE_ONCE, "require_once"), Expr: e}
		}
	case 2, 3:
		if g.inFunc == 0 {
			return g.atom()
		}
		y := g.yield()
		if !g.O.PHP7 || g.O.Common {
			// PHP 5: yield inside an expression must be parenthesised
			return g.Brackets(y)
		}
		return y
	case 4:
		if g.O.PHP7 && !g.O.Common {
			return g.arrowFn()
		}
		return g.closure()
	default:
		return g.closure()
	}
}

// yield draws a yield / yield from expression (callers decide on brackets).
func (g *Gen) yield() ast.Vertex {
	switch g.intn(5, "yieldkind") {
	case 0:
		g.feat("yield-bare")
		return &ast.ExprYield{YieldTkn: g.kw(token.T_YIELD, "yield")}
	case 1:
		if g.O.PHP7 && !g.O.Common {
			g.feat("yield-from")
			lex := g.spell("yield") + g.pick("yfws", " ", "  ", "\t", "\n", "\r\n") + g.spell("from")
			return &ast.ExprYieldFrom{YieldFromTkn: g.tok(token.T_YIELD_FROM, lex), Expr: g.prefixOperand(g.Expr(), pYieldFr)}
		}
		fallthrough
	case 2:
		g.feat("yield-key-value")
		k, v := g.Expr(), g.Expr()
		// key: left of "=>", must bind tighter than yield's "=>"; value: open on the right
		return &ast.ExprYield{YieldTkn: g.kw(token.T_YIELD, "yield"), Key: g.operand(k, pArrowFn+1, aNone, left), DoubleArrowTkn: g.tok(token.T_DOUBLE_ARROW, "=>"), Val: g.prefixOperand(v, pYield)}
	default:
		g.feat("yield-value")
		return &ast.ExprYield{YieldTkn: g.kw(token.T_YIELD, "yield"), Val: g.prefixOperand(g.Expr(), pYield)}
	}
}

// atom draws an expression that needs no brackets anywhere.
func (g *Gen) atom() ast.Vertex {
	switch g.intn(22, "atom") {
	case 0, 1, 2:
		return g.simpleVar()
	case 3, 4:
		return g.Number()
	case 5:
		return g.SingleQuoted()
	case 6:
		if g.depth > g.O.MaxDepth+1 {
			return g.SingleQuoted()
		}
		return g.DoubleQuoted()
	case 7:
		if g.depth > g.O.MaxDepth+1 {
			return g.SmallInt()
		}
		return g.Heredoc()
	case 8:
		return g.MagicConst()
	case 9:
		g.feat("const-fetch")
		if g.chance(1, 3, "truefalse") {
			w := g.spell(g.pick("tfn", "true", "false", "null"))
			return &ast.ExprConstFetch{Const: g.NameOf(w)}
		}
		return &ast.ExprConstFetch{Const: g.Name()}
	case 10:
		g.feat("class-const-fetch")
		c := g.Ident(g.plainName())
		cls := g.classRef(true)
		if _, isVar := cls.(*ast.ExprVariable); !isVar && g.chance(1, 4, "::class") {
			c = g.identTok(g.kw(token.T_CLASS, "class"))
		}
		return &ast.ExprClassConstFetch{Class: cls, DoubleColonTkn: g.tok(token.T_PAAMAYIM_NEKUDOTAYIM, "::"), Const: c}
	case 11:
		if g.depth > g.O.MaxDepth+1 {
			return g.SmallInt()
		}
		return g.Array()
	case 12:
		g.feat("isset")
		n := &ast.ExprIsset{IssetTkn: g.kw(token.T_ISSET, "isset"), OpenParenthesisTkn: g.ch('('), CloseParenthesisTkn: g.ch(')')}
		k := g.count(1, 3, "issetn")
		for i := 0; i < k; i++ {
			n.Vars = append(n.Vars, g.Variable(2, false))
			if i < k-1 {
				n.SeparatorTkns = append(n.SeparatorTkns, g.ch(','))
			}
		}
		if g.O.PHP7 && !g.O.Common && g.chance(1, 5, "issettrail") {
			n.SeparatorTkns = append(n.SeparatorTkns, g.ch(','))
			g.feat("trailing-comma")
		}
		return n
	case 13:
		g.feat("empty")
		var e ast.Vertex
		if g.O.PHP7 || g.flip("emptyexpr") {
			e = g.Expr()
		} else {
			e = g.Variable(2, false)
		}
		return &ast.ExprEmpty{EmptyTkn: g.kw(token.T_EMPTY, "empty"), OpenParenthesisTkn: g.ch('('), Expr: e, CloseParenthesisTkn: g.ch(')')}
	case 14:
		g.feat("eval")
		return &ast.ExprEval{EvalTkn: g.kw(token.T_EVAL, "eval"), OpenParenthesisTkn: g.ch('('), Expr: g.Expr(), CloseParenthesisTkn: g.ch(')')}
	case 15:
		g.feat("exit")
		n := &ast.ExprExit{ExitTkn: g.kw(token.T_EXIT, g.pick("exitword", "exit", "die"))}
		if g.flip("exitparens") {
			n.OpenParenthesisTkn, n.CloseParenthesisTkn = g.ch('('), g.ch(')')
			if g.flip("exitarg") {
				n.Expr = g.Expr()
			}
		}
		return n
	case 16:
		return g.newExpr()
	case 17:
		if g.depth > g.O.MaxDepth+1 {
			return g.SmallInt()
		}
		return g.ShellExec()
	case 18:
		g.feat("brackets-redundant")
		return g.Brackets(g.Expr())
	case 19:
		if g.depth > g.O.MaxDepth {
			return g.simpleVar()
		}
		return g.closure()
	default:
		return g.callLike()
	}
}

// classRef draws a class reference: a name, static (where allowed) or, under
// PHP 7, a variable.
func (g *Gen) classRef(allowStatic bool) ast.Vertex {
	switch g.intn(6, "classref") {
	case 0:
		if allowStatic {
			return g.identTok(g.kw(token.T_STATIC, "static"))
		}
	case 1:
		return g.NameOf(g.spell(g.pick("selfparent", "self", "parent")))
	case 2:
		if allowStatic {
			return g.simpleVar()
		}
	}
	return g.Name()
}

// Args draws an argument list (items and separators).
func (g *Gen) Args() ([]ast.Vertex, []*token.Token) {
	var args []ast.Vertex
	var seps []*token.Token
	n := g.count(0, 3, "nargs")
	for i := 0; i < n; i++ {
		a := &ast.Argument{Expr: g.Expr()}
		if i == n-1 && g.chance(1, 5, "spread") {
			a.VariadicTkn = g.tok(token.T_ELLIPSIS, "...")
			g.feat("arg-spread")
		}
		args = append(args, a)
		if i < n-1 {
			seps = append(seps, g.ch(','))
		}
	}
	if n > 0 && g.O.PHP7 && !g.O.Common && g.chance(1, 6, "argtrail") {
		seps = append(seps, g.ch(','))
		g.feat("trailing-comma")
	}
	return args, seps
}

type kwSpec struct {
	id token.ID
	s  string
}

// reservedNonModifiers transcribes PHP 7's reserved_non_modifiers list (zend_language_parser.y): the
// keywords that may be used as class-constant, method and trait-alias names. "class" is left out
// (Foo::class is a different construct and "const class" is a compile error).
var reservedNonModifiers = []kwSpec{
	{token.T_INCLUDE, "include"}, {token.T_INCLUDE_ONCE, "include_once"}, {token.T_EVAL, "eval"}, {token.T_REQUIRE, "require"},
	{token.T_REQUIRE_ONCE, "require_once"}, {token.T_LOGICAL_OR, "or"}, {token.T_LOGICAL_XOR, "xor"}, {token.T_LOGICAL_AND, "and"},
	{token.T_INSTANCEOF, "instanceof"}, {token.T_NEW, "new"}, {token.T_CLONE, "clone"}, {token.T_EXIT, "exit"}, {token.T_EXIT, "die"},
	{token.T_IF, "if"}, {token.T_ELSEIF, "elseif"}, {token.T_ELSE, "else"}, {token.T_ENDIF, "endif"}, {token.T_ECHO, "echo"},
	{token.T_DO, "do"}, {token.T_WHILE, "while"}, {token.T_ENDWHILE, "endwhile"}, {token.T_FOR, "for"}, {token.T_ENDFOR, "endfor"},
	{token.T_FOREACH, "foreach"}, {token.T_ENDFOREACH, "endforeach"}, {token.T_DECLARE, "declare"}, {token.T_ENDDECLARE, "enddeclare"},
	{token.T_AS, "as"}, {token.T_TRY, "try"}, {token.T_CATCH, "catch"}, {token.T_FINALLY, "finally"}, {token.T_THROW, "throw"},
	{token.T_USE, "use"}, {token.T_INSTEADOF, "insteadof"}, {token.T_GLOBAL, "global"}, {token.T_VAR, "var"}, {token.T_UNSET, "unset"},
	{token.T_ISSET, "isset"}, {token.T_EMPTY, "empty"}, {token.T_CONTINUE, "continue"}, {token.T_GOTO, "goto"},
	{token.T_FUNCTION, "function"}, {token.T_CONST, "const"}, {token.T_RETURN, "return"}, {token.T_PRINT, "print"},
	{token.T_YIELD, "yield"}, {token.T_LIST, "list"}, {token.T_SWITCH, "switch"}, {token.T_ENDSWITCH, "endswitch"},
	{token.T_CASE, "case"}, {token.T_DEFAULT, "default"}, {token.T_BREAK, "break"}, {token.T_ARRAY, "array"},
	{token.T_CALLABLE, "callable"}, {token.T_EXTENDS, "extends"}, {token.T_IMPLEMENTS, "implements"}, {token.T_NAMESPACE, "namespace"},
	{token.T_TRAIT, "trait"}, {token.T_INTERFACE, "interface"},
	{token.T_CLASS_C, "__CLASS__"}, {token.T_TRAIT_C, "__TRAIT__"}, {token.T_FUNC_C, "__FUNCTION__"}, {token.T_METHOD_C, "__METHOD__"},
	{token.T_LINE, "__LINE__"}, {token.T_FILE, "__FILE__"}, {token.T_DIR, "__DIR__"}, {token.T_NS_C, "__NAMESPACE__"}, {token.T_FN, "fn"},
}

// semiReserved = reserved_non_modifiers + the member modifiers.
var semiReserved = append(append([]kwSpec{}, reservedNonModifiers...),
	kwSpec{token.T_STATIC, "static"}, kwSpec{token.T_ABSTRACT, "abstract"}, kwSpec{token.T_FINAL, "final"},
	kwSpec{token.T_PRIVATE, "private"}, kwSpec{token.T_PROTECTED, "protected"}, kwSpec{token.T_PUBLIC, "public"})

// kwIdent draws an identifier spelled as a (semi-)reserved word (PHP 7 only), in any letter case.
func (g *Gen) kwIdent(modifiersToo bool) *ast.Identifier {
	pool := reservedNonModifiers
	if modifiersToo {
		pool = semiReserved
	}
	k := pool[g.intn(len(pool), "kw")]
	g.feat("semi-reserved-member")
	g.feat("semi-reserved:" + k.s)
	return g.identTok(g.kw(k.id, k.s))
}

// memberName draws the name after "::" (identifier, possibly a semi-reserved word under PHP 7).
func (g *Gen) memberName() *ast.Identifier {
	if g.O.PHP7 && !g.O.Common && g.chance(1, 8, "semireserved") {
		return g.kwIdent(true)
	}
	return g.Ident(g.plainName())
}

// propName draws the name after "->": in that lexer state every word is a plain string.
func (g *Gen) propName() *ast.Identifier {
	if g.chance(1, 8, "kwprop") {
		g.feat("keyword-as-property")
		id := g.Ident(g.pick("kwprop", "class", "list", "for", "new", "array", "default", "function", "static"))
		// only whitespace keeps the lexer in its "property name" state; after a comment the word is a keyword again
		g.setGap(id.IdentifierTkn, GapWS)
		return id
	}
	return g.Ident(g.plainName())
}

// indirectVar draws $name behind min or more further '$' ("$$a", "$$$a", ...): one ExprVariable per
// '$', the outermost first. One time in four the depth is raised by one to three levels (both grammars
// build the nest with a loop over the '$' tokens; one level cannot tell the loop's direction).
func (g *Gen) indirectVar(min int) *ast.ExprVariable {
	levels := min
	if g.chance(1, 4, "indirectlevels") {
		levels += g.rng(1, 3, "moreindirect")
	}
	v := g.simpleVar()
	for i := 0; i < levels; i++ {
		v = &ast.ExprVariable{DollarTkn: g.ch('$'), Name: v}
	}
	if levels >= 2 {
		g.feat("indirect-variable-depth>=2")
	}
	return v
}

// Variable draws a variable expression with up to n suffixes. If writable the
// chain does not end in a call.
func (g *Gen) Variable(n int, writable bool) ast.Vertex {
	g.depth++
	defer func() { g.depth-- }()
	var v ast.Vertex
	indirect := false // base whose grouping with a following [..] differs between PHP 5 and 7
	switch g.intn(10, "varbase") {
	case 0:
		g.feat("var-var")
		v = g.indirectVar(1)
		indirect = true
	case 1:
		g.feat("var-curly")
		v = &ast.ExprVariable{DollarTkn: g.ch('$'), OpenCurlyBracketTkn: g.ch('{'), Name: g.Expr(), CloseCurlyBracketTkn: g.ch('}')}
	case 2:
		g.feat("static-prop")
		v = &ast.ExprStaticPropertyFetch{Class: g.classRef(true), DoubleColonTkn: g.tok(token.T_PAAMAYIM_NEKUDOTAYIM, "::"), Prop: g.indirectVar(0)}
		indirect = true
	default:
		v = g.simpleVar()
	}
	k := g.rng(0, n, "suffixes")
	if g.depth > g.O.MaxDepth {
		k = 0
	}
	for i := 0; i < k; i++ {
		last := i == k-1
		old := v
		v = g.suffix(v, indirect, writable && last, true)
		if v != old {
			indirect = false
			if pf, ok := v.(*ast.ExprPropertyFetch); ok {
				if _, isVar := pf.Prop.(*ast.ExprVariable); isVar && pf.OpenCurlyBracketTkn == nil {
					indirect = true // $a->$b followed by [..]
				}
			}
		}
	}
	return v
}

// variableChain is Variable starting from a plain $name (string interpolation "{$...}").
func (g *Gen) variableChain(n int) ast.Vertex {
	var v ast.Vertex = g.simpleVar()
	k := g.rng(0, n, "suffixes")
	for i := 0; i < k; i++ {
		v = g.suffix(v, false, false, true)
	}
	return v
}

// suffix appends one dereference / member / call suffix to v.
func (g *Gen) suffix(v ast.Vertex, indirect, noCall, varOnly bool) ast.Vertex {
	php5ish := !g.O.PHP7 || g.O.Common
	// bases whose grouping with a following [..] differs between PHP 5 and PHP 7
	switch b := v.(type) {
	case *ast.ExprPropertyFetch:
		if _, isVar := b.Prop.(*ast.ExprVariable); isVar && b.OpenCurlyBracketTkn == nil {
			indirect = true
		}
	case *ast.ExprStaticPropertyFetch:
		indirect = true
	case *ast.ExprVariable:
		if b.DollarTkn != nil && b.OpenCurlyBracketTkn == nil {
			indirect = true
		}
	}
	choice := g.intn(8, "suffix")
	if noCall && (choice == 3 || choice == 5 || choice == 7) {
		choice = 2
	}
	if varOnly && choice == 6 {
		choice = 0
	}
	// PHP 5 chains: after a call only ->, [ ] are possible; "::" needs a name or simple variable on the left
	_, afterCall := v.(*ast.ExprFunctionCall)
	if _, ok := v.(*ast.ExprMethodCall); ok {
		afterCall = true
	}
	if _, ok := v.(*ast.ExprStaticCall); ok {
		afterCall = true
	}
	switch choice {
	case 0, 1:
		if indirect && php5ish {
			g.Excl["php5-indirect-dim"]++
			return v
		}
		g.feat("dim-fetch")
		n := &ast.ExprArrayDimFetch{Var: v, OpenBracketTkn: g.ch('['), Dim: g.Expr(), CloseBracketTkn: g.ch(']')}
		if g.chance(1, 8, "curlydim") && !afterCall && !(php5ish && (containsCall(v) || !rootedAtVariable(v))) {
			n.OpenBracketTkn, n.CloseBracketTkn = g.ch('{'), g.ch('}')
			g.feat("dim-fetch-curly")
		}
		return n
	case 2:
		g.feat("prop-fetch")
		n := &ast.ExprPropertyFetch{Var: v, ObjectOperatorTkn: g.tok(token.T_OBJECT_OPERATOR, "->")}
		g.memberSlot(&n.OpenCurlyBracketTkn, &n.Prop, &n.CloseCurlyBracketTkn)
		return n
	case 3:
		g.feat("method-call")
		n := &ast.ExprMethodCall{Var: v, ObjectOperatorTkn: g.tok(token.T_OBJECT_OPERATOR, "->"), OpenParenthesisTkn: g.ch('('), CloseParenthesisTkn: g.ch(')')}
		g.memberSlot(&n.OpenCurlyBracketTkn, &n.Method, &n.CloseCurlyBracketTkn)
		n.Args, n.SeparatorTkns = g.Args()
		return n
	case 4:
		if php5ish {
			if _, simple := v.(*ast.ExprVariable); !simple || indirect {
				return v
			}
			if ev := v.(*ast.ExprVariable); ev.DollarTkn != nil {
				return v
			}
		}
		g.feat("static-prop-on-expr")
		if php5ish {
			g.Excl["php5-static-on-var"]++
			return v
		}
		return &ast.ExprStaticPropertyFetch{Class: v, DoubleColonTkn: g.tok(token.T_PAAMAYIM_NEKUDOTAYIM, "::"), Prop: g.simpleVar()}
	case 5:
		if php5ish {
			return v
		}
		g.feat("static-call-on-expr")
		n := &ast.ExprStaticCall{Class: v, DoubleColonTkn: g.tok(token.T_PAAMAYIM_NEKUDOTAYIM, "::"), Call: g.memberName(), OpenParenthesisTkn: g.ch('('), CloseParenthesisTkn: g.ch(')')}
		n.Args, n.SeparatorTkns = g.Args()
		return n
	case 6:
		if php5ish {
			return v
		}
		g.feat("class-const-on-expr")
		return &ast.ExprClassConstFetch{Class: v, DoubleColonTkn: g.tok(token.T_PAAMAYIM_NEKUDOTAYIM, "::"), Const: g.memberName()}
	default:
		if php5ish {
			_, simple := v.(*ast.ExprVariable)
			// PHP 5 also calls an element of a plain chain: $f[0](), $a->b[0]($x), $a->b->c['k'][1]()
			// (object_dim_list followed by method_or_not); the tree is the PHP 7 one
			_, dim := v.(*ast.ExprArrayDimFetch)
			if !simple && !(dim && plainChain(v)) {
				return v
			}
			if dim {
				g.feat("php5-call-on-chain-element")
			}
		}
		if g.inString > 0 {
			return v // "{$" must be followed by the variable itself
		}
		g.feat("call-on-expr")
		switch v.(type) {
		case *ast.ExprPropertyFetch, *ast.ExprStaticPropertyFetch, *ast.ExprClassConstFetch:
			// $a->b() is a method call; calling the value of a property needs brackets
			v = g.Brackets(v)
		}
		n := &ast.ExprFunctionCall{Function: v, OpenParenthesisTkn: g.ch('('), CloseParenthesisTkn: g.ch(')')}
		n.Args, n.SeparatorTkns = g.Args()
		return n
	}
}

// plainChain reports whether v is $name followed only by [..] / {..} dimensions and ->name / ->{expr}
// property links: no call, no variable-variable, no ->$name, no static member (those group differently
// in PHP 5 or cannot be followed by a call there).
func plainChain(v ast.Vertex) bool {
	for v != nil {
		switch n := v.(type) {
		case *ast.ExprVariable:
			_, id := n.Name.(*ast.Identifier)
			return n.DollarTkn == nil && id
		case *ast.ExprArrayDimFetch:
			v = n.Var
		case *ast.ExprPropertyFetch:
			if _, isVar := n.Prop.(*ast.ExprVariable); isVar && n.OpenCurlyBracketTkn == nil {
				return false
			}
			v = n.Var
		default:
			return false
		}
	}
	return false
}

// rootedAtVariable reports whether a chain starts at a plain variable.
func rootedAtVariable(v ast.Vertex) bool {
	for v != nil {
		switch n := v.(type) {
		case *ast.ExprVariable:
			return true
		case *ast.ExprArrayDimFetch:
			v = n.Var
		case *ast.ExprPropertyFetch:
			v = n.Var
		case *ast.ExprMethodCall:
			v = n.Var
		default:
			return false
		}
	}
	return false
}

// containsCall reports whether a chain contains a call.
func containsCall(v ast.Vertex) bool {
	for v != nil {
		switch n := v.(type) {
		case *ast.ExprFunctionCall, *ast.ExprMethodCall, *ast.ExprStaticCall:
			return true
		case *ast.ExprArrayDimFetch:
			v = n.Var
		case *ast.ExprPropertyFetch:
			v = n.Var
		default:
			return false
		}
	}
	return false
}

// memberSlot fills the name slot after "->": identifier, simple variable or {expr}.
func (g *Gen) memberSlot(open **token.Token, name *ast.Vertex, close **token.Token) {
	switch g.intn(6, "member") {
	case 0:
		g.feat("member-variable")
		*name = g.indirectVar(0)
	case 1:
		g.feat("member-curly")
		*open, *name, *close = g.ch('{'), g.Expr(), g.ch('}')
	default:
		*name = g.propName()
	}
}

// callLike draws a function call, static call or a call chain.
func (g *Gen) callLike() ast.Vertex {
	g.depth++
	defer func() { g.depth-- }()
	var v ast.Vertex
	switch g.intn(6, "callkind") {
	case 4:
		// (new Foo)->bar, (new Foo)[0]->baz(): member access on an instantiation (PHP >= 5.4)
		g.feat("new-in-brackets-chain")
		v = g.Brackets(g.newExpr())
		if _, anon := v.(*ast.ExprBrackets).Expr.(*ast.ExprNew).Class.(*ast.StmtClass); anon {
			return v
		}
		k := g.rng(1, 3, "newchain")
		for i := 0; i < k; i++ {
			v = g.suffix(v, false, false, false)
			if _, isConst := v.(*ast.ExprClassConstFetch); isConst {
				break
			}
		}
		return v
	case 5:
		if g.O.PHP7 && !g.O.Common {
			// PHP 7: any bracketed expression can be dereferenced
			g.feat("brackets-chain")
			v = g.Brackets(g.Expr())
			k := g.rng(1, 2, "bracketchain")
			for i := 0; i < k; i++ {
				v = g.suffix(v, false, false, false)
				if _, isConst := v.(*ast.ExprClassConstFetch); isConst {
					break
				}
			}
			return v
		}
		fallthrough
	case 0:
		g.feat("static-call")
		n := &ast.ExprStaticCall{Class: g.classRef(true), DoubleColonTkn: g.tok(token.T_PAAMAYIM_NEKUDOTAYIM, "::"), OpenParenthesisTkn: g.ch('('), CloseParenthesisTkn: g.ch(')')}
		switch g.intn(5, "staticcallname") {
		case 0:
			n.Call = g.indirectVar(0)
		case 1:
			g.feat("static-call-curly")
			n.OpenCurlyBracketTkn, n.Call, n.CloseCurlyBracketTkn = g.ch('{'), g.Expr(), g.ch('}')
		default:
			n.Call = g.memberName()
		}
		n.Args, n.SeparatorTkns = g.Args()
		v = n
	default:
		g.feat("function-call")
		n := &ast.ExprFunctionCall{Function: g.Name(), OpenParenthesisTkn: g.ch('('), CloseParenthesisTkn: g.ch(')')}
		n.Args, n.SeparatorTkns = g.Args()
		v = n
	}
	k := g.rng(0, 2, "callsuffixes")
	if g.depth > g.O.MaxDepth {
		k = 0
	}
	for i := 0; i < k; i++ {
		v = g.suffix(v, false, false, false)
		if _, isConst := v.(*ast.ExprClassConstFetch); isConst {
			break // a constant can only be followed by [ ]
		}
	}
	return v
}

// newExpr draws a "new" expression.
func (g *Gen) newExpr() ast.Vertex {
	g.feat("new")
	n := &ast.ExprNew{NewTkn: g.kw(token.T_NEW, "new")}
	switch g.intn(6, "newclass") {
	case 0:
		n.Class = g.identTok(g.kw(token.T_STATIC, "static"))
	case 1:
		n.Class = g.simpleVar()
	case 2:
		if !g.O.PHP7 && g.O.NoPHP5NewChain || g.O.Common {
			g.Excl["php5-new-chain"]++
			n.Class = g.Name()
			break
		}
		g.feat("new-chain")
		n.Class = g.newVariable()
	case 3:
		if g.O.PHP7 && !g.O.Common && g.depth <= g.O.MaxDepth {
			g.feat("anonymous-class")
			n.Class = g.classDecl(true)
			return n
		}
		n.Class = g.Name()
	default:
		n.Class = g.Name()
	}
	if g.flip("newargs") {
		n.OpenParenthesisTkn, n.CloseParenthesisTkn = g.ch('('), g.ch(')')
		n.Args, n.SeparatorTkns = g.Args()
	}
	return n
}

// newVariable draws a class reference that is a variable chain without calls
// ("new $a->b[0]", "$x instanceof $a->{$b}", "new A::$b"): PHP's new_variable.
func (g *Gen) newVariable() ast.Vertex {
	var v ast.Vertex = g.simpleVar()
	if g.O.PHP7 && !g.O.Common && g.chance(1, 5, "newvarstatic") {
		v = &ast.ExprStaticPropertyFetch{Class: g.Name(), DoubleColonTkn: g.tok(token.T_PAAMAYIM_NEKUDOTAYIM, "::"), Prop: g.simpleVar()}
	}
	k := g.rng(1, 2, "newvarchain")
	for i := 0; i < k; i++ {
		switch g.intn(4, "newvarsuffix") {
		case 0:
			if !g.O.PHP7 || g.O.Common {
				// PHP 5 groups dims in a class reference differently; keep to property fetches
				n := &ast.ExprPropertyFetch{Var: v, ObjectOperatorTkn: g.tok(token.T_OBJECT_OPERATOR, "->"), Prop: g.propName()}
				v = n
				continue
			}
			v = &ast.ExprArrayDimFetch{Var: v, OpenBracketTkn: g.ch('['), Dim: g.Expr(), CloseBracketTkn: g.ch(']')}
		default:
			n := &ast.ExprPropertyFetch{Var: v, ObjectOperatorTkn: g.tok(token.T_OBJECT_OPERATOR, "->")}
			if g.O.PHP7 && !g.O.Common {
				g.memberSlot(&n.OpenCurlyBracketTkn, &n.Prop, &n.CloseCurlyBracketTkn)
			} else {
				n.Prop = g.propName()
			}
			v = n
		}
	}
	return v
}

// Array draws an array literal in long or short syntax.
func (g *Gen) Array() ast.Vertex {
	g.feat("array")
	n := &ast.ExprArray{}
	if g.flip("shortarray") {
		n.OpenBracketTkn, n.CloseBracketTkn = g.ch('['), g.ch(']')
	} else {
		n.ArrayTkn = g.kw(token.T_ARRAY, "array")
		n.OpenBracketTkn, n.CloseBracketTkn = g.ch('('), g.ch(')')
	}
	k := g.count(0, 3, "items")
	for i := 0; i < k; i++ {
		it := &ast.ExprArrayItem{}
		switch g.intn(6, "item") {
		case 0:
			it.Key, it.DoubleArrowTkn, it.Val = g.arrayKey(), g.tok(token.T_DOUBLE_ARROW, "=>"), g.Expr()
		case 1:
			it.AmpersandTkn, it.Val = g.ch('&'), g.Variable(2, true)
			g.feat("array-item-ref")
		case 2:
			if g.O.PHP7 && !g.O.Common {
				it.EllipsisTkn, it.Val = g.tok(token.T_ELLIPSIS, "..."), g.Expr()
				g.feat("array-spread")
				break
			}
			it.Val = g.Expr()
		case 3:
			it.Key, it.DoubleArrowTkn, it.AmpersandTkn, it.Val = g.arrayKey(), g.tok(token.T_DOUBLE_ARROW, "=>"), g.ch('&'), g.Variable(2, true)
		default:
			it.Val = g.Expr()
		}
		n.Items = append(n.Items, it)
		if i < k-1 {
			n.SeparatorTkns = append(n.SeparatorTkns, g.ch(','))
		}
	}
	g.arrayTrailingComma(n)
	return n
}

// arrayKey draws the key of an array item. It is followed by "=>", which an unbracketed yield on the
// key's right edge would take as its own ("yield $k => $v"), so such a key is written in brackets.
func (g *Gen) arrayKey() ast.Vertex {
	k := g.Expr()
	for n := k; n != nil; n = rightOperand(n) {
		if _, ok := n.(*ast.ExprYield); ok {
			g.feat("brackets-required")
			return g.Brackets(k)
		}
	}
	return k
}

// arrayTrailingComma adds (1 time in 4) a trailing comma to a non-empty array literal. Both grammars
// of this parser represent it as a final item without key, value or position.
func (g *Gen) arrayTrailingComma(n *ast.ExprArray) {
	if len(n.Items) == 0 || !g.chance(1, 4, "arraytrail") {
		return
	}
	g.feat("array-trailing-comma")
	n.SeparatorTkns = append(n.SeparatorTkns, g.ch(','))
	n.Items = append(n.Items, &ast.ExprArrayItem{})
}

// listTarget draws a destructuring target: list(...) or, under PHP 7, [...].
func (g *Gen) listTarget(level int) *ast.ExprList {
	inForeach := g.listInForeach
	g.listInForeach = false // applies to this list only, not to lists inside its targets' expressions
	g.feat("list")
	n := &ast.ExprList{}
	short := g.O.PHP7 && !g.O.Common && g.flip("shortlist")
	if level == 0 {
		g.listShort = short
		defer func() { g.listShort = false }()
	} else {
		short = g.listShort // nested targets use the syntax of the outermost one at every depth
	}
	if short {
		n.OpenBracketTkn, n.CloseBracketTkn = g.ch('['), g.ch(']')
		g.feat("list-short")
	} else {
		n.ListTkn = g.kw(token.T_LIST, "list")
		n.OpenBracketTkn, n.CloseBracketTkn = g.ch('('), g.ch(')')
	}
	if !g.O.PHP7 && !g.O.Common && (level > 0 || inForeach) && g.chance(1, 8, "emptylist") {
		// PHP 5 allows a list() without any target (PHP 7 made it a compile error). As a foreach
		// target and as a nested list this parser gives it no items; in a plain assignment it keeps
		// one empty slot, so that position is left alone
		g.feat("php5-empty-list")
		return n
	}
	k := g.count(1, 3, "listitems")
	keyed := g.O.PHP7 && !g.O.Common && g.chance(1, 4, "keyedlist")
	if keyed {
		g.feat("list-keyed")
	}
	for i := 0; i < k; i++ {
		it := &ast.ExprArrayItem{}
		switch {
		case !keyed && i < k-1 && g.chance(1, 5, "hole"):
			// a skipped element; the short form has it too since PHP 7.1 ("[, $b] = $x"), also in a
			// nested pattern, which the grammar first reduces as an array literal
			g.feat("list-hole")
			if short {
				g.feat("list-short-hole")
			}
		case level < 3 && g.chance(1, 5-level, "nestedlist"):
			if level >= 1 {
				g.feat("list-nested-depth>=2")
			}
			if keyed {
				it.Key, it.DoubleArrowTkn = g.SingleQuoted(), g.tok(token.T_DOUBLE_ARROW, "=>")
			}
			l := g.listTarget(level + 1)
			it.Val = l
			if short {
				// nested targets use the syntax of the outer one; PHP's grammar (and this
				// parser) reads an inner [...] as an array expression whose items are the targets
				g.feat("list-short-nested")
				it.Val = &ast.ExprArray{OpenBracketTkn: g.ch('['), Items: l.Items, SeparatorTkns: l.SeparatorTkns, CloseBracketTkn: g.ch(']')}
			}
		default:
			if keyed {
				it.Key, it.DoubleArrowTkn = g.SingleQuoted(), g.tok(token.T_DOUBLE_ARROW, "=>")
			}
			it.Val = g.Variable(1, true)
		}
		n.Items = append(n.Items, it)
		if i < k-1 {
			n.SeparatorTkns = append(n.SeparatorTkns, g.ch(','))
		}
	}
	// at least one real target
	has := false
	for _, it := range n.Items {
		if it.(*ast.ExprArrayItem).Val != nil {
			has = true
		}
	}
	if !has {
		n.Items[len(n.Items)-1].(*ast.ExprArrayItem).Val = g.simpleVar()
	}
	return n
}

// ConstExpr draws a constant expression (defaults, const, property
// initialisers, static): scalars, constants, class constants, arrays and —
// since PHP 5.6 — every operator on them incl. both ternary forms. PHP 5 has
// a separate grammar (static_operation) for these, so they are generated with
// the same precedence-driven bracketing as ordinary expressions.
func (g *Gen) ConstExpr() ast.Vertex {
	g.depth++
	defer func() { g.depth-- }()
	if g.depth <= g.O.MaxDepth+1 {
		switch g.intn(10, "constop") {
		case 0, 1:
			for {
				op := binOps[g.intn(len(binOps), "binop")]
				if op.php7 && (!g.O.PHP7 || g.O.Common) {
					continue
				}
				l, r := g.ConstExpr(), g.ConstExpr()
				lex := op.lex
				if op.word {
					lex = g.spell(lex)
				}
				g.feat("constexpr-binary")
				lo := g.operand(l, op.prec, op.assoc, left)
				if !g.O.PHP7 || g.O.Common {
					// PHP 5's constant-expression grammar gives unary + and - the precedence of
					// the binary operators (no %prec), so "+a * b" is "+(a * b)" there: keep
					// such operands in brackets, the grouping is not shared with PHP 7
					switch lo.(type) {
					case *ast.ExprUnaryPlus, *ast.ExprUnaryMinus:
						if op.prec > pAdditive {
							g.Excl["php5-constexpr-unary-sign"]++
							lo = g.Brackets(lo)
						}
					}
				}
				return op.mk(lo, g.tok(op.id, lex), g.operand(r, op.prec, op.assoc, right))
			}
		case 2:
			c, f := g.ConstExpr(), g.ConstExpr()
			n := &ast.ExprTernary{QuestionTkn: g.ch('?'), ColonTkn: g.ch(':')}
			n.Cond = g.operand(c, pTernary, aLeft, left)
			if g.flip("longternary") {
				n.IfTrue = g.ConstExpr()
			}
			n.IfFalse = g.operand(f, pTernary, aLeft, right)
			g.feat("constexpr-ternary")
			return n
		case 3:
			e := g.ConstExpr()
			g.feat("constexpr-unary")
			switch g.intn(4, "constunary") {
			// (cases 2 and 3 are the unary signs)
			case 0:
				return &ast.ExprBooleanNot{ExclamationTkn: g.ch('!'), Expr: g.prefixOperand(e, pNot)}
			case 1:
				return &ast.ExprBitwiseNot{TildaTkn: g.ch('~'), Expr: g.prefixOperand(e, pUnary)}
			case 2, 3:
				var u ast.Vertex
				if g.flip("sign") {
					u = &ast.ExprUnaryPlus{PlusTkn: g.ch('+'), Expr: g.prefixOperand(e, pUnary)}
				} else {
					u = &ast.ExprUnaryMinus{MinusTkn: g.ch('-'), Expr: g.prefixOperand(e, pUnary)}
				}
				if !g.O.PHP7 || g.O.Common {
					// PHP 5's constant-expression grammar gives unary + and - the precedence of the
					// binary operators (static_operation has no %prec): "+a * b" is "+(a * b)" there
					// and "a * +b * c" is "a * +(b * c)". That grouping is PHP 5's own and is not
					// shared with PHP 7, so the sign always travels in brackets
					g.Excl["php5-constexpr-unary-sign"]++
					return g.Brackets(u)
				}
				return u
			}
		case 4:
			g.feat("constexpr-brackets")
			return g.Brackets(g.ConstExpr())
		}
	}
	switch g.intn(9, "constexpr") {
	case 0:
		return g.SingleQuoted()
	case 1:
		return &ast.ExprConstFetch{Const: g.NameOf(g.spell(g.pick("tfn", "true", "false", "null")))}
	case 2:
		return &ast.ExprConstFetch{Const: g.Name()}
	case 3:
		return &ast.ExprClassConstFetch{Class: g.Name(), DoubleColonTkn: g.tok(token.T_PAAMAYIM_NEKUDOTAYIM, "::"), Const: g.Ident(g.plainName())}
	case 4:
		n := &ast.ExprArray{OpenBracketTkn: g.ch('['), CloseBracketTkn: g.ch(']')}
		if g.flip("longconstarray") {
			n.ArrayTkn = g.kw(token.T_ARRAY, "array")
			n.OpenBracketTkn, n.CloseBracketTkn = g.ch('('), g.ch(')')
		}
		if g.depth <= g.O.MaxDepth {
			k := g.count(0, 2, "constitems")
			for i := 0; i < k; i++ {
				it := &ast.ExprArrayItem{Val: g.ConstExpr()}
				if g.flip("constkey") {
					it.Key, it.DoubleArrowTkn = g.SingleQuoted(), g.tok(token.T_DOUBLE_ARROW, "=>")
				}
				n.Items = append(n.Items, it)
				if i < k-1 {
					n.SeparatorTkns = append(n.SeparatorTkns, g.ch(','))
				}
			}
			g.arrayTrailingComma(n)
		}
		return n
	case 5:
		return g.MagicConst()
	case 6:
		s := g.pick("constdq", "\"plain\"", "\"a\\n\"", "\"\"")
		return &ast.ScalarString{StringTkn: g.tok(token.T_CONSTANT_ENCAPSED_STRING, s), Value: []byte(s)}
	default:
		return g.Number()
	}
}
