package phpgen

import (
	"github.com/z7zmey/php-parser/pkg/ast"
	"github.com/z7zmey/php-parser/pkg/token"
)

// Deep nests. Drawn programs nest three or four levels; everything that recurses over the tree (parser
// stacks, position builder, traverser, printer state, formatter indentation, dumper indentation, resolver
// scopes) is also a function of the depth. A deep program wraps one leaf statement in d statement
// wrappers and one leaf expression in d expression wrappers, d from small numbers and the neighbourhood
// of powers of two up to 257 (and 300). Only syntax shared by PHP 5 and PHP 7 is used, so the programs
// serve every check, C10 included.

// DeepDepths are the nesting depths drawn for deep programs.
var DeepDepths = []int{2, 3, 4, 5, 7, 8, 9, 15, 16, 17, 31, 32, 33, 63, 64, 65, 127, 128, 129, 255, 256, 257, 300}

func (g *Gen) smallCond() ast.Vertex {
	switch g.intn(3, "deepcond") {
	case 0:
		return g.SmallInt()
	case 1:
		return &ast.ExprBinarySmaller{Left: g.simpleVar(), OpTkn: g.ch('<'), Right: g.SmallInt()}
	}
	return g.simpleVar()
}

func (g *Gen) blockOf(s ast.Vertex) *ast.StmtStmtList {
	return &ast.StmtStmtList{OpenCurlyBracketTkn: g.ch('{'), Stmts: []ast.Vertex{s}, CloseCurlyBracketTkn: g.ch('}')}
}

// wrapStmt puts s inside one enclosing statement. kind < 0 draws the wrapper.
func (g *Gen) wrapStmt(s ast.Vertex, kind int) ast.Vertex {
	if kind < 0 {
		kind = g.intn(16, "deepwrap")
	}
	par := func() (*token.Token, ast.Vertex, *token.Token) { return g.ch('('), g.smallCond(), g.ch(')') }
	switch kind {
	case 0:
		n := &ast.StmtIf{IfTkn: g.kw(token.T_IF, "if"), Stmt: g.blockOf(s)}
		n.OpenParenthesisTkn, n.Cond, n.CloseParenthesisTkn = par()
		return n
	case 1:
		// unbraced body; an alternative-syntax statement or a declaration cannot stand here unguarded
		n := &ast.StmtIf{IfTkn: g.kw(token.T_IF, "if"), Stmt: s}
		if !unbracedOK(s) {
			n.Stmt = g.blockOf(s)
		}
		n.OpenParenthesisTkn, n.Cond, n.CloseParenthesisTkn = par()
		return n
	case 2:
		n := &ast.StmtIf{IfTkn: g.kw(token.T_IF, "if"), Stmt: &ast.StmtStmtList{OpenCurlyBracketTkn: g.ch('{'), CloseCurlyBracketTkn: g.ch('}')}}
		n.OpenParenthesisTkn, n.Cond, n.CloseParenthesisTkn = par()
		n.Else = &ast.StmtElse{ElseTkn: g.kw(token.T_ELSE, "else"), Stmt: g.blockOf(s)}
		return n
	case 3:
		n := &ast.StmtIf{IfTkn: g.kw(token.T_IF, "if"), Stmt: &ast.StmtStmtList{OpenCurlyBracketTkn: g.ch('{'), CloseCurlyBracketTkn: g.ch('}')}}
		n.OpenParenthesisTkn, n.Cond, n.CloseParenthesisTkn = par()
		e := &ast.StmtElseIf{ElseIfTkn: g.kw(token.T_ELSEIF, "elseif"), Stmt: g.blockOf(s)}
		e.OpenParenthesisTkn, e.Cond, e.CloseParenthesisTkn = par()
		n.ElseIf = []ast.Vertex{e}
		return n
	case 4:
		n := &ast.StmtIf{IfTkn: g.kw(token.T_IF, "if"), ColonTkn: g.ch(':'), Stmt: &ast.StmtStmtList{Stmts: []ast.Vertex{g.guardTrailingIf(s)}}, EndIfTkn: g.kw(token.T_ENDIF, "endif"), SemiColonTkn: g.ch(';')}
		n.OpenParenthesisTkn, n.Cond, n.CloseParenthesisTkn = par()
		return n
	case 5:
		n := &ast.StmtWhile{WhileTkn: g.kw(token.T_WHILE, "while"), Stmt: g.blockOf(s)}
		n.OpenParenthesisTkn, n.Cond, n.CloseParenthesisTkn = par()
		return n
	case 6:
		n := &ast.StmtDo{DoTkn: g.kw(token.T_DO, "do"), Stmt: g.blockOf(s), WhileTkn: g.kw(token.T_WHILE, "while"), SemiColonTkn: g.ch(';')}
		n.OpenParenthesisTkn, n.Cond, n.CloseParenthesisTkn = par()
		return n
	case 7:
		return &ast.StmtFor{ForTkn: g.kw(token.T_FOR, "for"), OpenParenthesisTkn: g.ch('('), InitSemiColonTkn: g.ch(';'), CondSemiColonTkn: g.ch(';'), CloseParenthesisTkn: g.ch(')'), Stmt: g.blockOf(s)}
	case 8:
		return &ast.StmtForeach{ForeachTkn: g.kw(token.T_FOREACH, "foreach"), OpenParenthesisTkn: g.ch('('), Expr: g.simpleVar(), AsTkn: g.kw(token.T_AS, "as"), Var: g.simpleVar(), CloseParenthesisTkn: g.ch(')'), Stmt: g.blockOf(s)}
	case 9:
		n := &ast.StmtSwitch{SwitchTkn: g.kw(token.T_SWITCH, "switch"), OpenCurlyBracketTkn: g.ch('{'), CloseCurlyBracketTkn: g.ch('}')}
		n.OpenParenthesisTkn, n.Cond, n.CloseParenthesisTkn = par()
		n.Cases = []ast.Vertex{&ast.StmtCase{CaseTkn: g.kw(token.T_CASE, "case"), Cond: g.SmallInt(), CaseSeparatorTkn: g.ch(':'), Stmts: []ast.Vertex{s}}}
		return n
	case 10:
		n := &ast.StmtTry{TryTkn: g.kw(token.T_TRY, "try"), OpenCurlyBracketTkn: g.ch('{'), Stmts: []ast.Vertex{s}, CloseCurlyBracketTkn: g.ch('}')}
		n.Catches = []ast.Vertex{&ast.StmtCatch{CatchTkn: g.kw(token.T_CATCH, "catch"), OpenParenthesisTkn: g.ch('('), Types: []ast.Vertex{g.PlainName()}, Var: g.simpleVar(), CloseParenthesisTkn: g.ch(')'), OpenCurlyBracketTkn: g.ch('{'), CloseCurlyBracketTkn: g.ch('}')}}
		return n
	case 11:
		n := &ast.StmtTry{TryTkn: g.kw(token.T_TRY, "try"), OpenCurlyBracketTkn: g.ch('{'), CloseCurlyBracketTkn: g.ch('}')}
		n.Finally = &ast.StmtFinally{FinallyTkn: g.kw(token.T_FINALLY, "finally"), OpenCurlyBracketTkn: g.ch('{'), Stmts: []ast.Vertex{s}, CloseCurlyBracketTkn: g.ch('}')}
		return n
	case 12:
		return &ast.StmtFunction{FunctionTkn: g.kw(token.T_FUNCTION, "function"), Name: g.Ident(g.plainName()), OpenParenthesisTkn: g.ch('('), CloseParenthesisTkn: g.ch(')'), OpenCurlyBracketTkn: g.ch('{'), Stmts: []ast.Vertex{s}, CloseCurlyBracketTkn: g.ch('}')}
	case 13:
		c := &ast.ExprClosure{FunctionTkn: g.kw(token.T_FUNCTION, "function"), OpenParenthesisTkn: g.ch('('), CloseParenthesisTkn: g.ch(')'), OpenCurlyBracketTkn: g.ch('{'), Stmts: []ast.Vertex{s}, CloseCurlyBracketTkn: g.ch('}')}
		return &ast.StmtExpression{Expr: &ast.ExprAssign{Var: g.simpleVar(), EqualTkn: g.ch('='), Expr: c}, SemiColonTkn: g.ch(';')}
	case 14:
		if g.deepClass {
			break // PHP rejects a class declared inside a method of another class at compile time
		}
		g.deepClass = true
		m := &ast.StmtClassMethod{FunctionTkn: g.kw(token.T_FUNCTION, "function"), Name: g.Ident(g.plainName()), OpenParenthesisTkn: g.ch('('), CloseParenthesisTkn: g.ch(')'),
			Stmt: &ast.StmtStmtList{OpenCurlyBracketTkn: g.ch('{'), Stmts: []ast.Vertex{s}, CloseCurlyBracketTkn: g.ch('}')}}
		return &ast.StmtClass{ClassTkn: g.kw(token.T_CLASS, "class"), Name: g.Ident(g.plainName()), OpenCurlyBracketTkn: g.ch('{'), Stmts: []ast.Vertex{m}, CloseCurlyBracketTkn: g.ch('}')}
	}
	return g.blockOf(s)
}

// unbracedOK: s may be the unbraced body of a control structure (no declaration; an alternative-syntax
// or open if would interact with what follows, so they are braced too).
func unbracedOK(s ast.Vertex) bool {
	switch v := s.(type) {
	case *ast.StmtFunction, *ast.StmtClass:
		return false
	case *ast.StmtIf:
		return v.ColonTkn == nil && v.Else == nil && len(v.ElseIf) == 0
	}
	return true
}

// guardTrailingIf braces a statement that ends in an open if (inside an alternative-syntax body nothing
// follows here, but the guard keeps the derivation unambiguous for every reader of the text).
func (g *Gen) guardTrailingIf(s ast.Vertex) ast.Vertex {
	if openIf(s) {
		return g.blockOf(s)
	}
	return s
}

// wrapExpr puts e inside one enclosing expression whose grouping needs no precedence reasoning.
func (g *Gen) wrapExpr(e ast.Vertex) ast.Vertex {
	switch g.intn(9, "deepexpr") {
	case 0:
		return g.Brackets(e)
	case 1:
		return &ast.ExprArray{OpenBracketTkn: g.ch('['), Items: []ast.Vertex{&ast.ExprArrayItem{Val: e}}, CloseBracketTkn: g.ch(']')}
	case 2:
		return &ast.ExprArray{ArrayTkn: g.kw(token.T_ARRAY, "array"), OpenBracketTkn: g.ch('('), Items: []ast.Vertex{&ast.ExprArrayItem{Key: g.SmallInt(), DoubleArrowTkn: g.tok(token.T_DOUBLE_ARROW, "=>"), Val: e}}, CloseBracketTkn: g.ch(')')}
	case 3:
		return &ast.ExprFunctionCall{Function: g.PlainName(), OpenParenthesisTkn: g.ch('('), Args: []ast.Vertex{&ast.Argument{Expr: e}}, CloseParenthesisTkn: g.ch(')')}
	case 4:
		return &ast.ExprArrayDimFetch{Var: g.simpleVar(), OpenBracketTkn: g.ch('['), Dim: e, CloseBracketTkn: g.ch(']')}
	case 5:
		return &ast.ExprBooleanNot{ExclamationTkn: g.ch('!'), Expr: g.Brackets(e)}
	case 6:
		return &ast.ExprTernary{Cond: g.Brackets(e), QuestionTkn: g.ch('?'), IfTrue: g.SmallInt(), ColonTkn: g.ch(':'), IfFalse: g.SmallInt()}
	case 7:
		return &ast.ExprIsset{IssetTkn: g.kw(token.T_ISSET, "isset"), OpenParenthesisTkn: g.ch('('), Vars: []ast.Vertex{&ast.ExprArrayDimFetch{Var: g.simpleVar(), OpenBracketTkn: g.ch('['), Dim: e, CloseBracketTkn: g.ch(']')}}, CloseParenthesisTkn: g.ch(')')}
	}
	return &ast.ExprMethodCall{Var: g.simpleVar(), ObjectOperatorTkn: g.tok(token.T_OBJECT_OPERATOR, "->"), Method: g.Ident(g.plainName()), OpenParenthesisTkn: g.ch('('), Args: []ast.Vertex{&ast.Argument{Expr: e}}, CloseParenthesisTkn: g.ch(')')}
}

// DeepStatements draws one to two deep nests (see the comment at the top of this file).
func (g *Gen) DeepStatements() []ast.Vertex {
	var out []ast.Vertex
	for i, k := 0, g.rng(1, 2, "ndeep"); i < k; i++ {
		// two nests in three stay at or below 33 levels: a 300-level nest has the tokens of a large program
		d := DeepDepths[g.intn(13, "deepdepth")]
		if g.chance(1, 3, "deeper") {
			d = DeepDepths[13+g.intn(len(DeepDepths)-13, "deepdepth2")]
		}
		if d >= 127 {
			g.feat("deep-nest>=127")
		}
		if g.flip("deepisexpr") {
			g.feat("deep-expression")
			var e ast.Vertex = g.simpleVar()
			for j := 0; j < d; j++ {
				e = g.wrapExpr(e)
			}
			out = append(out, &ast.StmtExpression{Expr: &ast.ExprAssign{Var: g.simpleVar(), EqualTkn: g.ch('='), Expr: e}, SemiColonTkn: g.ch(';')})
			continue
		}
		g.feat("deep-statement")
		same := -1
		if g.flip("deepsamekind") {
			same = g.intn(16, "deepwrap")
		}
		var s ast.Vertex = &ast.StmtExpression{Expr: g.simpleVar(), SemiColonTkn: g.ch(';')}
		g.deepClass = false
		for j := 0; j < d; j++ {
			s = g.wrapStmt(s, same)
		}
		out = append(out, s)
	}
	return out
}
