package phpgen

import (
	"strings"

	"github.com/z7zmey/php-parser/pkg/ast"
	"github.com/z7zmey/php-parser/pkg/token"
)

// Number draws an integer or float literal. Integer literals that overflow
// int64 are floats in PHP (T_DNUMBER).
func (g *Gen) Number() ast.Vertex {
	type lit struct {
		s     string
		float bool
	}
	ints := []lit{
		{"0", false}, {"1", false}, {"7", false}, {"42", false}, {"123456", false}, {"007", false}, {"0777", false},
		{"0x1F", false}, {"0xdeadBEEF", false}, {"0b101", false}, {"0b0", false},
		{"9223372036854775807", false}, {"9223372036854775808", true}, {"0x7FFFFFFFFFFFFFFF", false}, {"0xFFFFFFFFFFFFFFFFFF", true},
		{"01777777777777777777777", true}, {"0b1111111111111111111111111111111111111111111111111111111111111111", true},
	}
	floats := []lit{
		{"1.5", true}, {".5", true}, {"6.", true}, {"0.0", true}, {"1e3", true}, {"1E3", true}, {"1.5e-3", true}, {"2e+10", true}, {".5E1", true}, {"7.e2", true},
	}
	var l lit
	if g.O.PHP7 && !g.O.Common && g.chance(1, 8, "numsep") {
		// PHP 7.4 numeric literal separator
		seps := []lit{{"1_000", false}, {"0x1F_FF", false}, {"0b1_0", false}, {"0_7", false}, {"1_0.5", true}, {"1_0e1_0", true}, {"9_223_372_036_854_775_808", true}}
		l = seps[g.intn(len(seps), "sepnum")]
		g.feat("numeric-separator")
		if l.float {
			return &ast.ScalarDnumber{NumberTkn: g.tok(token.T_DNUMBER, l.s), Value: []byte(l.s)}
		}
		return &ast.ScalarLnumber{NumberTkn: g.tok(token.T_LNUMBER, l.s), Value: []byte(l.s)}
	}
	switch g.intn(5, "numkind") {
	case 0, 1, 2:
		l = ints[g.intn(len(ints), "int")]
	default:
		l = floats[g.intn(len(floats), "float")]
	}
	if l.float {
		g.feat("float-literal")
		return &ast.ScalarDnumber{NumberTkn: g.tok(token.T_DNUMBER, l.s), Value: []byte(l.s)}
	}
	g.feat("int-literal")
	return &ast.ScalarLnumber{NumberTkn: g.tok(token.T_LNUMBER, l.s), Value: []byte(l.s)}
}

// SmallInt is a small decimal integer literal.
func (g *Gen) SmallInt() *ast.ScalarLnumber {
	s := g.pick("smallint", "0", "1", "2", "3", "10", "255")
	return &ast.ScalarLnumber{NumberTkn: g.tok(token.T_LNUMBER, s), Value: []byte(s)}
}

var magicConsts = []struct {
	id token.ID
	s  string
}{
	{token.T_LINE, "__LINE__"}, {token.T_FILE, "__FILE__"}, {token.T_DIR, "__DIR__"}, {token.T_FUNC_C, "__FUNCTION__"},
	{token.T_CLASS_C, "__CLASS__"}, {token.T_TRAIT_C, "__TRAIT__"}, {token.T_METHOD_C, "__METHOD__"}, {token.T_NS_C, "__NAMESPACE__"},
}

// MagicConst draws a magic constant.
func (g *Gen) MagicConst() ast.Vertex {
	m := magicConsts[g.intn(len(magicConsts), "magic")]
	t := g.kw(m.id, m.s)
	return &ast.ScalarMagicConstant{MagicConstTkn: t, Value: t.Value}
}

// --- string bodies -------------------------------------------------------

var textWords = []string{"foo", "bar", "hello world", "x", " ", "  ", "a=1", "100%", "it is", "<b>", "</b>", "#", "//", "/*", "*/", "?", "?>", "<?", "<?php ", "@", "1 + 2", "e", "ok.", ",", ";", ":", "(", ")", "[", "]", "}", "-", "->", "=>", "&amp;", "\xc3\xa9t\xc3\xa9", "\xff\xfe"}

// bodyOpts describes the string-like construct a body is generated for.
type bodyOpts struct {
	quote   byte // closing delimiter that must be escaped: '"', '`', or 0 for heredoc
	heredoc bool
	indent  string // mandatory indentation after every newline (flexible heredoc)
	label   string // heredoc closing label
}

// textAtom draws one literal-text atom that never starts an interpolation and
// never ends the construct. first reports whether the atom would be the first
// after a simple interpolation (then it must not extend it).
func (g *Gen) textAtom(o bodyOpts) string {
	switch g.intn(16, "atom") {
	case 0, 1, 2, 3, 4:
		w := textWords[g.intn(len(textWords), "word")]
		if o.heredoc {
			// a line that starts with the closing label would end the heredoc; words are
			// lower-case or punctuation, labels are upper-case
		}
		return w
	case 5:
		return "\\" + g.pick("esc", "n", "t", "\\", "$", "{", "0", "x41", "u{1F600}", "'", "e", " ")
	case 6:
		if o.quote != 0 {
			return "\\" + string(o.quote)
		}
		return "\\\""
	case 7:
		// dollar that starts nothing
		g.feat("string-lone-dollar")
		return "$" + g.pick("afterdollar", " ", "1", ".", "$ ", "-", "(", ")", ",", "\\\\", "9x")
	case 8:
		// brace that starts nothing
		g.feat("string-lone-brace")
		return "{" + g.pick("afterbrace", " ", "a", "}", "{ ", "1", "\\$")
	case 9:
		g.feat("string-newline")
		if o.heredoc && o.label != "EOT" && o.label != "" && g.chance(1, 6, "eotline") {
			// a body line that starts with another heredoc's usual label is plain text
			g.feat("heredoc-foreign-label-line")
			return g.pick("nl", "\n", "\r\n") + o.indent + g.pick("foreignlabel", "EOT", "EOT;", "EOT\n", "EOT_", "EOT ", "EOD;")
		}
		if o.heredoc && o.label != "" && g.chance(1, 3, "labelprefix") {
			// a body line that starts with the closing label followed by a name character is not the terminator
			g.feat("heredoc-label-prefixed-line")
			return g.pick("nl", "\n", "\r\n") + o.indent + o.label + g.pick("labelsuffix", "1 ", "x", "_ ", "2;", "é")
		}
		return g.pick("nl", "\n", "\r\n", "\r") + o.indent
	case 10:
		// backslash runs directly before a dollar/brace: odd run = literal, even run + real variable handled by the caller
		g.feat("string-backslash-run")
		return g.pick("bsrun", "\\$a", "\\\\\\$a", "\\{$a}", "\\\\\\{$", "\\\\", "\\\\\\\\")
	case 11:
		if o.quote == '"' || o.quote == 0 {
			return "'"
		}
		return "\""
	case 12:
		if o.quote == '`' || o.quote == 0 {
			return "\""
		}
		return "`"
	case 13:
		return g.pick("digits", "0", "12", "3.14")
	default:
		return g.pick("filler", "a", "b ", " c", "_", "é", "Z")
	}
}

// fixText repairs the few adjacency problems atoms can create: "$" directly
// before "{" or a name start, "{" directly before "$", a CR directly before LF
// drawn as separate atoms is fine. It also guarantees that the text does not
// end in an unescaped backslash or in "$"/"{" that the following interpolation
// or delimiter would join.
func fixText(s string, o bodyOpts, followedByInterp bool) string {
	var b strings.Builder
	bs := 0 // length of the current backslash run
	for i := 0; i < len(s); i++ {
		c := s[i]
		escaped := bs%2 == 1
		var next byte
		if i+1 < len(s) {
			next = s[i+1]
		}
		if !escaped {
			if c == '$' && (next == '{' || isNameStart(next)) {
				b.WriteString("\\")
			}
			if c == '{' && next == '$' {
				b.WriteString("\\")
			}
			if o.quote != 0 && c == o.quote {
				b.WriteString("\\")
			}
		}
		b.WriteByte(c)
		if c == '\\' {
			bs++
		} else {
			bs = 0
		}
	}
	out := b.String()
	// trailing odd backslash run would escape what follows
	n := 0
	for i := len(out) - 1; i >= 0 && out[i] == '\\'; i-- {
		n++
	}
	if n%2 == 1 {
		out += "\\"
	}
	if followedByInterp && len(out) > 0 {
		last := out[len(out)-1]
		// "$" + "{$a}" would read "${"; "{" + "$a" would read "{$"; "$" + "$a" is fine
		if (last == '$' || last == '{') && !endsEscaped(out) {
			out += " "
		}
	}
	return out
}

func endsEscaped(s string) bool {
	n := 0
	for i := len(s) - 2; i >= 0 && s[i] == '\\'; i-- {
		n++
	}
	return n%2 == 1
}

func isNameStart(c byte) bool {
	return (c >= 'a' && c <= 'z') || (c >= 'A' && c <= 'Z') || c == '_' || c >= 0x80
}

func isNameChar(c byte) bool { return isNameStart(c) || (c >= '0' && c <= '9') }

// text draws a literal text run of 1..n atoms.
func (g *Gen) text(o bodyOpts, n int, followedByInterp bool) string {
	k := g.rng(1, n, "atoms")
	var b strings.Builder
	for i := 0; i < k; i++ {
		b.WriteString(g.textAtom(o))
	}
	s := fixText(b.String(), o, followedByInterp)
	if o.heredoc {
		s = guardLabelLines(s, o.label)
	}
	return s
}

// guardLabelLines makes sure no line of a heredoc body starts (after optional
// blanks) with the closing label followed by something other than a name
// character: that would terminate the heredoc (under one rule or the other).
func guardLabelLines(s, label string) string {
	if label == "" {
		return s
	}
	var b strings.Builder
	atLineStart := true
	for i := 0; i < len(s); i++ {
		c := s[i]
		if atLineStart && c != ' ' && c != '\t' {
			if strings.HasPrefix(s[i:], label) {
				rest := s[i+len(label):]
				if rest == "" || !isNameChar(rest[0]) {
					b.WriteByte('.')
				}
			}
			atLineStart = false
		}
		b.WriteByte(c)
		if c == '\n' || c == '\r' {
			atLineStart = true
		}
	}
	return b.String()
}

func (g *Gen) strPart(s string) *ast.ScalarEncapsedStringPart {
	return &ast.ScalarEncapsedStringPart{EncapsedStrTkn: g.tok(token.T_ENCAPSED_AND_WHITESPACE, s), Value: []byte(s)}
}

// interp draws one interpolation. It returns the node and whether it is a
// "simple syntax" form (whose following text must not extend it).
func (g *Gen) interp() (ast.Vertex, int) {
	g.inString++
	defer func() { g.inString-- }()
	noGap := func(ts ...*token.Token) {
		for _, t := range ts {
			g.setGap(t, GapNone)
		}
	}
	v := g.Var(g.varName())
	vt := v.Name.(*ast.Identifier).IdentifierTkn
	noGap(vt)
	max := 8
	switch g.intn(max, "interp") {
	case 0, 1:
		g.feat("interp-var")
		return v, 1
	case 2:
		g.feat("interp-dim")
		ob, cb := g.ch('['), g.ch(']')
		noGap(ob, cb)
		var dim ast.Vertex
		switch g.intn(6, "dim") {
		case 0:
			s := g.pick("dimnum", "0", "7", "12", "10", "9223372036854775807")
			t := g.tok(token.T_NUM_STRING, s)
			noGap(t)
			dim = &ast.ScalarLnumber{NumberTkn: t, Value: []byte(s)}
		case 1:
			// PHP (ST_VAR_OFFSET): only "0" and decimal numbers without a leading zero are integer
			// keys; every other digit string is a string key
			s := g.pick("dimstr", "0x1F", "0b11", "99999999999999999999", "01", "00", "007", "9223372036854775808", "08")
			if len(s) > 1 && s[0] == '0' && s[1] >= '0' && s[1] <= '9' {
				g.feat("interp-dim-leading-zero")
			}
			t := g.tok(token.T_NUM_STRING, s)
			noGap(t)
			dim = &ast.ScalarString{StringTkn: t, Value: []byte(s)}
		case 2:
			s := g.plainName()
			t := g.tok(token.T_STRING, s)
			noGap(t)
			dim = &ast.ScalarString{StringTkn: t, Value: []byte(s)}
		case 3:
			d := g.Var(g.varName())
			noGap(d.Name.(*ast.Identifier).IdentifierTkn)
			dim = d
		case 4:
			if !g.O.PHP7 || g.O.Common {
				s := "3"
				t := g.tok(token.T_NUM_STRING, s)
				noGap(t)
				dim = &ast.ScalarLnumber{NumberTkn: t, Value: []byte(s)}
				break
			}
			g.feat("interp-dim-negative")
			m := g.ch('-')
			t := g.tok(token.T_NUM_STRING, g.pick("neg", "1", "25", "10", "0", "01", "00"))
			noGap(m, t)
			if t.Value[0] == '0' {
				// "-0" and negative numbers with leading zeros are string keys (zend_negate_num_string)
				g.feat("interp-dim-negative-string-key")
				dim = &ast.ScalarString{MinusTkn: m, StringTkn: t, Value: []byte("-" + string(t.Value))}
				break
			}
			dim = &ast.ExprUnaryMinus{MinusTkn: m, Expr: &ast.ScalarLnumber{NumberTkn: t, Value: t.Value}}
		default:
			if !g.O.PHP7 || g.O.Common {
				s := "k"
				t := g.tok(token.T_STRING, s)
				noGap(t)
				dim = &ast.ScalarString{StringTkn: t, Value: []byte(s)}
				break
			}
			m := g.ch('-')
			t := g.tok(token.T_NUM_STRING, "0x1")
			noGap(m, t)
			dim = &ast.ScalarString{MinusTkn: m, StringTkn: t, Value: []byte("-0x1")}
		}
		return &ast.ExprArrayDimFetch{Var: v, OpenBracketTkn: ob, Dim: dim, CloseBracketTkn: cb}, 0
	case 3:
		g.feat("interp-prop")
		op := g.tok(token.T_OBJECT_OPERATOR, "->")
		p := g.Ident(g.plainName())
		noGap(op, p.IdentifierTkn)
		return &ast.ExprPropertyFetch{Var: v, ObjectOperatorTkn: op, Prop: p}, 2
	case 4:
		g.feat("interp-dollar-curly")
		o := g.tok(token.T_DOLLAR_OPEN_CURLY_BRACES, "${")
		n := g.tok(token.T_STRING_VARNAME, g.plainName())
		c := g.ch('}')
		noGap(o, n, c)
		return &ast.ScalarEncapsedStringVar{DollarOpenCurlyBracketTkn: o, Name: &ast.Identifier{IdentifierTkn: n, Value: n.Value}, CloseCurlyBracketTkn: c}, 0
	case 5:
		if g.O.NoEncapsedVarDim {
			g.Excl["encapsed-var-dim"]++
			return v, 1
		}
		g.feat("interp-dollar-curly-dim")
		o := g.tok(token.T_DOLLAR_OPEN_CURLY_BRACES, "${")
		n := g.tok(token.T_STRING_VARNAME, g.plainName())
		ob := g.ch('[')
		noGap(o, n, ob)
		dim := g.innerExpr()
		return &ast.ScalarEncapsedStringVar{DollarOpenCurlyBracketTkn: o, Name: &ast.Identifier{IdentifierTkn: n, Value: n.Value}, OpenSquareBracketTkn: ob, Dim: dim, CloseSquareBracketTkn: g.ch(']'), CloseCurlyBracketTkn: g.ch('}')}, 0
	case 6:
		g.feat("interp-dollar-curly-expr")
		o := g.tok(token.T_DOLLAR_OPEN_CURLY_BRACES, "${")
		noGap(o)
		var e ast.Vertex
		e = g.Expr()
		if ev, ok := e.(*ast.ScalarLnumber); ok {
			_ = ev
			e = g.simpleVar()
		}
		if g.chance(1, 3, "dollarcurlyname") {
			// "${ b }": a name directly behind "${" is the variable's name; behind whitespace or a
			// comment it starts an ordinary expression (the constant b, b[1], B::C, f())
			g.feat("interp-dollar-curly-name-expr")
			nm := func() *ast.Name { return g.NameOf(g.plainName()) }
			switch g.intn(4, "nameexpr") {
			case 0:
				e = &ast.ExprConstFetch{Const: nm()}
			case 1:
				e = &ast.ExprArrayDimFetch{Var: &ast.ExprConstFetch{Const: nm()}, OpenBracketTkn: g.ch('['), Dim: g.SmallInt(), CloseBracketTkn: g.ch(']')}
			case 2:
				e = &ast.ExprClassConstFetch{Class: nm(), DoubleColonTkn: g.tok(token.T_PAAMAYIM_NEKUDOTAYIM, "::"), Const: g.Ident(g.plainName())}
			default:
				e = &ast.ExprFunctionCall{Function: nm(), OpenParenthesisTkn: g.ch('('), CloseParenthesisTkn: g.ch(')')}
			}
			g.setGap(firstToken(e), GapMust)
		}
		// the expression must not begin with a bare name directly after "${"
		return &ast.ScalarEncapsedStringVar{DollarOpenCurlyBracketTkn: o, Name: e, CloseCurlyBracketTkn: g.ch('}')}, 0
	default:
		g.feat("interp-curly")
		o := g.tok(token.T_CURLY_OPEN, "{")
		noGap(o)
		inner := g.variableChain(2)
		// "{$": the variable must follow the brace directly
		if ft := firstToken(inner); ft != nil {
			g.setGap(ft, GapNone)
		}
		return &ast.ScalarEncapsedStringBrackets{OpenCurlyBracketTkn: o, Var: inner, CloseCurlyBracketTkn: g.ch('}')}, 0
	}
}

// innerExpr is a small expression used inside string interpolation brackets.
func (g *Gen) innerExpr() ast.Vertex { return g.Expr() }

// body draws the parts of an interpolating construct. noGap is applied to
// every part token so that no trivia is inserted inside the construct.
func (g *Gen) body(o bodyOpts, maxParts int) []ast.Vertex {
	var parts []ast.Vertex
	n := g.rng(0, maxParts, "parts")
	prevSimple := 0
	for i := 0; i < n; i++ {
		if g.flip("isText") {
			if len(parts) > 0 {
				if _, ok := parts[len(parts)-1].(*ast.ScalarEncapsedStringPart); ok {
					continue // adjacent text runs are one token
				}
			}
			s := g.text(o, 4, false)
			if prevSimple == 1 {
				s = safeAfterSimple(s)
			} else if prevSimple == 2 {
				// after "$a->b" only a name character would extend the interpolation; "->c" and "[0]" are text
				if g.chance(1, 3, "propchaintext") {
					s = g.pick("propchain", "->c", "[0]", "->", "[") + s
					g.feat("interp-prop-then-literal-chain")
				} else if len(s) > 0 && isNameChar(s[0]) {
					s = " " + s
				}
			}
			if s == "" {
				continue
			}
			p := g.strPart(s)
			g.setGap(p.EncapsedStrTkn, GapNone)
			parts = append(parts, p)
			prevSimple = 0
		} else {
			// text directly before an interpolation must not end in "$" / "{" / odd backslashes
			if len(parts) > 0 {
				if sp, ok := parts[len(parts)-1].(*ast.ScalarEncapsedStringPart); ok {
					s := fixText(string(sp.Value), o, true)
					sp.Value = []byte(s)
					sp.EncapsedStrTkn.Value = []byte(s)
				}
			}
			n, simple := g.interp()
			parts = append(parts, n)
			prevSimple = simple
		}
	}
	return parts
}

// safeAfterSimple makes sure text that follows a simple-syntax interpolation
// ($a, $a->b) cannot be read as its continuation.
func safeAfterSimple(s string) string {
	if s == "" {
		return s
	}
	c := s[0]
	if isNameChar(c) || c == '[' || c == '-' {
		return " " + s
	}
	return s
}

// SingleQuoted draws a single-quoted string literal. Every atom is complete
// in itself (a backslash always comes with the byte it precedes), so the
// literal cannot end in an escaping backslash.
func (g *Gen) SingleQuoted() *ast.ScalarString {
	var b strings.Builder
	if g.chance(1, 12, "bprefix") {
		if g.O.NoBinaryPrefixSingle {
			g.Excl["binary-prefix-single-quote"]++
		} else {
			b.WriteString(g.pick("b", "b", "B"))
			g.feat("binary-prefix")
		}
	}
	b.WriteByte('\'')
	n := g.rng(0, 4, "sqatoms")
	for i := 0; i < n; i++ {
		switch g.intn(8, "sqatom") {
		case 0:
			b.WriteString("\\'")
		case 1:
			b.WriteString("\\\\")
		case 2:
			b.WriteString(g.pick("sqnl", "\n", "\r\n", "\r"))
			g.feat("string-newline")
		case 3:
			b.WriteString(g.pick("sqspecial", "$a", "{$b}", "\"", "\\n", "${c}", "`", "?>", "<?php", "/*", "#", "\\x"))
		default:
			b.WriteString(textWords[g.intn(len(textWords), "word")])
		}
	}
	b.WriteByte('\'')
	s := b.String()
	g.feat("string-single")
	return &ast.ScalarString{StringTkn: g.tok(token.T_CONSTANT_ENCAPSED_STRING, s), Value: []byte(s)}
}

// DoubleQuoted draws a double-quoted string: a constant string when no
// interpolation was drawn, else a ScalarEncapsed.
func (g *Gen) DoubleQuoted() ast.Vertex {
	o := bodyOpts{quote: '"'}
	parts := g.body(o, 5)
	interp := false
	for _, p := range parts {
		if _, ok := p.(*ast.ScalarEncapsedStringPart); !ok {
			interp = true
		}
	}
	if !interp {
		s := "\""
		for _, p := range parts {
			s += string(p.(*ast.ScalarEncapsedStringPart).Value)
		}
		s += "\""
		g.feat("string-double-constant")
		return &ast.ScalarString{StringTkn: g.tok(token.T_CONSTANT_ENCAPSED_STRING, s), Value: []byte(s)}
	}
	g.feat("string-double-interpolated")
	cq := g.ch('"')
	g.setGap(cq, GapNone)
	return &ast.ScalarEncapsed{OpenQuoteTkn: g.ch('"'), Parts: parts, CloseQuoteTkn: cq}
}

// ShellExec draws a backtick string.
func (g *Gen) ShellExec() ast.Vertex {
	parts := g.body(bodyOpts{quote: '`'}, 4)
	cq := g.ch('`')
	g.setGap(cq, GapNone)
	g.feat("shell-exec")
	return &ast.ExprShellExec{OpenBacktickTkn: g.ch('`'), Parts: parts, CloseBacktickTkn: cq}
}

// Heredoc draws a heredoc or nowdoc.
func (g *Gen) Heredoc() ast.Vertex {
	label := labelNames[g.intn(len(labelNames), "label")]
	nowdoc := !g.O.NoNowdoc && g.chance(1, 3, "nowdoc")
	nl := g.pick("hdnl", "\n", "\n", "\r\n", "\r")
	if nl == "\r" && g.O.NoLoneCR {
		g.Excl["lone-cr-newline"]++
		nl = "\n"
	}
	open := "<<<" + g.pick("hdsp", "", "", " ", "\t")
	switch {
	case nowdoc:
		open += "'" + label + "'"
	case g.chance(1, 4, "quotedlabel"):
		open += "\"" + label + "\""
	default:
		open += label
	}
	if g.chance(1, 16, "bheredoc") {
		open = "b" + open
	}
	open += nl
	indent := ""
	flexible := g.O.Flexible && g.chance(1, 2, "flexible")
	if flexible && g.flip("indent") {
		indent = g.pick("indent", "  ", "\t", "    ", " ")
	}
	o := bodyOpts{heredoc: true, indent: indent, label: label}
	var parts []ast.Vertex
	if nowdoc {
		if g.chance(4, 5, "nonempty") {
			// nothing is interpolated in a nowdoc: variable look-alikes are plain text there
			s := indent
			for i, k := 0, g.rng(1, 3, "nowdocpieces"); i < k; i++ {
				if g.chance(1, 3, "nowdocvar") {
					g.feat("nowdoc-variable-lookalike")
					s += g.pick("lookalike", "$a", "{$a}", "${a}", "$a[0]", "$a->b", "{$a->b[1]}", "$$a", "\\$a", "${a[1]}", "{$a}$b", "$") + g.pick("after", "", " ", "x")
				} else {
					s += g.text(o, 3, false)
				}
			}
			parts = append(parts, g.strPart(s))
		}
	} else {
		parts = g.body(o, 5)
		if len(parts) > 0 && indent != "" {
			// every body line starts with the closing indentation
			if sp, ok := parts[0].(*ast.ScalarEncapsedStringPart); ok {
				sp.Value = []byte(indent + string(sp.Value))
				sp.EncapsedStrTkn.Value = sp.Value
			} else {
				p := g.strPart(indent)
				parts = append([]ast.Vertex{p}, parts...)
			}
		}
	}
	// the body ends with a newline (plus the closing indentation), which belongs to the last text part
	endNL := g.pick("hdendnl", "\n", "\n", "\r\n", "\r") + indent
	if len(parts) > 0 {
		if sp, ok := parts[len(parts)-1].(*ast.ScalarEncapsedStringPart); ok {
			s := string(sp.Value)
			// a trailing lone CR followed by LF would merge; fine either way, the text is literal
			sp.Value = []byte(s + endNL)
			sp.EncapsedStrTkn.Value = sp.Value
		} else {
			parts = append(parts, g.strPart(endNL))
		}
	} else if indent != "" || ((g.O.Flexible || g.O.Common) && g.O.NoEmptyHeredoc73) {
		// empty body: under >= 7.3 this is the open finding empty-heredoc-73
		if (g.O.Flexible || g.O.Common) && g.O.NoEmptyHeredoc73 {
			g.Excl["empty-heredoc-73"]++
			parts = append(parts, g.strPart("x"+endNL))
		}
	}
	for _, p := range parts {
		if sp, ok := p.(*ast.ScalarEncapsedStringPart); ok {
			g.setGap(sp.EncapsedStrTkn, GapNone)
		}
	}
	if len(parts) == 0 {
		indent = ""
		flexible = false
	}
	closeTok := g.tok(token.T_END_HEREDOC, label)
	g.setGap(closeTok, GapNone)
	if nowdoc {
		g.feat("nowdoc")
	} else {
		g.feat("heredoc")
	}
	h := &ast.ScalarHeredoc{OpenHeredocTkn: g.tok(token.T_START_HEREDOC, open), Parts: parts, CloseHeredocTkn: closeTok}
	if flexible {
		g.feat("heredoc-flexible-end")
		g.flexEnds[closeTok] = true
	} else {
		g.legacyEnds[closeTok] = true
	}
	return h
}
