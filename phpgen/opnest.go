package phpgen

import (
	"fmt"

	"github.com/z7zmey/php-parser/pkg/ast"
	"github.com/z7zmey/php-parser/pkg/token"
)

// Operator nests: a deterministic (rapid-free) enumeration of small expression trees
// op1(op2(op3(leaf))) over EVERY operator of the language in every operand position, bracketed by
// the same precedence rules as the drawn expressions. Random drawing reaches a particular triple
// such as "unary minus over ** over pre-decrement" ("- --$a ** 2") about once in a million
// expressions; the enumeration reaches all of them in every run.

// NestOp is an operator with Slots operand positions that can hold a nested expression; the other
// operands are leaves.
type NestOp struct {
	Name  string
	Slots int
	PHP7  bool // PHP 7 only
	build func(g *Gen, inner ast.Vertex, slot int) ast.Vertex
}

func (g *Gen) nestLeaf(k int) ast.Vertex {
	switch k % 4 {
	case 0:
		return g.Var("$a")
	case 1:
		return &ast.ScalarLnumber{NumberTkn: g.tok(token.T_LNUMBER, "1"), Value: []byte("1")}
	case 2:
		return &ast.ScalarDnumber{NumberTkn: g.tok(token.T_DNUMBER, ".5"), Value: []byte(".5")}
	default:
		return &ast.ScalarDnumber{NumberTkn: g.tok(token.T_DNUMBER, "1."), Value: []byte("1.")}
	}
}

// NestOps lists every operator; leafKind selects the leaf used for the operands that are not nested.
func NestOps() []NestOp {
	var ops []NestOp
	leaf := func(g *Gen) ast.Vertex { return g.nestLeaf(g.nestLeafKind) }
	for _, b := range binOps {
		b := b
		ops = append(ops, NestOp{Name: b.name, Slots: 2, PHP7: b.php7, build: func(g *Gen, in ast.Vertex, slot int) ast.Vertex {
			l, r := leaf(g), leaf(g)
			if slot == 0 {
				l = in
			} else {
				r = in
			}
			return b.mk(g.operand(l, b.prec, b.assoc, left), g.tok(b.id, b.lex), g.operand(r, b.prec, b.assoc, right))
		}})
	}
	ops = append(ops, NestOp{Name: "instanceof", Slots: 1, build: func(g *Gen, in ast.Vertex, slot int) ast.Vertex {
		return &ast.ExprInstanceOf{Expr: g.operand(in, pInstance, aNone, left), InstanceOfTkn: g.kw(token.T_INSTANCEOF, "instanceof"), Class: g.NameOf("B")}
	}})
	for _, a := range assignOps {
		a := a
		ops = append(ops, NestOp{Name: a.lex, Slots: 1, PHP7: a.php7, build: func(g *Gen, in ast.Vertex, slot int) ast.Vertex {
			return a.mk(g.Var("$v"), g.tok(a.id, a.lex), g.operand(in, pAssign, aRight, right))
		}})
	}
	ops = append(ops, NestOp{Name: "=&", Slots: 0, build: func(g *Gen, in ast.Vertex, slot int) ast.Vertex {
		return &ast.ExprAssignReference{Var: g.Var("$v"), EqualTkn: g.ch('='), AmpersandTkn: g.ch('&'), Expr: g.Var("$a")}
	}})
	ops = append(ops, NestOp{Name: "?:long", Slots: 3, build: func(g *Gen, in ast.Vertex, slot int) ast.Vertex {
		c, t, f := leaf(g), leaf(g), leaf(g)
		switch slot {
		case 0:
			c = in
		case 1:
			t = in
		default:
			f = in
		}
		return &ast.ExprTernary{Cond: g.operand(c, pTernary, aLeft, left), QuestionTkn: g.ch('?'), IfTrue: t, ColonTkn: g.ch(':'), IfFalse: g.operand(f, pTernary, aLeft, right)}
	}})
	ops = append(ops, NestOp{Name: "?:short", Slots: 2, build: func(g *Gen, in ast.Vertex, slot int) ast.Vertex {
		c, f := leaf(g), leaf(g)
		if slot == 0 {
			c = in
		} else {
			f = in
		}
		n := &ast.ExprTernary{Cond: g.operand(c, pTernary, aLeft, left), QuestionTkn: g.ch('?'), ColonTkn: g.ch(':'), IfFalse: g.operand(f, pTernary, aLeft, right)}
		g.setGap(n.ColonTkn, GapFree)
		return n
	}})
	prefix := func(name string, prec int, php7 bool, mk func(g *Gen, e ast.Vertex) ast.Vertex) {
		ops = append(ops, NestOp{Name: name, Slots: 1, PHP7: php7, build: func(g *Gen, in ast.Vertex, slot int) ast.Vertex {
			return mk(g, g.prefixOperand(in, prec))
		}})
	}
	prefix("!", pNot, false, func(g *Gen, e ast.Vertex) ast.Vertex { return &ast.ExprBooleanNot{ExclamationTkn: g.ch('!'), Expr: e} })
	prefix("~", pUnary, false, func(g *Gen, e ast.Vertex) ast.Vertex { return &ast.ExprBitwiseNot{TildaTkn: g.ch('~'), Expr: e} })
	prefix("u-", pUnary, false, func(g *Gen, e ast.Vertex) ast.Vertex { return &ast.ExprUnaryMinus{MinusTkn: g.ch('-'), Expr: e} })
	prefix("u+", pUnary, false, func(g *Gen, e ast.Vertex) ast.Vertex { return &ast.ExprUnaryPlus{PlusTkn: g.ch('+'), Expr: e} })
	prefix("@", pUnary, false, func(g *Gen, e ast.Vertex) ast.Vertex { return &ast.ExprErrorSuppress{AtTkn: g.ch('@'), Expr: e} })
	for _, c := range castOps {
		c := c
		prefix("("+c.words[0]+")", pUnary, false, func(g *Gen, e ast.Vertex) ast.Vertex { return c.mk(g.tok(c.id, "("+c.words[0]+")"), e) })
	}
	prefix("clone", pClone, false, func(g *Gen, e ast.Vertex) ast.Vertex {
		return &ast.ExprClone{CloneTkn: g.kw(token.T_CLONE, "clone"), Expr: e}
	})
	prefix("print", pPrint, false, func(g *Gen, e ast.Vertex) ast.Vertex {
		return &ast.ExprPrint{PrintTkn: g.kw(token.T_PRINT, "print"), Expr: e}
	})
	prefix("include", pInclude, false, func(g *Gen, e ast.Vertex) ast.Vertex {
		return &ast.ExprInclude{IncludeTkn: g.kw(token.T_INCLUDE, "include"), Expr: e}
	})
	prefix("require_once", pInclude, false, func(g *Gen, e ast.Vertex) ast.Vertex {
		return &ast.ExprRequireOnce{RequireOnceTkn: g.kw(token.T_REQUIRE_ONCE, "require_once"), Expr: e}
	})
	// operators whose operand is a variable: usable as the innermost operator only
	ops = append(ops, NestOp{Name: "++pre", Slots: 0, build: func(g *Gen, in ast.Vertex, slot int) ast.Vertex {
		return &ast.ExprPreInc{IncTkn: g.tok(token.T_INC, "++"), Var: g.Var("$a")}
	}})
	ops = append(ops, NestOp{Name: "--pre", Slots: 0, build: func(g *Gen, in ast.Vertex, slot int) ast.Vertex {
		return &ast.ExprPreDec{DecTkn: g.tok(token.T_DEC, "--"), Var: g.Var("$a")}
	}})
	ops = append(ops, NestOp{Name: "post++", Slots: 0, build: func(g *Gen, in ast.Vertex, slot int) ast.Vertex {
		return &ast.ExprPostInc{Var: g.Var("$a"), IncTkn: g.tok(token.T_INC, "++")}
	}})
	ops = append(ops, NestOp{Name: "post--", Slots: 0, build: func(g *Gen, in ast.Vertex, slot int) ast.Vertex {
		return &ast.ExprPostDec{Var: g.Var("$a"), DecTkn: g.tok(token.T_DEC, "--")}
	}})
	ops = append(ops, NestOp{Name: "f(arg)", Slots: 1, build: func(g *Gen, in ast.Vertex, slot int) ast.Vertex {
		return &ast.ExprFunctionCall{Function: g.NameOf("f"), OpenParenthesisTkn: g.ch('('), Args: []ast.Vertex{&ast.Argument{Expr: in}}, CloseParenthesisTkn: g.ch(')')}
	}})
	ops = append(ops, NestOp{Name: "[k=>v]", Slots: 2, build: func(g *Gen, in ast.Vertex, slot int) ast.Vertex {
		k, v := leaf(g), leaf(g)
		if slot == 0 {
			k = in
		} else {
			v = in
		}
		return &ast.ExprArray{OpenBracketTkn: g.ch('['), Items: []ast.Vertex{&ast.ExprArrayItem{Key: k, DoubleArrowTkn: g.tok(token.T_DOUBLE_ARROW, "=>"), Val: v}}, CloseBracketTkn: g.ch(']')}
	}})
	ops = append(ops, NestOp{Name: "$a[dim]", Slots: 1, build: func(g *Gen, in ast.Vertex, slot int) ast.Vertex {
		return &ast.ExprArrayDimFetch{Var: g.Var("$a"), OpenBracketTkn: g.ch('['), Dim: in, CloseBracketTkn: g.ch(']')}
	}})
	return ops
}

// Nest describes one enumerated expression: Ops[i] applied with the nested expression in Slots[i],
// outermost first; the innermost operator's operands are all leaves.
type Nest struct {
	Ops   []int
	Slots []int
	Leaf  int
}

func (n Nest) Name(ops []NestOp) string {
	s := ""
	for i, o := range n.Ops {
		if i > 0 {
			s += " > "
		}
		s += ops[o].Name
		if i < len(n.Slots) {
			s += fmt.Sprintf("[%d]", n.Slots[i])
		}
	}
	return fmt.Sprintf("%s leaf=%d", s, n.Leaf)
}

// NestProgram builds "<?php <expr>;" for the nest (nil if the family lacks one of the operators).
// Like every generated program it carries tokens but no positions until it is rendered.
func (g *Gen) NestProgram(ops []NestOp, n Nest) *ast.Root {
	g.nestLeafKind = n.Leaf
	var e ast.Vertex
	for i := len(n.Ops) - 1; i >= 0; i-- {
		op := ops[n.Ops[i]]
		if op.PHP7 && (!g.O.PHP7 || g.O.Common) {
			return nil
		}
		if i == len(n.Ops)-1 {
			e = op.build(g, g.nestLeaf(n.Leaf), 0)
		} else {
			e = op.build(g, e, n.Slots[i])
		}
		g.feat("nest-op:" + op.Name)
	}
	return &ast.Root{Stmts: []ast.Vertex{&ast.StmtExpression{Expr: e, SemiColonTkn: g.ch(';')}}, EndTkn: &token.Token{}}
}

// EnumNests calls f for every nest of exactly depth operators (outer operators range over every
// (operator, slot) pair with at least one slot, the innermost over every operator), restricted to
// the operator indexes in family when it is not nil.
func EnumNests(ops []NestOp, depth int, family map[int]bool, leaves []int, f func(Nest)) {
	var rec func(level int, cur Nest)
	rec = func(level int, cur Nest) {
		for oi, op := range ops {
			if family != nil && !family[oi] {
				continue
			}
			if level == depth-1 {
				for _, lf := range leaves {
					n := Nest{Ops: append(append([]int{}, cur.Ops...), oi), Slots: append([]int{}, cur.Slots...), Leaf: lf}
					f(n)
				}
				continue
			}
			for s := 0; s < op.Slots; s++ {
				rec(level+1, Nest{Ops: append(append([]int{}, cur.Ops...), oi), Slots: append(append([]int{}, cur.Slots...), s)})
			}
		}
	}
	rec(0, Nest{})
}

// Family returns the indexes of the operators with the given names.
func Family(ops []NestOp, names ...string) map[int]bool {
	m := map[int]bool{}
	for i, o := range ops {
		for _, n := range names {
			if o.Name == n {
				m[i] = true
			}
		}
	}
	return m
}

// FusionFamilies: operators whose lexemes share characters and fuse or re-tokenise when written
// without a separator; their triples are enumerated in every run.
func FusionFamilies(ops []NestOp) map[string]map[int]bool {
	return map[string]map[int]bool{
		"sign":      Family(ops, "+", "-", "u+", "u-", "++pre", "--pre", "post++", "post--", "+=", "-=", "**", ".", "*", "(int)", "!", "@"),
		"dot":       Family(ops, ".", ".=", "+", "-", "u-", "u+", "*", "/", "=", "?:long"),
		"amp-pipe":  Family(ops, "&", "&&", "&=", "|", "||", "|=", "^", "=", "=&", "and", "or", "!", "f(arg)"),
		"angle":     Family(ops, "<", "<=", "<<", "<<=", "<=>", "<>", ">", ">=", ">>", ">>=", "=", "==", "u-", "!", "[k=>v]", "-"),
		"question":  Family(ops, "?:long", "?:short", "??", "??=", "=", "!", "u-", "instanceof", ":", "[k=>v]", "$a[dim]"),
		"star-eq":   Family(ops, "*", "**", "*=", "**=", "=", "==", "===", "!=", "!==", "!", "/", "/=", "%", "%=", "u-", "--pre"),
		"word":      Family(ops, "and", "or", "xor", "instanceof", "print", "clone", "include", "require_once", "(int)", "!", "=", "?:long", "??", "u-"),
		"low-right": Family(ops, "print", "include", "=", "+=", "?:long", "?:short", "and", "or", "xor", "&&", "||", "??", "!", "(int)", "@", "clone", "+", "**", "instanceof"),
	}
}
