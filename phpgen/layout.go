package phpgen

import (
	"bytes"
	"strings"

	"github.com/z7zmey/php-parser/pkg/ast"
	"github.com/z7zmey/php-parser/pkg/position"
	"github.com/z7zmey/php-parser/pkg/token"
	"pgregory.net/rapid"

	"verif/astx"
	"verif/oracle"
)

// PolicyKind selects how inter-token gaps are filled.
type PolicyKind int

const (
	// PolicyMinimal inserts a single space only where two lexemes would fuse.
	PolicyMinimal PolicyKind = iota
	// PolicySpace inserts a single space into every gap that admits trivia.
	PolicySpace
	// PolicyWhitespace draws whitespace only (all newline styles), no comments.
	PolicyWhitespace
	// PolicyFull draws whitespace and all comment forms.
	PolicyFull
)

// Policy is a trivia policy.
type Policy struct {
	Kind    PolicyKind
	T       *rapid.T // nil for the deterministic policies
	Shebang bool     // start the file with a #! line
	// ShortOpenTag uses "<?" instead of "<?php" for re-opening tags at random.
	ShortOpenTag bool
	// NoLoneCR keeps a lone CR out of inter-token whitespace (finding lone-cr-newline); Excluded counts the draws it replaced.
	NoLoneCR bool
	Excluded *int
	// LoneCRInGaps lets ordinary inter-token whitespace contain a lone CR although NoLoneCR is set (the
	// places where the scanner needs a newline or a blank — behind an open tag, behind a heredoc's
	// closing label — stay protected). Used by the check that tolerates exactly the known failure
	// mode of finding lone-cr-newline and nothing else.
	LoneCRInGaps bool
}

// Layout is the result of rendering a tree under a policy.
type Layout struct {
	Src []byte
	// Gaps counts gaps by (kind, trivia class) for the distribution report.
	Gaps map[string]int
	// TriviaClasses used in this rendering.
	Classes map[string]bool
	// LegacyHeredocOK is false when some heredoc is terminated only by a >= 7.3 (flexible) closing label.
	LegacyHeredocOK bool
	Tokens          int
	Comments        int
	NonLF           bool
}

type piece struct {
	id  token.ID
	val string
}

// multi-character lexemes that two adjacent single tokens could form by accident
var fuseLexemes = []string{"++", "--", "->", "=>", "::", "==", "===", "!=", "!==", "<>", "<=", ">=", "<=>", "<<", ">>", "<<=", ">>=", "<<<",
	"&&", "||", "??", "??=", "+=", "-=", "*=", "/=", ".=", "%=", "&=", "|=", "^=", "**", "**=", "...", "?>", "//", "/*", "<?", "%>", "<%"}

// mustSeparate reports whether the lexemes a and b would be tokenised
// differently when written without anything between them.
func mustSeparate(a, b []byte) bool {
	if len(a) == 0 || len(b) == 0 {
		return false
	}
	la, fb := a[len(a)-1], b[0]
	if isNameChar(la) && isNameChar(fb) {
		return true
	}
	// number / dot interplay: "1" ".", "." "5", "1" ".5", "1." "5"
	if (isDigit(la) && fb == '.') || (la == '.' && isDigit(fb)) || (la == '.' && fb == '.') {
		return true
	}
	// a trailing "$" token followed by something that would make it a variable
	if la == '$' && (isNameStart(fb)) && len(a) == 1 {
		return false // "$" "$a" never happens with a name start: the name token starts with "$"
	}
	// heredoc opener lookalike and cast lookalikes are excluded by the generator's name pools
	s := string(a) + string(b)
	for _, l := range fuseLexemes {
		// an occurrence of l that straddles the boundary
		for off := len(a) - len(l) + 1; off < len(a); off++ {
			if off < 0 {
				continue
			}
			if off+len(l) <= len(s) && s[off:off+len(l)] == l {
				return true
			}
		}
	}
	// "b" / "B" directly before a quote would become a binary-string prefix
	if len(a) == 1 && (la == 'b' || la == 'B') && (fb == '"' || fb == '\'' || (fb == '<' && len(b) >= 3 && string(b[:3]) == "<<<")) {
		return true
	}
	// "<<" "<" etc. handled above; "&" "&" handled; "-" ">" handled; "?" ">" handled
	return false
}

// hasLoneCR reports whether s contains a CR that is not followed by LF.
func hasLoneCR(s string) bool {
	for i := 0; i < len(s); i++ {
		if s[i] == '\r' && (i+1 >= len(s) || s[i+1] != '\n') {
			return true
		}
	}
	return false
}

// numberThenWord: a decimal number literal directly followed by a word
// ("1and 2", "2instanceof A") is two tokens in PHP; no separator is needed
// unless the word could continue the literal (exponent, 0x / 0b prefixes, "_").
func numberThenWord(a, b *token.Token) bool {
	if a.ID != token.T_LNUMBER && a.ID != token.T_DNUMBER {
		return false
	}
	for _, c := range a.Value {
		if !isDigit(c) && c != '.' {
			return false
		}
	}
	if len(b.Value) == 0 {
		return false
	}
	c := b.Value[0]
	if !((c >= 'a' && c <= 'z') || (c >= 'A' && c <= 'Z')) || c == 'e' || c == 'E' {
		return false
	}
	if len(a.Value) == 1 && a.Value[0] == '0' && (c == 'x' || c == 'X' || c == 'b' || c == 'B') {
		return false
	}
	return true
}

func isDigit(c byte) bool { return c >= '0' && c <= '9' }

var wsChoices = []string{" ", " ", "  ", "\t", "\n", "\n", "\r\n", "\r", "\n\n", " \t ", "\n    ", "\r\n\t", " \v", "\f ", "\n\r"}
var commentTexts = []string{"", " c ", "x", " TODO: fix ", " *", " a * b ", "/", "// nested", " # hash ", "$a = 1;", "<?php", "\"quote", "'", "é", "{", "}", "(", " multi\n line ", " cr\r line ", " **"}
var lineCommentTexts = []string{"", " c", "x", " TODO", " a /* b", " '", " \"", " $a = 1;", " <?php", " é", " { }", " */", " ?", " >"}

func (p *Policy) draw(n int, label string) int {
	return rapid.IntRange(0, n-1).Draw(p.T, label)
}

// triviaPieces draws the trivia of one gap.
func (p *Policy) triviaPieces(kind GapKind, must bool, prevLast byte, lay *Layout) []piece {
	switch p.Kind {
	case PolicyMinimal:
		if must || kind == GapMust {
			return []piece{{token.T_WHITESPACE, " "}}
		}
		return nil
	case PolicySpace:
		if kind == GapNone {
			return nil
		}
		return []piece{{token.T_WHITESPACE, " "}}
	}
	if kind == GapNone {
		return nil
	}
	var out []piece
	n := 0
	switch p.draw(8, "gapsize") {
	case 0, 1, 2:
		n = 0
	case 3, 4, 5:
		n = 1
	case 6:
		n = 2
	default:
		n = 3
		// now and then a long run (a file header of several comment lines, a block of notes in front of a
		// member): lists of free-floating tokens are grown by append like every other list, and a
		// reservation of a fixed number of slots per token shows only beyond that number
		if p.Kind == PolicyFull && kind != GapWS && p.draw(6, "longrun") == 0 {
			n = 4 + p.draw(13, "runlength")
			lay.Classes["long-trivia-run"] = true
		}
	}
	if (must || kind == GapMust) && n == 0 {
		n = 1
	}
	for i := 0; i < n; i++ {
		c := 0
		if p.Kind == PolicyFull && kind != GapWS && !(i == 0 && (must || kind == GapMust)) {
			c = p.draw(8, "triviakind")
		}
		switch c {
		case 4:
			out = append(out, piece{token.T_COMMENT, "/*" + commentTexts[p.draw(len(commentTexts), "ctext")] + "*/"})
			lay.Classes["block-comment"] = true
		case 5:
			out = append(out, piece{token.T_DOC_COMMENT, "/**" + wsChoices[p.draw(len(wsChoices), "dws")][:1] + commentTexts[p.draw(len(commentTexts), "ctext")] + "*/"})
			lay.Classes["doc-comment"] = true
		case 6:
			nl := []string{"\n", "\r\n", "\r"}[p.draw(3, "cnl")]
			out = append(out, piece{token.T_COMMENT, "//" + lineCommentTexts[p.draw(len(lineCommentTexts), "ltext")] + nl})
			lay.Classes["line-comment"] = true
		case 7:
			nl := []string{"\n", "\r\n", "\r"}[p.draw(3, "cnl")]
			out = append(out, piece{token.T_COMMENT, "#" + lineCommentTexts[p.draw(len(lineCommentTexts), "ltext")] + nl})
			lay.Classes["hash-comment"] = true
		default:
			w := wsChoices[p.draw(len(wsChoices), "ws")]
			// (whitespace-only gaps — inside "__halt_compiler ( ) ;", before a keyword-named member —
			// keep the lexer in a special state; a lone CR there combines two findings, so they stay protected)
			if p.NoLoneCR && (!p.LoneCRInGaps || kind == GapWS) && hasLoneCR(w) {
				if p.Excluded != nil {
					*p.Excluded++
				}
				w = strings.ReplaceAll(strings.ReplaceAll(w, "\r\n", "\n"), "\r", "\n")
			}
			out = append(out, piece{token.T_WHITESPACE, w})
			if strings.Contains(w, "\r") {
				lay.Classes["ws-cr"] = true
			} else if strings.Contains(w, "\n") {
				lay.Classes["ws-lf"] = true
			} else {
				lay.Classes["ws-blank"] = true
			}
		}
	}
	// "/" directly followed by a comment would start a different comment
	if len(out) > 0 && out[0].id != token.T_WHITESPACE && (prevLast == '/' || prevLast == '<' || prevLast == '*') {
		out = append([]piece{{token.T_WHITESPACE, " "}}, out...)
	}
	return out
}

// openLineComment appends (1 time in 3, full policy only) a "//" or "#" comment that is not ended
// by a newline: the caller guarantees that a close tag or the end of the input follows.
func (p *Policy) openLineComment(ps []piece, prevLast byte, lay *Layout, class string) []piece {
	if p.T == nil || p.Kind != PolicyFull || p.draw(3, "openlinecomment") != 0 {
		return ps
	}
	if len(ps) == 0 && (prevLast == '/' || prevLast == '<' || prevLast == '*') {
		ps = append(ps, piece{token.T_WHITESPACE, " "})
	}
	intro := []string{"//", "#"}[p.draw(2, "intro")]
	ps = append(ps, piece{token.T_COMMENT, intro + lineCommentTexts[p.draw(len(lineCommentTexts), "ltext")]})
	lay.Classes[class] = true
	return ps
}

// normalize merges adjacent whitespace pieces and moves an LF that directly
// follows a comment ending in CR into that comment (the lexer reads CRLF as
// one terminator).
func normalize(ps []piece) []piece {
	var out []piece
	for _, p := range ps {
		if p.val == "" {
			continue
		}
		if len(out) > 0 {
			last := &out[len(out)-1]
			if last.id == token.T_WHITESPACE && p.id == token.T_WHITESPACE {
				last.val += p.val
				continue
			}
			if last.id == token.T_COMMENT && strings.HasSuffix(last.val, "\r") && (strings.HasPrefix(last.val, "//") || strings.HasPrefix(last.val, "#")) &&
				p.id == token.T_WHITESPACE && strings.HasPrefix(p.val, "\n") {
				last.val += "\n"
				p.val = p.val[1:]
				if p.val == "" {
					continue
				}
			}
		}
		out = append(out, p)
	}
	return out
}

// Render lays the tree out under the policy: it fills the free-floating
// tokens and positions of every token (in place) and the positions of every
// node, and returns the source text.
func (g *Gen) Render(root *ast.Root, pol Policy) *Layout {
	lay := &Layout{Gaps: map[string]int{}, Classes: map[string]bool{}, LegacyHeredocOK: true}
	toks := astx.Tokens(root)
	var buf bytes.Buffer
	type placed struct {
		t          *token.Token
		start, end int
	}
	var all []placed
	htmlMode := true
	var prev *token.Token
	emit := func(t *token.Token) {
		s := buf.Len()
		buf.Write(t.Value)
		all = append(all, placed{t, s, buf.Len()})
	}
	mk := func(ps []piece) []*token.Token {
		var ff []*token.Token
		for _, p := range normalize(ps) {
			ff = append(ff, &token.Token{ID: p.id, Value: []byte(p.val)})
			if p.id != token.T_WHITESPACE && p.id != token.T_OPEN_TAG {
				lay.Comments++
			}
		}
		return ff
	}
	needNL := false // the next gap must start with a newline (legacy heredoc terminator rule)
	for i, t := range toks {
		isEnd := t == root.EndTkn
		var ps []piece
		if i == 0 && (pol.Shebang || g.LeadHashBang) {
			ps = append(ps, piece{token.T_COMMENT, "#!/usr/bin/env php\n"})
			lay.Classes["shebang"] = true
		}
		prevLast := byte(0)
		if prev != nil && len(prev.Value) > 0 {
			prevLast = prev.Value[len(prev.Value)-1]
		}
		switch {
		case htmlMode:
			switch {
			case t.ID == token.T_INLINE_HTML, isEnd:
			case t.ID == token.T_ECHO && bytes.Equal(t.Value, []byte("<?=")):
				htmlMode = false
			default:
				tag := "<?php"
				if pol.T != nil && pol.Kind >= PolicyWhitespace {
					if k := pol.draw(8, "opentag"); k == 0 {
						tag = "<?PHP"
					} else if k == 1 && pol.ShortOpenTag {
						tag = "<?"
					}
				}
				ps = append(ps, piece{token.T_OPEN_TAG, tag})
				first := " "
				if pol.T != nil && pol.Kind >= PolicyWhitespace {
					first = []string{" ", "\n", "\t", "\r\n", "\r"}[pol.draw(5, "afteropen")]
					if first == "\r" && pol.NoLoneCR {
						first = "\n"
					}
				}
				ps = append(ps, piece{token.T_WHITESPACE, first})
				if pol.T != nil && pol.Kind >= PolicyWhitespace {
					ps = append(ps, pol.triviaPieces(g.gaps[t], false, ' ', lay)...)
				}
				htmlMode = false
			}
		case isEnd:
			if g.HaltTail != nil && prev != nil && g.isHaltSemi(root, prev) {
				if len(g.HaltTail) > 0 {
					ps = append(ps, piece{token.T_HALT_COMPILER, string(g.HaltTail)})
				}
			} else if pol.T != nil {
				if needNL {
					ps = append(ps, piece{token.T_WHITESPACE, g.nl(pol)})
				}
				ps = append(ps, pol.triviaPieces(GapFree, false, prevLast, lay)...)
				ps = pol.openLineComment(ps, prevLast, lay, "line-comment-at-eof")
			} else if pol.Kind == PolicySpace || needNL {
				ps = append(ps, piece{token.T_WHITESPACE, "\n"})
			}
		default:
			kind := g.gaps[t]
			must := prev != nil && mustSeparate(prev.Value, t.Value) && !numberThenWord(prev, t)
			if prev != nil && g.legacyEnds[prev] {
				if bytes.Equal(t.Value, []byte(";")) {
					kind = GapNone
					needNL = true
				} else {
					ps = append(ps, piece{token.T_WHITESPACE, g.nl(pol)})
				}
			} else if needNL {
				ps = append(ps, piece{token.T_WHITESPACE, g.nl(pol)})
				needNL = false
			}
			if kind == GapNone {
				must = false // inside string-like constructs adjacency is decided by the generator
			}
			if len(ps) > 0 && ps[len(ps)-1].id == token.T_WHITESPACE {
				must = false
			}
			ps = append(ps, pol.triviaPieces(kind, must, prevLast, lay)...)
			if kind != GapNone && kind != GapWS && t.ID == token.ID(';') && bytes.HasPrefix(t.Value, []byte("?>")) {
				// a single-line comment also ends at a close tag (which it does not swallow)
				ps = pol.openLineComment(ps, prevLast, lay, "line-comment-before-close-tag")
			}
		}
		ff := mk(ps)
		if len(ff) == 0 {
			t.FreeFloating = nil
		} else {
			t.FreeFloating = ff
		}
		for _, f := range ff {
			emit(f)
		}
		if !isEnd {
			emit(t)
		}
		if t.ID == token.ID(';') && endsInCloseTag(t) {
			htmlMode = true
			needNL = false
		}
		prev = t
		lay.Tokens++
	}
	lay.Src = append([]byte{}, buf.Bytes()...)
	lay.NonLF = bytes.IndexByte(lay.Src, '\r') >= 0
	// positions
	lm := oracle.NewLines(lay.Src)
	for _, p := range all {
		p.t.Value = lay.Src[p.start:p.end:p.end]
		el := lm.Line(p.start)
		if p.end > p.start {
			el = lm.Line(p.end - 1)
		}
		p.t.Position = &position.Position{StartLine: lm.Line(p.start), EndLine: el, StartPos: p.start, EndPos: p.end}
	}
	root.EndTkn.Position = nil
	// leaf values alias the token values
	setNodePositions(root)
	lay.LegacyHeredocOK = g.legacyOK(lay.Src, toks)
	return lay
}

func (g *Gen) nl(pol Policy) string {
	if pol.T != nil && pol.Kind >= PolicyWhitespace {
		nl := []string{"\n", "\n", "\r\n", "\r"}[pol.draw(4, "hdnl")]
		if nl == "\r" && pol.NoLoneCR {
			nl = "\n"
		}
		return nl
	}
	return "\n"
}

func (g *Gen) isHaltSemi(root *ast.Root, t *token.Token) bool {
	if len(root.Stmts) == 0 {
		return false
	}
	h, ok := root.Stmts[len(root.Stmts)-1].(*ast.StmtHaltCompiler)
	return ok && h.SemiColonTkn == t
}

// legacyOK reports whether every heredoc of the rendered source is also
// terminated under the pre-7.3 rule (label at line start, followed by an
// optional ";" and a newline or the end of input).
func (g *Gen) legacyOK(src []byte, toks []*token.Token) bool {
	for _, t := range toks {
		if t.ID != token.T_END_HEREDOC || t.Position == nil {
			continue
		}
		s, e := t.Position.StartPos, t.Position.EndPos
		if s == 0 || (src[s-1] != '\n' && src[s-1] != '\r') {
			return false
		}
		if e < len(src) {
			c := src[e]
			if c == ';' {
				if e+1 < len(src) && src[e+1] != '\n' && src[e+1] != '\r' {
					return false
				}
			} else if c != '\n' && c != '\r' {
				return false
			}
		}
	}
	return true
}

// setNodePositions fills every node position of a laid-out model tree from
// its token positions by the documented conventions (oracle.ExpectedSpan).
func setNodePositions(root ast.Vertex) {
	astx.Walk(root, func(n ast.Vertex, _ string) bool {
		s := oracle.ExpectedSpan(n)
		f := astx.GetField(n, "Position")
		if s.Nil {
			f.Set(reflectZeroPos)
		} else {
			p := &position.Position{StartLine: s.StartLine, EndLine: s.EndLine, StartPos: s.StartPos, EndPos: s.EndPos}
			f.Set(reflectValueOf(p))
		}
		return true
	})
}
