package phpgen

import (
	"github.com/z7zmey/php-parser/pkg/ast"
	"github.com/z7zmey/php-parser/pkg/token"
)

// Precedence levels transcribed from the PHP manual's operator table (PHP 7.4;
// "." shares the level of "+" and "-"), higher binds tighter. Entries the
// manual does not list (include/require, arrow functions) are placed according
// to the language reference: both take everything to their right.
const (
	pInclude  = 0
	pOr       = 1
	pXor      = 2
	pAnd      = 3
	pPrint    = 4
	pYield    = 5
	pArrowFn  = 6
	pYieldFr  = 7
	pAssign   = 8
	pTernary  = 9
	pCoalesce = 10
	pBoolOr   = 11
	pBoolAnd  = 12
	pBitOr    = 13
	pBitXor   = 14
	pBitAnd   = 15
	pEquality = 16
	pCompare  = 17
	pShift    = 18
	pAdditive = 19
	pMul      = 20
	pNot      = 21
	pInstance = 22
	pUnary    = 23
	pPow      = 24
	pClone    = 25
	pAtom     = 100
)

type assoc int

const (
	aLeft assoc = iota
	aRight
	aNone
)

type shape int

const (
	sAtom shape = iota
	sBinary
	sPrefix
	sTernary
)

type binOp struct {
	name  string
	id    token.ID
	lex   string
	prec  int
	assoc assoc
	php7  bool
	word  bool
	mk    func(l ast.Vertex, op *token.Token, r ast.Vertex) ast.Vertex
}

var binOps = []binOp{
	{"or", token.T_LOGICAL_OR, "or", pOr, aLeft, false, true, func(l ast.Vertex, o *token.Token, r ast.Vertex) ast.Vertex {
		return &ast.ExprBinaryLogicalOr{Left: l, OpTkn: o, Right: r}
	}},
	{"xor", token.T_LOGICAL_XOR, "xor", pXor, aLeft, false, true, func(l ast.Vertex, o *token.Token, r ast.Vertex) ast.Vertex {
		return &ast.ExprBinaryLogicalXor{Left: l, OpTkn: o, Right: r}
	}},
	{"and", token.T_LOGICAL_AND, "and", pAnd, aLeft, false, true, func(l ast.Vertex, o *token.Token, r ast.Vertex) ast.Vertex {
		return &ast.ExprBinaryLogicalAnd{Left: l, OpTkn: o, Right: r}
	}},
	{"??", token.T_COALESCE, "??", pCoalesce, aRight, true, false, func(l ast.Vertex, o *token.Token, r ast.Vertex) ast.Vertex {
		return &ast.ExprBinaryCoalesce{Left: l, OpTkn: o, Right: r}
	}},
	{"||", token.T_BOOLEAN_OR, "||", pBoolOr, aLeft, false, false, func(l ast.Vertex, o *token.Token, r ast.Vertex) ast.Vertex {
		return &ast.ExprBinaryBooleanOr{Left: l, OpTkn: o, Right: r}
	}},
	{"&&", token.T_BOOLEAN_AND, "&&", pBoolAnd, aLeft, false, false, func(l ast.Vertex, o *token.Token, r ast.Vertex) ast.Vertex {
		return &ast.ExprBinaryBooleanAnd{Left: l, OpTkn: o, Right: r}
	}},
	{"|", token.ID('|'), "|", pBitOr, aLeft, false, false, func(l ast.Vertex, o *token.Token, r ast.Vertex) ast.Vertex {
		return &ast.ExprBinaryBitwiseOr{Left: l, OpTkn: o, Right: r}
	}},
	{"^", token.ID('^'), "^", pBitXor, aLeft, false, false, func(l ast.Vertex, o *token.Token, r ast.Vertex) ast.Vertex {
		return &ast.ExprBinaryBitwiseXor{Left: l, OpTkn: o, Right: r}
	}},
	{"&", token.ID('&'), "&", pBitAnd, aLeft, false, false, func(l ast.Vertex, o *token.Token, r ast.Vertex) ast.Vertex {
		return &ast.ExprBinaryBitwiseAnd{Left: l, OpTkn: o, Right: r}
	}},
	{"==", token.T_IS_EQUAL, "==", pEquality, aNone, false, false, func(l ast.Vertex, o *token.Token, r ast.Vertex) ast.Vertex {
		return &ast.ExprBinaryEqual{Left: l, OpTkn: o, Right: r}
	}},
	{"!=", token.T_IS_NOT_EQUAL, "!=", pEquality, aNone, false, false, func(l ast.Vertex, o *token.Token, r ast.Vertex) ast.Vertex {
		return &ast.ExprBinaryNotEqual{Left: l, OpTkn: o, Right: r}
	}},
	{"<>", token.T_IS_NOT_EQUAL, "<>", pEquality, aNone, false, false, func(l ast.Vertex, o *token.Token, r ast.Vertex) ast.Vertex {
		return &ast.ExprBinaryNotEqual{Left: l, OpTkn: o, Right: r}
	}},
	{"===", token.T_IS_IDENTICAL, "===", pEquality, aNone, false, false, func(l ast.Vertex, o *token.Token, r ast.Vertex) ast.Vertex {
		return &ast.ExprBinaryIdentical{Left: l, OpTkn: o, Right: r}
	}},
	{"!==", token.T_IS_NOT_IDENTICAL, "!==", pEquality, aNone, false, false, func(l ast.Vertex, o *token.Token, r ast.Vertex) ast.Vertex {
		return &ast.ExprBinaryNotIdentical{Left: l, OpTkn: o, Right: r}
	}},
	{"<=>", token.T_SPACESHIP, "<=>", pEquality, aNone, true, false, func(l ast.Vertex, o *token.Token, r ast.Vertex) ast.Vertex {
		return &ast.ExprBinarySpaceship{Left: l, OpTkn: o, Right: r}
	}},
	{"<", token.ID('<'), "<", pCompare, aNone, false, false, func(l ast.Vertex, o *token.Token, r ast.Vertex) ast.Vertex {
		return &ast.ExprBinarySmaller{Left: l, OpTkn: o, Right: r}
	}},
	{"<=", token.T_IS_SMALLER_OR_EQUAL, "<=", pCompare, aNone, false, false, func(l ast.Vertex, o *token.Token, r ast.Vertex) ast.Vertex {
		return &ast.ExprBinarySmallerOrEqual{Left: l, OpTkn: o, Right: r}
	}},
	{">", token.ID('>'), ">", pCompare, aNone, false, false, func(l ast.Vertex, o *token.Token, r ast.Vertex) ast.Vertex {
		return &ast.ExprBinaryGreater{Left: l, OpTkn: o, Right: r}
	}},
	{">=", token.T_IS_GREATER_OR_EQUAL, ">=", pCompare, aNone, false, false, func(l ast.Vertex, o *token.Token, r ast.Vertex) ast.Vertex {
		return &ast.ExprBinaryGreaterOrEqual{Left: l, OpTkn: o, Right: r}
	}},
	{"<<", token.T_SL, "<<", pShift, aLeft, false, false, func(l ast.Vertex, o *token.Token, r ast.Vertex) ast.Vertex {
		return &ast.ExprBinaryShiftLeft{Left: l, OpTkn: o, Right: r}
	}},
	{">>", token.T_SR, ">>", pShift, aLeft, false, false, func(l ast.Vertex, o *token.Token, r ast.Vertex) ast.Vertex {
		return &ast.ExprBinaryShiftRight{Left: l, OpTkn: o, Right: r}
	}},
	{"+", token.ID('+'), "+", pAdditive, aLeft, false, false, func(l ast.Vertex, o *token.Token, r ast.Vertex) ast.Vertex {
		return &ast.ExprBinaryPlus{Left: l, OpTkn: o, Right: r}
	}},
	{"-", token.ID('-'), "-", pAdditive, aLeft, false, false, func(l ast.Vertex, o *token.Token, r ast.Vertex) ast.Vertex {
		return &ast.ExprBinaryMinus{Left: l, OpTkn: o, Right: r}
	}},
	{".", token.ID('.'), ".", pAdditive, aLeft, false, false, func(l ast.Vertex, o *token.Token, r ast.Vertex) ast.Vertex {
		return &ast.ExprBinaryConcat{Left: l, OpTkn: o, Right: r}
	}},
	{"*", token.ID('*'), "*", pMul, aLeft, false, false, func(l ast.Vertex, o *token.Token, r ast.Vertex) ast.Vertex {
		return &ast.ExprBinaryMul{Left: l, OpTkn: o, Right: r}
	}},
	{"/", token.ID('/'), "/", pMul, aLeft, false, false, func(l ast.Vertex, o *token.Token, r ast.Vertex) ast.Vertex {
		return &ast.ExprBinaryDiv{Left: l, OpTkn: o, Right: r}
	}},
	{"%", token.ID('%'), "%", pMul, aLeft, false, false, func(l ast.Vertex, o *token.Token, r ast.Vertex) ast.Vertex {
		return &ast.ExprBinaryMod{Left: l, OpTkn: o, Right: r}
	}},
	{"**", token.T_POW, "**", pPow, aRight, false, false, func(l ast.Vertex, o *token.Token, r ast.Vertex) ast.Vertex {
		return &ast.ExprBinaryPow{Left: l, OpTkn: o, Right: r}
	}},
}

type assignOp struct {
	id   token.ID
	lex  string
	php7 bool
	mk   func(v ast.Vertex, op *token.Token, e ast.Vertex) ast.Vertex
}

var assignOps = []assignOp{
	{token.ID('='), "=", false, func(v ast.Vertex, o *token.Token, e ast.Vertex) ast.Vertex {
		return &ast.ExprAssign{Var: v, EqualTkn: o, Expr: e}
	}},
	{token.T_PLUS_EQUAL, "+=", false, func(v ast.Vertex, o *token.Token, e ast.Vertex) ast.Vertex {
		return &ast.ExprAssignPlus{Var: v, EqualTkn: o, Expr: e}
	}},
	{token.T_MINUS_EQUAL, "-=", false, func(v ast.Vertex, o *token.Token, e ast.Vertex) ast.Vertex {
		return &ast.ExprAssignMinus{Var: v, EqualTkn: o, Expr: e}
	}},
	{token.T_MUL_EQUAL, "*=", false, func(v ast.Vertex, o *token.Token, e ast.Vertex) ast.Vertex {
		return &ast.ExprAssignMul{Var: v, EqualTkn: o, Expr: e}
	}},
	{token.T_POW_EQUAL, "**=", false, func(v ast.Vertex, o *token.Token, e ast.Vertex) ast.Vertex {
		return &ast.ExprAssignPow{Var: v, EqualTkn: o, Expr: e}
	}},
	{token.T_DIV_EQUAL, "/=", false, func(v ast.Vertex, o *token.Token, e ast.Vertex) ast.Vertex {
		return &ast.ExprAssignDiv{Var: v, EqualTkn: o, Expr: e}
	}},
	{token.T_CONCAT_EQUAL, ".=", false, func(v ast.Vertex, o *token.Token, e ast.Vertex) ast.Vertex {
		return &ast.ExprAssignConcat{Var: v, EqualTkn: o, Expr: e}
	}},
	{token.T_MOD_EQUAL, "%=", false, func(v ast.Vertex, o *token.Token, e ast.Vertex) ast.Vertex {
		return &ast.ExprAssignMod{Var: v, EqualTkn: o, Expr: e}
	}},
	{token.T_AND_EQUAL, "&=", false, func(v ast.Vertex, o *token.Token, e ast.Vertex) ast.Vertex {
		return &ast.ExprAssignBitwiseAnd{Var: v, EqualTkn: o, Expr: e}
	}},
	{token.T_OR_EQUAL, "|=", false, func(v ast.Vertex, o *token.Token, e ast.Vertex) ast.Vertex {
		return &ast.ExprAssignBitwiseOr{Var: v, EqualTkn: o, Expr: e}
	}},
	{token.T_XOR_EQUAL, "^=", false, func(v ast.Vertex, o *token.Token, e ast.Vertex) ast.Vertex {
		return &ast.ExprAssignBitwiseXor{Var: v, EqualTkn: o, Expr: e}
	}},
	{token.T_SL_EQUAL, "<<=", false, func(v ast.Vertex, o *token.Token, e ast.Vertex) ast.Vertex {
		return &ast.ExprAssignShiftLeft{Var: v, EqualTkn: o, Expr: e}
	}},
	{token.T_SR_EQUAL, ">>=", false, func(v ast.Vertex, o *token.Token, e ast.Vertex) ast.Vertex {
		return &ast.ExprAssignShiftRight{Var: v, EqualTkn: o, Expr: e}
	}},
	{token.T_COALESCE_EQUAL, "??=", true, func(v ast.Vertex, o *token.Token, e ast.Vertex) ast.Vertex {
		return &ast.ExprAssignCoalesce{Var: v, EqualTkn: o, Expr: e}
	}},
}

// info classifies an expression node for the bracketing rules.
type info struct {
	shape shape
	prec  int
	assoc assoc
}

var binInfo = map[string]info{}

func init() {
	for _, b := range binOps {
		n := b.mk(nil, nil, nil)
		binInfo[kindOf(n)] = info{sBinary, b.prec, b.assoc}
	}
}

func kindOf(n ast.Vertex) string {
	// cheap type name without importing astx (keeps phpgen independent)
	switch n.(type) {
	case nil:
		return ""
	}
	return typeName(n)
}

// exprInfo returns the bracketing class of n.
func exprInfo(n ast.Vertex) info {
	if i, ok := binInfo[kindOf(n)]; ok {
		return i
	}
	switch n.(type) {
	case *ast.ExprAssign, *ast.ExprAssignReference, *ast.ExprAssignBitwiseAnd, *ast.ExprAssignBitwiseOr, *ast.ExprAssignBitwiseXor,
		*ast.ExprAssignCoalesce, *ast.ExprAssignConcat, *ast.ExprAssignDiv, *ast.ExprAssignMinus, *ast.ExprAssignMod, *ast.ExprAssignMul,
		*ast.ExprAssignPlus, *ast.ExprAssignPow, *ast.ExprAssignShiftLeft, *ast.ExprAssignShiftRight:
		return info{sPrefix, pAssign, aRight}
	case *ast.ExprTernary:
		return info{sTernary, pTernary, aLeft}
	case *ast.ExprInstanceOf:
		return info{sBinary, pInstance, aNone}
	case *ast.ExprBooleanNot:
		return info{sPrefix, pNot, aRight}
	case *ast.ExprBitwiseNot, *ast.ExprUnaryMinus, *ast.ExprUnaryPlus, *ast.ExprErrorSuppress, *ast.ExprPreInc, *ast.ExprPreDec,
		*ast.ExprCastArray, *ast.ExprCastBool, *ast.ExprCastDouble, *ast.ExprCastInt, *ast.ExprCastObject, *ast.ExprCastString, *ast.ExprCastUnset:
		return info{sPrefix, pUnary, aRight}
	case *ast.ExprPrint:
		return info{sPrefix, pPrint, aRight}
	case *ast.ExprYield:
		return info{sPrefix, pYield, aRight}
	case *ast.ExprYieldFrom:
		return info{sPrefix, pYieldFr, aRight}
	case *ast.ExprArrowFunction:
		return info{sPrefix, pArrowFn, aRight}
	case *ast.ExprInclude, *ast.ExprIncludeOnce, *ast.ExprRequire, *ast.ExprRequireOnce:
		return info{sPrefix, pInclude, aRight}
	case *ast.ExprClone:
		return info{sPrefix, pClone, aRight}
	}
	return info{sAtom, pAtom, aNone}
}

// rightOperand returns the operand on the right edge of n (nil for atoms).
func rightOperand(n ast.Vertex) ast.Vertex {
	switch v := n.(type) {
	case *ast.ExprTernary:
		return v.IfFalse
	case *ast.ExprInstanceOf:
		return nil // class reference: never captures
	case *ast.ExprYield:
		if v.Val == nil {
			return nil
		}
		return v.Val
	}
	switch exprInfo(n).shape {
	case sBinary:
		return fieldVertex(n, "Right")
	case sPrefix:
		for _, f := range []string{"Expr", "Var"} {
			if c := fieldVertex(n, f); c != nil {
				if f == "Var" {
					// ++$a / --$a: a variable, never captures; assignments have Expr
					if _, ok := n.(*ast.ExprPreInc); ok {
						return nil
					}
					if _, ok := n.(*ast.ExprPreDec); ok {
						return nil
					}
					continue
				}
				return c
			}
		}
	}
	return nil
}

// spineMin is the loosest precedence of a prefix operator that is open on the
// unbracketed right edge of n: it would capture an operator written after n.
func spineMin(n ast.Vertex) int {
	m := pAtom
	for n != nil {
		i := exprInfo(n)
		if i.shape == sAtom {
			break
		}
		if i.shape == sPrefix && i.prec < m {
			m = i.prec
		}
		if y, ok := n.(*ast.ExprYield); ok && y.Val == nil {
			// bare "yield" followed by an operator would read the operator as the start of its operand
			return pInclude
		}
		n = rightOperand(n)
	}
	return m
}

type side int

const (
	left side = iota
	right
)

// needBrackets decides whether operand c of an operator with (prec, assoc)
// must be written in parentheses on the given side to keep the model's grouping.
func needBrackets(c ast.Vertex, prec int, as assoc, s side) bool {
	ci := exprInfo(c)
	switch ci.shape {
	case sAtom:
		return false
	case sBinary, sTernary:
		if ci.prec < prec {
			return true
		}
		if ci.prec == prec {
			if as == aNone || (s == left && as != aLeft) || (s == right && as != aRight) {
				return true
			}
		}
		if s == left && spineMin(c) < prec {
			return true
		}
		return false
	case sPrefix:
		if s == left {
			return ci.prec < prec || spineMin(c) < prec
		}
		return false
	}
	return false
}

// Brackets wraps e in parentheses.
func (g *Gen) Brackets(e ast.Vertex) *ast.ExprBrackets {
	return &ast.ExprBrackets{OpenParenthesisTkn: g.ch('('), Expr: e, CloseParenthesisTkn: g.ch(')')}
}

// operand brackets c if the grouping requires it (or, with a small
// probability, although it does not: redundant brackets are legal).
func (g *Gen) operand(c ast.Vertex, prec int, as assoc, s side) ast.Vertex {
	if needBrackets(c, prec, as, s) {
		g.feat("brackets-required")
		return g.Brackets(c)
	}
	if exprInfo(c).shape != sAtom {
		g.feat("operators-adjacent-unbracketed")
	}
	return c
}

// prefixOperand prepares the operand of a prefix operator of precedence prec.
func (g *Gen) prefixOperand(c ast.Vertex, prec int) ast.Vertex {
	ci := exprInfo(c)
	switch ci.shape {
	case sBinary, sTernary:
		if ci.prec < prec {
			g.feat("brackets-required")
			return g.Brackets(c)
		}
		g.feat("operators-adjacent-unbracketed")
	case sPrefix:
		g.feat("operators-adjacent-unbracketed")
	}
	return c
}
