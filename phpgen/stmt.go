package phpgen

import (
	"strings"

	"bytes"

	"github.com/z7zmey/php-parser/pkg/ast"
	"github.com/z7zmey/php-parser/pkg/token"
)

// htmlTexts never start with a newline byte (a close tag swallows one) and never contain "<?".
var htmlTexts = []string{"html", "<b>x</b>\n", " text ", "a < b\n", "<p>\r\n</p>", "{", "}\n", "x\ry", "1 + 1", "#!x\n", "// not a comment\n", "<", "é\n", "$a", "\"", "'", "<!-- c -->", "\xef\xbb\xbf", "\xef\xbb\xbf\n", "\xff\xfe<\x00"}

// endsInCloseTag reports whether the token text ends with a close tag (with or without its newline).
func endsInCloseTag(t *token.Token) bool {
	if t == nil || t.ID != token.ID(';') {
		return false
	}
	v := bytes.TrimRight(t.Value, "\r\n")
	return bytes.HasSuffix(v, []byte("?>"))
}

// semi draws a statement terminator: ";" or one of the close-tag spellings the lexer folds into it.
// altSemi terminates an alternative-syntax statement (endif; endwhile; ...).
func (g *Gen) altSemi() *token.Token {
	if g.O.NoAltCloseTag {
		return g.ch(';')
	}
	return g.semi()
}

func (g *Gen) semi() *token.Token {
	if !g.O.NoHTML && g.inClass == 0 && g.chance(1, 14, "closetag") {
		g.feat("close-tag-terminator")
		lex := g.pick("closetag", "?>", "?>\n", "?>\r\n", "?>\r", "; ?>", ";\n?>\n", ";?>", ";\t\r\n ?>\r\n", ";\r?>")
		if g.O.NoLoneCR && (lex == "?>\r" || lex == ";\r?>") {
			g.Excl["lone-cr-newline"]++
			lex = "?>\n"
		}
		return g.tok(token.ID(';'), lex)
	}
	return g.ch(';')
}

// inlineHTML draws inline HTML. nlOK says that the text may start with a line break: at the start
// of the file, or behind a close tag that has already taken its own line break ("?>\n").
func (g *Gen) inlineHTML(nlOK bool) *ast.StmtInlineHtml {
	s := htmlTexts[g.intn(len(htmlTexts), "html")]
	if nlOK && g.chance(1, 3, "htmlnl") {
		// a blank line between two PHP blocks of a template, or text that is only a line break
		g.feat("inline-html-starts-with-newline")
		switch g.intn(4, "htmlnlkind") {
		case 0:
			s = g.pick("onlynl", "\n", "\r\n", "\n\n")
		default:
			s = g.pick("leadnl", "\n", "\r\n", "\n\n", "\n \n") + s
		}
	}
	g.feat("inline-html")
	t := g.tok(token.T_INLINE_HTML, s)
	g.setGap(t, GapNone)
	return &ast.StmtInlineHtml{InlineHtmlTkn: t, Value: []byte(s)}
}

// afterHTMLFix: inline HTML that follows a close tag without newline must not
// start with a newline byte (handled by construction of htmlTexts); HTML that
// follows "?>\r" must not start with "\n" (none does).

// StmtList draws a statement list for a body (function body, block, case body, top level).
func (g *Gen) StmtList(min, max int, top bool) []ast.Vertex {
	n := g.rng(min, max, "nstmts")
	if g.depth > g.O.MaxDepth {
		n = min
	}
	var out []ast.Vertex
	html := top // the file starts in HTML mode
	for i := 0; i < n; i++ {
		if html && !g.O.NoHTML && g.chance(1, 3, "echotag") {
			e := g.echoStmt(true)
			out = append(out, e)
			html = endsInCloseTag(lastToken(e))
			continue
		}
		s := g.Stmt(top)
		out = append(out, s)
		html = false
		lt := lastToken(s)
		if !g.O.NoHTML && g.inClass == 0 && lt != nil && (lt.ID == token.ID('}') || lt.ID == token.ID(':')) && !g.O.NoAltCloseTag && g.chance(1, 10, "nopclose") {
			// "?>" after a statement that does not end in ";" is an empty statement of its own
			g.feat("stmt:nop-close-tag")
			nop := &ast.StmtNop{SemiColonTkn: g.tok(token.ID(';'), g.pick("closetag", "?>", "?>\n", "?>\r\n"))}
			out = append(out, nop)
			lt = nop.SemiColonTkn
		}
		if endsInCloseTag(lt) {
			html = true
			if g.chance(2, 3, "htmlafterclose") {
				out = append(out, g.inlineHTML(bytes.HasSuffix(lt.Value, []byte("\n"))))
			}
		}
	}
	return out
}

func (g *Gen) block() *ast.StmtStmtList {
	return &ast.StmtStmtList{OpenCurlyBracketTkn: g.ch('{'), Stmts: g.StmtList(0, 3, false), CloseCurlyBracketTkn: g.ch('}')}
}

func (g *Gen) bracedBody() (*token.Token, []ast.Vertex, *token.Token) {
	return g.ch('{'), g.StmtList(0, 3, false), g.ch('}')
}

// openIf reports whether an "else" written directly after s would attach to an if inside s.
func openIf(s ast.Vertex) bool {
	switch v := s.(type) {
	case *ast.StmtIf:
		if v.ColonTkn != nil {
			return false
		}
		if v.Else != nil {
			return openIf(v.Else.(*ast.StmtElse).Stmt)
		}
		return true
	case *ast.StmtWhile:
		return v.ColonTkn == nil && openIf(v.Stmt)
	case *ast.StmtFor:
		return v.ColonTkn == nil && openIf(v.Stmt)
	case *ast.StmtForeach:
		return v.ColonTkn == nil && openIf(v.Stmt)
	case *ast.StmtDeclare:
		return v.ColonTkn == nil && v.Stmt != nil && openIf(v.Stmt)
	case *ast.StmtElse:
		return openIf(v.Stmt)
	}
	return false
}

// endsInAltIf reports whether s ends in an alternative-syntax if (directly or as the trailing body of plain-syntax statements).
func endsInAltIf(s ast.Vertex) bool {
	switch v := s.(type) {
	case *ast.StmtIf:
		if v.ColonTkn != nil {
			return true
		}
		if v.Else != nil {
			return endsInAltIf(v.Else.(*ast.StmtElse).Stmt)
		}
		if k := len(v.ElseIf); k > 0 {
			return endsInAltIf(v.ElseIf[k-1].(*ast.StmtElseIf).Stmt)
		}
		return endsInAltIf(v.Stmt)
	case *ast.StmtWhile:
		return v.ColonTkn == nil && endsInAltIf(v.Stmt)
	case *ast.StmtFor:
		return v.ColonTkn == nil && endsInAltIf(v.Stmt)
	case *ast.StmtForeach:
		return v.ColonTkn == nil && endsInAltIf(v.Stmt)
	case *ast.StmtDeclare:
		return v.ColonTkn == nil && v.Stmt != nil && endsInAltIf(v.Stmt)
	}
	return false
}

// body draws the body of a control structure: a block or a single statement.
func (g *Gen) ctlBody() ast.Vertex {
	if g.flip("blockbody") {
		return g.block()
	}
	g.feat("unbraced-body")
	return g.stmt(false, false)
}

// guardElse braces a body that would capture a following else.
func (g *Gen) guardElse(body ast.Vertex) ast.Vertex {
	if g.O.BraceAltIfBeforeElse && endsInAltIf(body) {
		g.Excl["formatter-dangling-else"]++
		return &ast.StmtStmtList{OpenCurlyBracketTkn: g.ch('{'), Stmts: []ast.Vertex{body}, CloseCurlyBracketTkn: g.ch('}')}
	}
	if openIf(body) {
		g.feat("dangling-else-guarded")
		return &ast.StmtStmtList{OpenCurlyBracketTkn: g.ch('{'), Stmts: []ast.Vertex{body}, CloseCurlyBracketTkn: g.ch('}')}
	}
	return body
}

func (g *Gen) altList() *ast.StmtStmtList {
	return &ast.StmtStmtList{Stmts: g.StmtList(0, 2, false)}
}

func (g *Gen) parenExpr() (*token.Token, ast.Vertex, *token.Token) {
	return g.ch('('), g.Expr(), g.ch(')')
}

func (g *Gen) ifStmt() ast.Vertex {
	n := &ast.StmtIf{IfTkn: g.kw(token.T_IF, "if")}
	n.OpenParenthesisTkn, n.Cond, n.CloseParenthesisTkn = g.parenExpr()
	if g.chance(1, 4, "altif") {
		g.feat("alt-syntax")
		n.ColonTkn = g.ch(':')
		n.Stmt = g.altList()
		k := g.count(0, 2, "elseifs")
		for i := 0; i < k; i++ {
			e := &ast.StmtElseIf{ElseIfTkn: g.kw(token.T_ELSEIF, "elseif"), ColonTkn: g.ch(':')}
			e.OpenParenthesisTkn, e.Cond, e.CloseParenthesisTkn = g.parenExpr()
			e.Stmt = g.altList()
			n.ElseIf = append(n.ElseIf, e)
		}
		if g.flip("else") {
			n.Else = &ast.StmtElse{ElseTkn: g.kw(token.T_ELSE, "else"), ColonTkn: g.ch(':'), Stmt: g.altList()}
		}
		// a plain "if" at the end of a body would capture the elseif/else that follows the body
		bodies := []*ast.StmtStmtList{n.Stmt.(*ast.StmtStmtList)}
		for _, e := range n.ElseIf {
			bodies = append(bodies, e.(*ast.StmtElseIf).Stmt.(*ast.StmtStmtList))
		}
		followers := len(n.ElseIf)
		if n.Else != nil {
			followers++
		}
		for i := 0; i < followers && i < len(bodies); i++ {
			b := bodies[i]
			if k := len(b.Stmts); k > 0 && openIf(b.Stmts[k-1]) {
				b.Stmts[k-1] = g.guardElse(b.Stmts[k-1])
			}
		}
		n.EndIfTkn = g.kw(token.T_ENDIF, "endif")
		n.SemiColonTkn = g.altSemi()
		return n
	}
	n.Stmt = g.ctlBody()
	k := g.count(0, 2, "elseifs")
	hasElse := g.flip("else")
	for i := 0; i < k; i++ {
		e := &ast.StmtElseIf{ElseIfTkn: g.kw(token.T_ELSEIF, "elseif")}
		e.OpenParenthesisTkn, e.Cond, e.CloseParenthesisTkn = g.parenExpr()
		e.Stmt = g.ctlBody()
		n.ElseIf = append(n.ElseIf, e)
	}
	if hasElse {
		e := &ast.StmtElse{ElseTkn: g.kw(token.T_ELSE, "else")}
		if g.chance(1, 3, "elsespaceif") {
			g.feat("else-if")
			e.Stmt = g.ifStmtPlain()
		} else {
			e.Stmt = g.ctlBody()
		}
		n.Else = e
	}
	// dangling else: every body that is followed by elseif/else must not end in an open if
	followers := len(n.ElseIf) > 0 || n.Else != nil
	if followers {
		if openIf(n.Stmt) || (g.O.BraceAltIfBeforeElse && endsInAltIf(n.Stmt)) {
			n.Stmt = g.guardElse(n.Stmt)
		} else if _, isIf := n.Stmt.(*ast.StmtIf); isIf {
			g.feat("dangling-else-nearest")
		}
		for i, ev := range n.ElseIf {
			e := ev.(*ast.StmtElseIf)
			if i < len(n.ElseIf)-1 || n.Else != nil {
				e.Stmt = g.guardElse(e.Stmt)
			}
		}
	} else if inner, isIf := n.Stmt.(*ast.StmtIf); isIf && inner.Else != nil {
		g.feat("dangling-else-nearest")
	}
	return n
}

// ifStmtPlain is a brace/plain-syntax if (used after "else ").
func (g *Gen) ifStmtPlain() ast.Vertex {
	n := &ast.StmtIf{IfTkn: g.kw(token.T_IF, "if")}
	n.OpenParenthesisTkn, n.Cond, n.CloseParenthesisTkn = g.parenExpr()
	n.Stmt = g.ctlBody()
	if g.flip("else") {
		n.Stmt = g.guardElse(n.Stmt)
		n.Else = &ast.StmtElse{ElseTkn: g.kw(token.T_ELSE, "else"), Stmt: g.ctlBody()}
	}
	return n
}

func (g *Gen) exprList(min, max int) ([]ast.Vertex, []*token.Token) {
	n := g.count(min, max, "nexprs")
	var xs []ast.Vertex
	var seps []*token.Token
	for i := 0; i < n; i++ {
		xs = append(xs, g.Expr())
		if i < n-1 {
			seps = append(seps, g.ch(','))
		}
	}
	return xs, seps
}

func (g *Gen) echoStmt(tag bool) ast.Vertex {
	n := &ast.StmtEcho{}
	if tag {
		g.feat("echo-tag")
		n.EchoTkn = g.tok(token.T_ECHO, "<?=")
	} else {
		n.EchoTkn = g.kw(token.T_ECHO, "echo")
	}
	n.Exprs, n.SeparatorTkns = g.exprList(1, 3)
	if tag && g.chance(3, 4, "echotagclose") {
		n.SemiColonTkn = g.tok(token.ID(';'), g.pick("closetag", "?>", "?>\n", "?>\r\n", "; ?>"))
	} else {
		n.SemiColonTkn = g.semi()
	}
	return n
}

func (g *Gen) loopBody() ast.Vertex {
	g.inLoop++
	defer func() { g.inLoop-- }()
	return g.ctlBody()
}

func (g *Gen) loopAlt() *ast.StmtStmtList {
	g.inLoop++
	defer func() { g.inLoop-- }()
	return g.altList()
}

// Stmt draws one statement.
func (g *Gen) Stmt(top bool) ast.Vertex { return g.stmt(top, true) }

// stmt draws a statement; decl=false excludes declarations (function, class,
// interface, trait), which PHP allows only directly inside statement lists,
// not as the unbraced body of a control structure.
func (g *Gen) stmt(top, decl bool) ast.Vertex {
	g.depth++
	defer func() { g.depth-- }()
	max := 34
	if g.depth > g.O.MaxDepth {
		return &ast.StmtExpression{Expr: g.Expr(), SemiColonTkn: g.semi()}
	}
	kind := g.intn(max, "stmtkind")
	if !decl && kind >= 23 && kind <= 27 {
		kind = 0
	}
	switch kind {
	case 0, 1, 2, 3, 4:
		g.feat("stmt:expression")
		return &ast.StmtExpression{Expr: g.Expr(), SemiColonTkn: g.semi()}
	case 5:
		g.feat("stmt:echo")
		return g.echoStmt(false)
	case 6, 7:
		g.feat("stmt:if")
		return g.ifStmt()
	case 8:
		g.feat("stmt:while")
		n := &ast.StmtWhile{WhileTkn: g.kw(token.T_WHILE, "while")}
		n.OpenParenthesisTkn, n.Cond, n.CloseParenthesisTkn = g.parenExpr()
		if g.chance(1, 4, "alt") {
			g.feat("alt-syntax")
			n.ColonTkn, n.Stmt, n.EndWhileTkn, n.SemiColonTkn = g.ch(':'), g.loopAlt(), g.kw(token.T_ENDWHILE, "endwhile"), g.altSemi()
		} else {
			n.Stmt = g.loopBody()
		}
		return n
	case 9:
		g.feat("stmt:do")
		n := &ast.StmtDo{DoTkn: g.kw(token.T_DO, "do"), Stmt: g.loopBody(), WhileTkn: g.kw(token.T_WHILE, "while")}
		n.OpenParenthesisTkn, n.Cond, n.CloseParenthesisTkn = g.parenExpr()
		n.SemiColonTkn = g.semi()
		return n
	case 10:
		g.feat("stmt:for")
		n := &ast.StmtFor{ForTkn: g.kw(token.T_FOR, "for"), OpenParenthesisTkn: g.ch('('), InitSemiColonTkn: g.ch(';'), CondSemiColonTkn: g.ch(';'), CloseParenthesisTkn: g.ch(')')}
		n.Init, n.InitSeparatorTkns = g.exprList(0, 2)
		n.Cond, n.CondSeparatorTkns = g.exprList(0, 2)
		n.Loop, n.LoopSeparatorTkns = g.exprList(0, 2)
		if g.chance(1, 4, "alt") {
			g.feat("alt-syntax")
			n.ColonTkn, n.Stmt, n.EndForTkn, n.SemiColonTkn = g.ch(':'), g.loopAlt(), g.kw(token.T_ENDFOR, "endfor"), g.altSemi()
		} else {
			n.Stmt = g.loopBody()
		}
		return n
	case 11:
		g.feat("stmt:foreach")
		n := &ast.StmtForeach{ForeachTkn: g.kw(token.T_FOREACH, "foreach"), OpenParenthesisTkn: g.ch('('), Expr: g.Expr(), AsTkn: g.kw(token.T_AS, "as"), CloseParenthesisTkn: g.ch(')')}
		if g.flip("key") {
			n.Key, n.DoubleArrowTkn = g.Variable(1, true), g.tok(token.T_DOUBLE_ARROW, "=>")
		}
		switch g.intn(4, "foreachvar") {
		case 0:
			n.AmpersandTkn, n.Var = g.ch('&'), g.Variable(1, true)
			g.feat("foreach-ref")
		case 1:
			g.listInForeach = true
			n.Var = g.listTarget(0)
			g.listInForeach = false
			g.feat("foreach-list")
		default:
			n.Var = g.Variable(1, true)
		}
		if g.chance(1, 4, "alt") {
			g.feat("alt-syntax")
			n.ColonTkn, n.Stmt, n.EndForeachTkn, n.SemiColonTkn = g.ch(':'), g.loopAlt(), g.kw(token.T_ENDFOREACH, "endforeach"), g.altSemi()
		} else {
			n.Stmt = g.loopBody()
		}
		return n
	case 12:
		g.feat("stmt:switch")
		return g.switchStmt()
	case 13:
		g.feat("stmt:break-continue")
		var lvl ast.Vertex
		if g.chance(1, 3, "level") {
			lvl = g.SmallInt()
		}
		if g.flip("break") {
			return &ast.StmtBreak{BreakTkn: g.kw(token.T_BREAK, "break"), Expr: lvl, SemiColonTkn: g.semi()}
		}
		return &ast.StmtContinue{ContinueTkn: g.kw(token.T_CONTINUE, "continue"), Expr: lvl, SemiColonTkn: g.semi()}
	case 14:
		g.feat("stmt:return")
		n := &ast.StmtReturn{ReturnTkn: g.kw(token.T_RETURN, "return")}
		if g.chance(3, 4, "retval") {
			n.Expr = g.Expr()
		}
		n.SemiColonTkn = g.semi()
		return n
	case 15:
		g.feat("stmt:try")
		return g.tryStmt()
	case 16:
		g.feat("stmt:throw")
		return &ast.StmtThrow{ThrowTkn: g.kw(token.T_THROW, "throw"), Expr: g.Expr(), SemiColonTkn: g.semi()}
	case 17:
		g.feat("stmt:global")
		n := &ast.StmtGlobal{GlobalTkn: g.kw(token.T_GLOBAL, "global")}
		k := g.count(1, 3, "nglobals")
		for i := 0; i < k; i++ {
			switch g.intn(5, "globalvar") {
			case 0:
				n.Vars = append(n.Vars, g.indirectVar(1))
			case 1:
				n.Vars = append(n.Vars, &ast.ExprVariable{DollarTkn: g.ch('$'), OpenCurlyBracketTkn: g.ch('{'), Name: g.Expr(), CloseCurlyBracketTkn: g.ch('}')})
			default:
				n.Vars = append(n.Vars, g.simpleVar())
			}
			if i < k-1 {
				n.SeparatorTkns = append(n.SeparatorTkns, g.ch(','))
			}
		}
		n.SemiColonTkn = g.semi()
		return n
	case 18:
		g.feat("stmt:static")
		n := &ast.StmtStatic{StaticTkn: g.kw(token.T_STATIC, "static")}
		k := g.count(1, 3, "nstatics")
		for i := 0; i < k; i++ {
			v := &ast.StmtStaticVar{Var: g.simpleVar()}
			if g.flip("init") {
				v.EqualTkn, v.Expr = g.ch('='), g.ConstExpr()
			}
			n.Vars = append(n.Vars, v)
			if i < k-1 {
				n.SeparatorTkns = append(n.SeparatorTkns, g.ch(','))
			}
		}
		n.SemiColonTkn = g.semi()
		return n
	case 19:
		g.feat("stmt:unset")
		n := &ast.StmtUnset{UnsetTkn: g.kw(token.T_UNSET, "unset"), OpenParenthesisTkn: g.ch('('), CloseParenthesisTkn: g.ch(')')}
		k := g.count(1, 3, "nunset")
		for i := 0; i < k; i++ {
			n.Vars = append(n.Vars, g.Variable(2, true))
			if i < k-1 {
				n.SeparatorTkns = append(n.SeparatorTkns, g.ch(','))
			}
		}
		if g.O.PHP7 && !g.O.Common && g.chance(1, 5, "unsettrail") {
			n.SeparatorTkns = append(n.SeparatorTkns, g.ch(','))
			g.feat("trailing-comma")
		}
		n.SemiColonTkn = g.semi()
		return n
	case 20:
		g.feat("stmt:block")
		return g.block()
	case 21:
		g.feat("stmt:nop")
		return &ast.StmtNop{SemiColonTkn: g.ch(';')}
	case 22:
		g.feat("stmt:declare")
		return g.declareStmt()
	case 23:
		g.feat("stmt:function")
		return g.functionDecl()
	case 24, 25:
		g.feat("stmt:class")
		return g.classDecl(false)
	case 26:
		g.feat("stmt:interface")
		return g.interfaceDecl()
	case 27:
		g.feat("stmt:trait")
		return g.traitDecl()
	case 28:
		if !g.O.PHP7 && g.O.NoPHP5Goto {
			g.Excl["php5-goto"]++
			return &ast.StmtNop{SemiColonTkn: g.ch(';')}
		}
		g.feat("stmt:goto")
		return &ast.StmtGoto{GotoTkn: g.kw(token.T_GOTO, "goto"), Label: g.Ident(g.plainName()), SemiColonTkn: g.semi()}
	case 29:
		g.feat("stmt:label")
		return &ast.StmtLabel{Name: g.Ident(g.plainName()), ColonTkn: g.ch(':')}
	case 30:
		if top || g.inFunc > 0 || g.inClass > 0 {
			g.feat("stmt:const")
			if top {
				return g.constList()
			}
		}
		return &ast.StmtExpression{Expr: g.assign(), SemiColonTkn: g.semi()}
	case 31:
		if g.inFunc > 0 {
			g.feat("stmt:yield")
			y := g.yield()
			if g.flip("assignyield") {
				if yy, ok := y.(*ast.ExprYield); (!g.O.PHP7 || g.O.Common) && !(ok && yy.Val == nil) {
					// PHP 5: yield on the right-hand side of an assignment must be parenthesised
					y = g.Brackets(y)
				}
				return &ast.StmtExpression{Expr: &ast.ExprAssign{Var: g.simpleVar(), EqualTkn: g.ch('='), Expr: y}, SemiColonTkn: g.semi()}
			}
			return &ast.StmtExpression{Expr: y, SemiColonTkn: g.semi()}
		}
		return &ast.StmtExpression{Expr: g.callLike(), SemiColonTkn: g.semi()}
	default:
		g.feat("stmt:expression")
		return &ast.StmtExpression{Expr: g.Expr(), SemiColonTkn: g.semi()}
	}
}

func (g *Gen) switchStmt() ast.Vertex {
	n := &ast.StmtSwitch{SwitchTkn: g.kw(token.T_SWITCH, "switch")}
	n.OpenParenthesisTkn, n.Cond, n.CloseParenthesisTkn = g.parenExpr()
	alt := g.chance(1, 4, "alt")
	if alt {
		g.feat("alt-syntax")
		n.ColonTkn = g.ch(':')
	} else {
		n.OpenCurlyBracketTkn = g.ch('{')
	}
	if g.chance(1, 6, "leadingsemi") {
		n.CaseSeparatorTkn = g.ch(';')
		g.feat("switch-leading-semicolon")
	}
	k := g.count(0, 3, "ncases")
	g.inLoop++
	for i := 0; i < k; i++ {
		sep := g.ch(':')
		if g.chance(1, 5, "casesemi") {
			sep = g.ch(';')
		}
		var lead []ast.Vertex
		if !g.O.NoHTML && !g.O.NoAltCloseTag && g.inClass == 0 && g.chance(1, 10, "caseclosetag") {
			// ";" may be spelled as a close tag here too: "case 1 ?>text<?php break;" (templates)
			g.feat("case-separator-close-tag")
			sep = g.tok(token.ID(';'), g.pick("closetag", "?>", "?>\n", "; ?>", "?>\r\n"))
			if g.chance(2, 3, "htmlafterclose") {
				lead = []ast.Vertex{g.inlineHTML(bytes.HasSuffix(sep.Value, []byte("\n")))}
			}
		}
		if g.chance(1, 4, "default") {
			n.Cases = append(n.Cases, &ast.StmtDefault{DefaultTkn: g.kw(token.T_DEFAULT, "default"), CaseSeparatorTkn: sep, Stmts: append(lead, g.StmtList(0, 2, false)...)})
		} else {
			n.Cases = append(n.Cases, &ast.StmtCase{CaseTkn: g.kw(token.T_CASE, "case"), Cond: g.Expr(), CaseSeparatorTkn: sep, Stmts: append(lead, g.StmtList(0, 2, false)...)})
		}
	}
	g.inLoop--
	if alt {
		n.EndSwitchTkn, n.SemiColonTkn = g.kw(token.T_ENDSWITCH, "endswitch"), g.altSemi()
	} else {
		n.CloseCurlyBracketTkn = g.ch('}')
	}
	return n
}

func (g *Gen) tryStmt() ast.Vertex {
	n := &ast.StmtTry{TryTkn: g.kw(token.T_TRY, "try")}
	n.OpenCurlyBracketTkn, n.Stmts, n.CloseCurlyBracketTkn = g.bracedBody()
	k := g.count(0, 2, "ncatch")
	fin := g.flip("finally")
	if k == 0 && !fin {
		k = 1
	}
	for i := 0; i < k; i++ {
		c := &ast.StmtCatch{CatchTkn: g.kw(token.T_CATCH, "catch"), OpenParenthesisTkn: g.ch('('), Var: g.simpleVar(), CloseParenthesisTkn: g.ch(')')}
		nt := 1
		if g.O.PHP7 && !g.O.Common && g.chance(1, 3, "multicatch") {
			nt = g.count(2, 3, "ntypes")
			g.feat("multi-catch")
		}
		for j := 0; j < nt; j++ {
			c.Types = append(c.Types, g.Name())
			if j < nt-1 {
				c.SeparatorTkns = append(c.SeparatorTkns, g.ch('|'))
			}
		}
		c.OpenCurlyBracketTkn, c.Stmts, c.CloseCurlyBracketTkn = g.bracedBody()
		n.Catches = append(n.Catches, c)
	}
	if fin {
		f := &ast.StmtFinally{FinallyTkn: g.kw(token.T_FINALLY, "finally")}
		f.OpenCurlyBracketTkn, f.Stmts, f.CloseCurlyBracketTkn = g.bracedBody()
		n.Finally = f
	}
	return n
}

func (g *Gen) declareStmt() ast.Vertex {
	n := &ast.StmtDeclare{DeclareTkn: g.kw(token.T_DECLARE, "declare"), OpenParenthesisTkn: g.ch('('), CloseParenthesisTkn: g.ch(')')}
	k := g.count(1, 2, "ndeclare")
	for i := 0; i < k; i++ {
		n.Consts = append(n.Consts, &ast.StmtConstant{Name: g.Ident(g.pick("directive", "ticks", "strict_types", "encoding")), EqualTkn: g.ch('='), Expr: g.SmallInt()})
		if i < k-1 {
			n.SeparatorTkns = append(n.SeparatorTkns, g.ch(','))
		}
	}
	switch g.intn(4, "declareform") {
	case 0:
		n.Stmt = &ast.StmtNop{SemiColonTkn: g.semi()}
	case 1:
		g.feat("alt-syntax")
		n.ColonTkn, n.Stmt, n.EndDeclareTkn, n.SemiColonTkn = g.ch(':'), g.altList(), g.kw(token.T_ENDDECLARE, "enddeclare"), g.altSemi()
	case 2:
		n.Stmt = g.block()
	default:
		n.Stmt = g.stmt(false, false)
	}
	return n
}

func (g *Gen) constList() ast.Vertex {
	n := &ast.StmtConstList{ConstTkn: g.kw(token.T_CONST, "const")}
	k := g.count(1, 2, "nconst")
	for i := 0; i < k; i++ {
		n.Consts = append(n.Consts, &ast.StmtConstant{Name: g.Ident(g.plainName()), EqualTkn: g.ch('='), Expr: g.ConstExpr()})
		if i < k-1 {
			n.SeparatorTkns = append(n.SeparatorTkns, g.ch(','))
		}
	}
	n.SemiColonTkn = g.semi()
	return n
}

// Type draws a parameter / return / property type.
func (g *Gen) Type(ret bool) ast.Vertex {
	var t ast.Vertex
	switch g.intn(6, "type") {
	case 0:
		t = g.identTok(g.kw(token.T_ARRAY, "array"))
	case 1:
		t = g.identTok(g.kw(token.T_CALLABLE, "callable"))
	case 2:
		if g.O.PHP7 && !g.O.Common {
			t = g.NameOf(g.spell(g.pick("scalar", "int", "string", "bool", "float", "iterable", "object", "self")))
			if ret && g.chance(1, 3, "void") {
				return g.NameOf("void")
			}
		} else {
			t = g.NameOf(g.spell("self"))
		}
	default:
		t = g.Name()
	}
	if g.O.PHP7 && !g.O.Common && g.chance(1, 4, "nullable") {
		g.feat("nullable-type")
		return &ast.Nullable{QuestionTkn: g.ch('?'), Expr: t}
	}
	return t
}

// Params draws a parameter list.
func (g *Gen) Params() ([]ast.Vertex, []*token.Token) {
	n := g.count(0, 3, "nparams")
	var ps []ast.Vertex
	var seps []*token.Token
	for i := 0; i < n; i++ {
		p := &ast.Parameter{Var: g.simpleVar()}
		if g.chance(1, 2, "typed") {
			p.Type = g.Type(false)
		}
		if g.chance(1, 5, "byref") {
			p.AmpersandTkn = g.ch('&')
			g.feat("param-ref")
		}
		if i == n-1 && g.chance(1, 4, "variadic") {
			p.VariadicTkn = g.tok(token.T_ELLIPSIS, "...")
			g.feat("param-variadic")
		} else if g.chance(1, 3, "default") {
			p.EqualTkn, p.DefaultValue = g.ch('='), g.ConstExpr()
		}
		ps = append(ps, p)
		if i < n-1 {
			seps = append(seps, g.ch(','))
		}
	}
	return ps, seps
}

func (g *Gen) funcBody() (*token.Token, []ast.Vertex, *token.Token) {
	g.inFunc++
	saveLoop, saveClass := g.inLoop, g.inClass
	g.inLoop, g.inClass = 0, 0
	defer func() { g.inFunc--; g.inLoop, g.inClass = saveLoop, saveClass }()
	return g.bracedBody()
}

func (g *Gen) returnType() (*token.Token, ast.Vertex) {
	if g.O.PHP7 && !g.O.Common && g.chance(1, 3, "returntype") {
		g.feat("return-type")
		return g.ch(':'), g.Type(true)
	}
	return nil, nil
}

func (g *Gen) functionDecl() ast.Vertex {
	n := &ast.StmtFunction{FunctionTkn: g.kw(token.T_FUNCTION, "function"), Name: g.Ident(g.plainName()), OpenParenthesisTkn: g.ch('('), CloseParenthesisTkn: g.ch(')')}
	if g.chance(1, 6, "refreturn") {
		n.AmpersandTkn = g.ch('&')
	}
	n.Params, n.SeparatorTkns = g.Params()
	n.ColonTkn, n.ReturnType = g.returnType()
	n.OpenCurlyBracketTkn, n.Stmts, n.CloseCurlyBracketTkn = g.funcBody()
	return n
}

func (g *Gen) closure() ast.Vertex {
	g.feat("closure")
	g.depth++
	defer func() { g.depth-- }()
	n := &ast.ExprClosure{FunctionTkn: g.kw(token.T_FUNCTION, "function"), OpenParenthesisTkn: g.ch('('), CloseParenthesisTkn: g.ch(')')}
	if g.chance(1, 5, "staticclosure") {
		n.StaticTkn = g.kw(token.T_STATIC, "static")
	}
	if g.chance(1, 6, "refreturn") {
		n.AmpersandTkn = g.ch('&')
	}
	n.Params, n.SeparatorTkns = g.Params()
	if g.chance(1, 2, "use") {
		g.feat("closure-use")
		n.UseTkn, n.UseOpenParenthesisTkn, n.UseCloseParenthesisTkn = g.kw(token.T_USE, "use"), g.ch('('), g.ch(')')
		k := g.count(1, 3, "nuses")
		for i := 0; i < k; i++ {
			u := &ast.ExprClosureUse{Var: g.simpleVar()}
			if g.chance(1, 3, "useref") {
				u.AmpersandTkn = g.ch('&')
			}
			n.Uses = append(n.Uses, u)
			if i < k-1 {
				n.UseSeparatorTkns = append(n.UseSeparatorTkns, g.ch(','))
			}
		}
	}
	n.ColonTkn, n.ReturnType = g.returnType()
	n.OpenCurlyBracketTkn, n.Stmts, n.CloseCurlyBracketTkn = g.funcBody()
	return n
}

func (g *Gen) arrowFn() ast.Vertex {
	g.feat("arrow-function")
	n := &ast.ExprArrowFunction{FnTkn: g.kw(token.T_FN, "fn"), OpenParenthesisTkn: g.ch('('), CloseParenthesisTkn: g.ch(')'), DoubleArrowTkn: g.tok(token.T_DOUBLE_ARROW, "=>")}
	if g.chance(1, 5, "staticfn") {
		n.StaticTkn = g.kw(token.T_STATIC, "static")
	}
	if g.chance(1, 6, "refreturn") {
		n.AmpersandTkn = g.ch('&')
	}
	n.Params, n.SeparatorTkns = g.Params()
	n.ColonTkn, n.ReturnType = g.returnType()
	g.inFunc++
	n.Expr = g.prefixOperand(g.Expr(), pArrowFn)
	g.inFunc--
	return n
}

func (g *Gen) modifier(id token.ID, s string) ast.Vertex { return g.identTok(g.kw(id, s)) }

func (g *Gen) visibility() ast.Vertex {
	switch g.intn(3, "visibility") {
	case 0:
		return g.modifier(token.T_PUBLIC, "public")
	case 1:
		return g.modifier(token.T_PROTECTED, "protected")
	}
	return g.modifier(token.T_PRIVATE, "private")
}

func (g *Gen) nameList(min, max int) ([]ast.Vertex, []*token.Token) {
	n := g.count(min, max, "nnames")
	var xs []ast.Vertex
	var seps []*token.Token
	for i := 0; i < n; i++ {
		xs = append(xs, g.Name())
		if i < n-1 {
			seps = append(seps, g.ch(','))
		}
	}
	return xs, seps
}

// classDecl draws a class declaration or (anonymous) the class part of "new class".
func (g *Gen) classDecl(anonymous bool) *ast.StmtClass {
	n := &ast.StmtClass{ClassTkn: g.kw(token.T_CLASS, "class")}
	abstract := false
	if !anonymous {
		n.Name = g.Ident(g.plainName())
		switch g.intn(5, "classmod") {
		case 0:
			n.Modifiers = []ast.Vertex{g.modifier(token.T_ABSTRACT, "abstract")}
			abstract = true
		case 1:
			n.Modifiers = []ast.Vertex{g.modifier(token.T_FINAL, "final")}
		}
	} else if g.flip("anonargs") {
		n.OpenParenthesisTkn, n.CloseParenthesisTkn = g.ch('('), g.ch(')')
		n.Args, n.SeparatorTkns = g.Args()
	}
	if g.chance(1, 3, "extends") {
		n.ExtendsTkn, n.Extends = g.kw(token.T_EXTENDS, "extends"), g.Name()
	}
	if g.chance(1, 3, "implements") {
		n.ImplementsTkn = g.kw(token.T_IMPLEMENTS, "implements")
		n.Implements, n.ImplementsSeparatorTkns = g.nameList(1, 3)
	}
	n.OpenCurlyBracketTkn = g.ch('{')
	n.Stmts = g.members(abstract, false)
	n.CloseCurlyBracketTkn = g.ch('}')
	return n
}

func (g *Gen) interfaceDecl() ast.Vertex {
	n := &ast.StmtInterface{InterfaceTkn: g.kw(token.T_INTERFACE, "interface"), Name: g.Ident(g.plainName())}
	if g.flip("extends") {
		n.ExtendsTkn = g.kw(token.T_EXTENDS, "extends")
		n.Extends, n.ExtendsSeparatorTkns = g.nameList(1, 3)
	}
	n.OpenCurlyBracketTkn = g.ch('{')
	n.Stmts = g.members(false, true)
	n.CloseCurlyBracketTkn = g.ch('}')
	return n
}

func (g *Gen) traitDecl() ast.Vertex {
	n := &ast.StmtTrait{TraitTkn: g.kw(token.T_TRAIT, "trait"), Name: g.Ident(g.plainName()), OpenCurlyBracketTkn: g.ch('{')}
	n.Stmts = g.members(true, false)
	n.CloseCurlyBracketTkn = g.ch('}')
	return n
}

// members draws class members.
func (g *Gen) members(allowAbstract, iface bool) []ast.Vertex {
	g.inClass++
	defer func() { g.inClass-- }()
	k := g.rng(0, 4, "nmembers")
	if g.depth > g.O.MaxDepth {
		k = g.rng(0, 1, "nmembers-deep")
	}
	var out []ast.Vertex
	for i := 0; i < k; i++ {
		choice := g.intn(6, "member")
		if iface && (choice == 2 || choice == 3 || choice == 4) {
			choice = 0
		}
		switch choice {
		case 0, 1:
			out = append(out, g.method(allowAbstract, iface))
		case 2, 3:
			g.feat("member:property")
			p := &ast.StmtPropertyList{}
			switch g.intn(5, "propmods") {
			case 0:
				p.Modifiers = []ast.Vertex{g.modifier(token.T_VAR, "var")}
			case 1:
				p.Modifiers = g.shuffled([]ast.Vertex{g.visibility(), g.modifier(token.T_STATIC, "static")}, 2)
			case 2:
				p.Modifiers = []ast.Vertex{g.modifier(token.T_STATIC, "static")}
			default:
				p.Modifiers = []ast.Vertex{g.visibility()}
			}
			if g.O.PHP7 && !g.O.Common && g.chance(1, 3, "typedprop") {
				p.Type = g.Type(false)
				g.feat("typed-property")
			}
			kk := g.count(1, 2, "nprops")
			for j := 0; j < kk; j++ {
				sp := &ast.StmtProperty{Var: g.simpleVar()}
				if g.flip("propinit") {
					sp.EqualTkn, sp.Expr = g.ch('='), g.ConstExpr()
				}
				p.Props = append(p.Props, sp)
				if j < kk-1 {
					p.SeparatorTkns = append(p.SeparatorTkns, g.ch(','))
				}
			}
			p.SemiColonTkn = g.ch(';')
			out = append(out, p)
		case 4:
			g.feat("member:trait-use")
			out = append(out, g.traitUse())
		default:
			g.feat("member:const")
			c := &ast.StmtClassConstList{ConstTkn: g.kw(token.T_CONST, "const")}
			if g.O.PHP7 && !g.O.Common && g.chance(1, 2, "constvis") {
				c.Modifiers = []ast.Vertex{g.visibility()}
				g.feat("const-visibility")
			}
			kk := g.count(1, 2, "nconsts")
			for j := 0; j < kk; j++ {
				c.Consts = append(c.Consts, &ast.StmtConstant{Name: g.declMemberName(), EqualTkn: g.ch('='), Expr: g.ConstExpr()})
				if j < kk-1 {
					c.SeparatorTkns = append(c.SeparatorTkns, g.ch(','))
				}
			}
			c.SemiColonTkn = g.ch(';')
			out = append(out, c)
		}
	}
	return out
}

// shuffled returns k of the given nodes in a drawn order.
func (g *Gen) shuffled(xs []ast.Vertex, k int) []ast.Vertex {
	out := append([]ast.Vertex{}, xs...)
	for i := len(out) - 1; i > 0; i-- {
		j := g.intn(i+1, "shuffle")
		out[i], out[j] = out[j], out[i]
	}
	if k < len(out) {
		out = out[:k]
	}
	return out
}

func (g *Gen) method(allowAbstract, iface bool) ast.Vertex {
	g.feat("member:method")
	m := &ast.StmtClassMethod{FunctionTkn: g.kw(token.T_FUNCTION, "function"), OpenParenthesisTkn: g.ch('('), CloseParenthesisTkn: g.ch(')')}
	abstract := iface
	switch g.intn(6, "methodmods") {
	case 0:
	case 1:
		m.Modifiers = []ast.Vertex{g.visibility(), g.modifier(token.T_STATIC, "static")}
	case 2:
		if allowAbstract && !iface {
			m.Modifiers = []ast.Vertex{g.modifier(token.T_ABSTRACT, "abstract"), g.visibility()}
			abstract = true
		} else {
			m.Modifiers = []ast.Vertex{g.modifier(token.T_PUBLIC, "public")}
		}
	case 3:
		if !iface {
			m.Modifiers = []ast.Vertex{g.modifier(token.T_FINAL, "final"), g.visibility()}
		}
	case 4:
		// up to three modifiers in any order ("static final public function", "abstract static protected")
		if !iface {
			g.feat("modifiers:any-order")
			set := []ast.Vertex{g.visibility(), g.modifier(token.T_STATIC, "static")}
			if allowAbstract && g.chance(1, 2, "abstractinset") {
				set = append(set, g.modifier(token.T_ABSTRACT, "abstract"))
				abstract = true
			} else {
				set = append(set, g.modifier(token.T_FINAL, "final"))
			}
			m.Modifiers = g.shuffled(set, g.rng(2, 3, "nmods"))
			abstract = false
			for _, x := range m.Modifiers {
				if strings.EqualFold(string(x.(*ast.Identifier).Value), "abstract") {
					abstract = true
				}
			}
			break
		}
		m.Modifiers = g.shuffled([]ast.Vertex{g.modifier(token.T_PUBLIC, "public"), g.modifier(token.T_STATIC, "static")}, 2)
	default:
		if iface {
			m.Modifiers = []ast.Vertex{g.modifier(token.T_PUBLIC, "public")}
		} else {
			m.Modifiers = []ast.Vertex{g.visibility()}
		}
	}
	if g.chance(1, 6, "refreturn") {
		m.AmpersandTkn = g.ch('&')
	}
	if g.O.PHP7 && !g.O.Common && g.chance(1, 6, "kwmethod") {
		m.Name = g.kwIdent(true)
	} else {
		m.Name = g.Ident(g.pick("methodname", "__construct", "run", "getX", "__get", "Foo", "handle"))
	}
	m.Params, m.SeparatorTkns = g.Params()
	m.ColonTkn, m.ReturnType = g.returnType()
	if abstract {
		m.Stmt = &ast.StmtNop{SemiColonTkn: g.ch(';')}
	} else {
		b := &ast.StmtStmtList{}
		b.OpenCurlyBracketTkn, b.Stmts, b.CloseCurlyBracketTkn = g.funcBody()
		m.Stmt = b
	}
	return m
}

// declMemberName draws a class-constant / method-reference name: a plain identifier or, under PHP 7,
// any semi-reserved word.
func (g *Gen) declMemberName() *ast.Identifier {
	if g.O.PHP7 && !g.O.Common && g.chance(1, 6, "kwmember") {
		return g.kwIdent(true)
	}
	return g.Ident(g.plainName())
}

func (g *Gen) traitUse() ast.Vertex {
	n := &ast.StmtTraitUse{UseTkn: g.kw(token.T_USE, "use")}
	n.Traits, n.SeparatorTkns = g.nameList(1, 3)
	if g.chance(1, 2, "adaptations") {
		g.feat("trait-adaptations")
		n.OpenCurlyBracketTkn, n.CloseCurlyBracketTkn = g.ch('{'), g.ch('}')
		k := g.count(0, 3, "nadapt")
		for i := 0; i < k; i++ {
			if g.chance(1, 3, "precedence") {
				p := &ast.StmtTraitUsePrecedence{Trait: g.Name(), DoubleColonTkn: g.tok(token.T_PAAMAYIM_NEKUDOTAYIM, "::"), Method: g.declMemberName(), InsteadofTkn: g.kw(token.T_INSTEADOF, "insteadof"), SemiColonTkn: g.ch(';')}
				p.Insteadof, p.SeparatorTkns = g.nameList(1, 2)
				n.Adaptations = append(n.Adaptations, p)
				continue
			}
			a := &ast.StmtTraitUseAlias{Method: g.declMemberName(), AsTkn: g.kw(token.T_AS, "as"), SemiColonTkn: g.ch(';')}
			if g.flip("qualified") {
				a.Trait, a.DoubleColonTkn = g.Name(), g.tok(token.T_PAAMAYIM_NEKUDOTAYIM, "::")
			}
			switch g.intn(3, "aliasform") {
			case 0:
				a.Modifier = g.visibility()
			case 1:
				a.Modifier, a.Alias = g.visibility(), g.declMemberName()
			default:
				// "as" directly followed by a word: only reserved_non_modifiers (a modifier word would be the modifier)
				if g.O.PHP7 && !g.O.Common && g.chance(1, 6, "kwalias") {
					a.Alias = g.kwIdent(false)
				} else {
					a.Alias = g.Ident(g.plainName())
				}
			}
			n.Adaptations = append(n.Adaptations, a)
		}
	} else {
		n.SemiColonTkn = g.ch(';')
	}
	return n
}

// useDecl draws one use declaration (Name with optional alias, optional per-item kind).
func (g *Gen) useDecl(itemKind bool, leadingSep bool) *ast.StmtUse {
	u := &ast.StmtUse{Use: g.PlainName()}
	if itemKind && g.chance(1, 3, "itemkind") {
		if g.flip("fn") {
			u.Type = g.identTok(g.kw(token.T_FUNCTION, "function"))
		} else {
			u.Type = g.identTok(g.kw(token.T_CONST, "const"))
		}
	}
	if leadingSep && g.chance(1, 4, "leadingsep") {
		u.NsSeparatorTkn = g.tok(token.T_NS_SEPARATOR, "\\")
	}
	if g.chance(1, 3, "alias") {
		u.AsTkn, u.Alias = g.kw(token.T_AS, "as"), g.Ident(g.plainName())
	}
	return u
}

func (g *Gen) useStmt() ast.Vertex {
	var kind ast.Vertex
	switch g.intn(4, "usekind") {
	case 0:
		kind = g.identTok(g.kw(token.T_FUNCTION, "function"))
	case 1:
		kind = g.identTok(g.kw(token.T_CONST, "const"))
	}
	if g.O.PHP7 && !g.O.Common && g.chance(1, 3, "groupuse") {
		g.feat("group-use")
		n := &ast.StmtGroupUseList{UseTkn: g.kw(token.T_USE, "use"), Type: kind, Prefix: g.PlainName(), NsSeparatorTkn: g.tok(token.T_NS_SEPARATOR, "\\"), OpenCurlyBracketTkn: g.ch('{'), CloseCurlyBracketTkn: g.ch('}'), SemiColonTkn: g.semi()}
		if g.chance(1, 4, "leadingsep") {
			n.LeadingNsSeparatorTkn = g.tok(token.T_NS_SEPARATOR, "\\")
		}
		k := g.count(1, 3, "nuses")
		for i := 0; i < k; i++ {
			n.Uses = append(n.Uses, g.useDecl(kind == nil, false))
			if i < k-1 {
				n.SeparatorTkns = append(n.SeparatorTkns, g.ch(','))
			}
		}
		if g.chance(1, 5, "grouptrail") {
			n.SeparatorTkns = append(n.SeparatorTkns, g.ch(','))
			g.feat("trailing-comma")
		}
		return n
	}
	g.feat("use")
	n := &ast.StmtUseList{UseTkn: g.kw(token.T_USE, "use"), Type: kind, SemiColonTkn: g.semi()}
	k := g.count(1, 3, "nuses")
	for i := 0; i < k; i++ {
		n.Uses = append(n.Uses, g.useDecl(false, true))
		if i < k-1 {
			n.SeparatorTkns = append(n.SeparatorTkns, g.ch(','))
		}
	}
	return n
}

// Program draws a whole file.
func (g *Gen) Program(minStmts, maxStmts int) *ast.Root {
	root := &ast.Root{EndTkn: &token.Token{}}
	if g.chance(1, 10, "chainprogram") {
		// a program of member / dimension / call chains only: the variable grammar (in particular
		// PHP 5's, which assembles chains from link lists with special cases per link position)
		// needs long chains, which ordinary expressions rarely contain
		g.feat("chain-program")
		for i, k := 0, g.rng(1, 3, "nchains"); i < k; i++ {
			var e ast.Vertex = g.Variable(6, false)
			if g.chance(1, 4, "chainassign") {
				e = &ast.ExprAssign{Var: g.Variable(5, true), EqualTkn: g.ch('='), Expr: e}
			}
			st := &ast.StmtExpression{Expr: e, SemiColonTkn: g.semi()}
			root.Stmts = append(root.Stmts, st)
			if endsInCloseTag(st.SemiColonTkn) && g.chance(2, 3, "htmlafterclose") {
				root.Stmts = append(root.Stmts, g.inlineHTML(bytes.HasSuffix(st.SemiColonTkn.Value, []byte("\n"))))
			}
		}
		return root
	}
	if !g.O.NoDeep && g.chance(1, 30, "deepprogram") {
		g.feat("deep-program")
		root.Stmts = g.DeepStatements()
		return root
	}
	if !g.O.NoDeep && g.chance(1, 40, "wideprogram") {
		g.feat("wide-program")
		root.Stmts = []ast.Vertex{g.WideStatement()}
		if g.flip("secondwide") {
			root.Stmts = append(root.Stmts, g.WideStatement())
		}
		return root
	}
	switch g.intn(6, "nsmode") {
	case 0:
		// semicolon-style namespaces
		g.feat("namespace-semicolon")
		k := g.rng(1, 2, "nns")
		for i := 0; i < k; i++ {
			// the declaration may end in a close tag like any statement ("namespace App ?>" + template text)
			ns := &ast.StmtNamespace{NsTkn: g.kw(token.T_NAMESPACE, "namespace"), Name: g.PlainName(), SemiColonTkn: g.semi()}
			root.Stmts = append(root.Stmts, ns)
			if endsInCloseTag(ns.SemiColonTkn) {
				g.feat("namespace-declaration-close-tag")
				if g.chance(2, 3, "htmlafterclose") {
					root.Stmts = append(root.Stmts, g.inlineHTML(bytes.HasSuffix(ns.SemiColonTkn.Value, []byte("\n"))))
				}
			}
			if g.flip("uses") {
				root.Stmts = append(root.Stmts, g.useStmt())
			}
			g.appendTop(root, g.StmtList(minStmts, maxStmts, false))
		}
	case 1:
		g.feat("namespace-braced")
		k := g.rng(1, 2, "nns")
		for i := 0; i < k; i++ {
			ns := &ast.StmtNamespace{NsTkn: g.kw(token.T_NAMESPACE, "namespace"), OpenCurlyBracketTkn: g.ch('{'), CloseCurlyBracketTkn: g.ch('}')}
			if g.chance(3, 4, "named") {
				ns.Name = g.PlainName()
			}
			if g.flip("uses") {
				ns.Stmts = append(ns.Stmts, g.useStmt())
			}
			ns.Stmts = append(ns.Stmts, g.StmtList(minStmts, maxStmts, false)...)
			root.Stmts = append(root.Stmts, ns)
		}
	default:
		if g.chance(1, 4, "uses") {
			root.Stmts = append(root.Stmts, g.useStmt())
			g.appendTop(root, g.StmtList(minStmts, maxStmts, false))
		} else {
			root.Stmts = g.StmtList(minStmts, maxStmts, true)
		}
	}
	if len(g.O.LeadHTML) == 0 && !g.O.NoHTML && g.chance(1, 6, "leadhtml") {
		// a template: text before the first open tag
		h := g.inlineHTML(true)
		if bytes.HasPrefix(h.Value, []byte("#!")) && bytes.IndexByte(h.Value, '\n') >= 0 {
			// the first line of a file that starts with "#!" is a shebang line, not text; a second such
			// line is text again (layout puts the real shebang line in front when the policy has one)
			g.LeadHashBang = true
		}
		g.feat("lead-html")
		root.Stmts = append([]ast.Vertex{h}, root.Stmts...)
	}
	if len(g.O.LeadHTML) > 0 {
		t := g.tok(token.T_INLINE_HTML, string(g.O.LeadHTML))
		g.setGap(t, GapNone)
		g.feat("lead-html-padding")
		root.Stmts = append([]ast.Vertex{&ast.StmtInlineHtml{InlineHtmlTkn: t, Value: t.Value}}, root.Stmts...)
	}
	if !g.O.NoHalt && g.chance(1, 12, "halt") {
		last := lastToken(root)
		if last == nil || !endsInCloseTag(last) {
			if _, isHTML := lastStmt(root).(*ast.StmtInlineHtml); !isHTML {
				g.feat("halt-compiler")
				h := &ast.StmtHaltCompiler{HaltCompilerTkn: g.kw(token.T_HALT_COMPILER, "__halt_compiler"), OpenParenthesisTkn: g.setGap(g.ch('('), GapWS), CloseParenthesisTkn: g.setGap(g.ch(')'), GapWS), SemiColonTkn: g.setGap(g.ch(';'), GapWS)}
				root.Stmts = append(root.Stmts, h)
				g.HaltTail = []byte(g.pick("halttail", "", " raw data", "\x00\x01\xff binary <?php echo 1; ?>", "\nline1\r\nline2\r", "?>"))
			}
		}
	}
	return root
}

func lastStmt(r *ast.Root) ast.Vertex {
	if len(r.Stmts) == 0 {
		return nil
	}
	return r.Stmts[len(r.Stmts)-1]
}

func (g *Gen) appendTop(root *ast.Root, stmts []ast.Vertex) {
	root.Stmts = append(root.Stmts, stmts...)
}
