<?php "$a"; } $r1 = 1; $r2 = 2; $r3 = 3; sentinel_9f ( 1 ) ; echo 2;
