<?php "x $a->b->c $d->e[0] $f[1]->g"; echo <<<A
$a->b->c
A;
