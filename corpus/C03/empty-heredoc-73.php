<?php <<<A
A;
