<?php $a = <<<EOT
x
EOT
 or $b; foo(<<<EOT
y
EOT
);