<?php $x = <<<'EOT'
raw $name {$y}
EOT;
