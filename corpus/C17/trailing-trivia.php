<?php echo 1;


