<?php echo <<<X
EOT
X;
echo <<<'Y'
 EOT;
EOT_
Y;
