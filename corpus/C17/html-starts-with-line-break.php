<?php echo 1; ?>

more<?php echo 2; ?>

<?php echo 3;