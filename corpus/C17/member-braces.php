<?php $a->{$b}[0]; $a->{$b}(); A::{$c}(); unset(${<<<'EOT'
x
EOT
});