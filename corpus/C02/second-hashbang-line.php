#!/usr/bin/env php
#!x
<?php echo 1;