<? <<<CAD
CAD;
