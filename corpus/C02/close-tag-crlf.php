<?php echo 1 ?>
html<?php echo 2;
?>
<b>