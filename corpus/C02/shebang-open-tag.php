#!/usr/bin/env php
<?php echo 1;