// C09 — Version selection is exact and only matters where the languages differ.
package c09

import (
	"fmt"
	"math"
	"strconv"
	"strings"
	"testing"

	"github.com/z7zmey/php-parser/pkg/ast"
	"github.com/z7zmey/php-parser/pkg/conf"
	"github.com/z7zmey/php-parser/pkg/parser"
	"github.com/z7zmey/php-parser/pkg/version"
	"pgregory.net/rapid"

	"verif/astx"
	"verif/harness"
	"verif/inputs"
	"verif/phpgen"
	"verif/progs"
	"verif/px"
)

func TestMain(m *testing.M) { harness.Main(m, "C09") }

// supported is the specification table, written here independently of the two copies in the library.
func supported(major, minor uint64) bool {
	return (major == 5 && minor <= 6) || (major == 7 && minor <= 4)
}

var probeSrc = []byte("<?php echo <<<A\n  x\n  A;\n")

func checkPair(t *testing.T, major, minor uint64) bool {
	v := &version.Version{Major: major, Minor: minor}
	harness.Eval()
	want := supported(major, minor)
	valid := v.Validate() == nil
	name := fmt.Sprintf("%d.%d", major, minor)
	if valid != want {
		harness.Failf(t, "validate", []byte(name), map[string]string{"version": name}, "Version{%s}.Validate() accepts=%v, the supported set (5.0-5.6, 7.0-7.4) says %v", name, valid, want)
		return false
	}
	var root ast.Vertex
	var err error
	if p := px.Guard(func() {
		root, err = parser.Parse(probeSrc, conf.Config{Version: v})
	}); p != "" {
		harness.Failf(t, "parse-panic", []byte(name), map[string]string{"version": name}, "Parse panicked for version %s: %s", name, p)
		return false
	}
	if want {
		if err != nil {
			harness.Failf(t, "supported-rejected", []byte(name), map[string]string{"version": name}, "Parse rejects supported version %s: %v", name, err)
			return false
		}
	} else {
		if err != parser.ErrVersionOutOfRange {
			harness.Failf(t, "unsupported-accepted", []byte(name), map[string]string{"version": name}, "Parse with unsupported version %s returns err=%v, want ErrVersionOutOfRange", name, err)
			return false
		}
		if !astx.IsNil(root) {
			harness.Failf(t, "unsupported-tree", []byte(name), map[string]string{"version": name}, "Parse with unsupported version %s returned a tree", name)
			return false
		}
	}
	harness.NonTrivial([]byte("grid/"+name), "version "+name+" supported="+fmt.Sprint(want))
	return true
}

func TestVersionGrid(t *testing.T) {
	if harness.Shard() != 0 {
		t.Skip("shard 0 only")
	}
	vals := []uint64{}
	for i := uint64(0); i <= 12; i++ {
		vals = append(vals, i)
	}
	vals = append(vals, 13, 63, 64, 1<<32+5, 1<<32+7)
	vals = append(vals, orderingThresholds...)
	for _, k := range []uint{8, 16, 32, 63} {
		for _, d := range []uint64{4, 5, 6, 7} {
			vals = append(vals, 1<<k+d) // a value that truncates to 5 or 7 (or a neighbour) at that width
		}
	}
	for _, ma := range vals {
		for _, mi := range vals {
			if !checkPair(t, ma, mi) {
				return
			}
		}
	}
	// every minor up to 300 for the small majors (packed or decimal-string comparisons carry at 10, 100, 256)
	for ma := uint64(0); ma <= 13; ma++ {
		for mi := uint64(13); mi <= 300; mi++ {
			if !checkPair(t, ma, mi) {
				return
			}
		}
	}
	harness.Exhaustive("(major, minor) in V x V with V = {0..13, 63, 64, decimal and binary thresholds up to 2^64-1, 2^k+{4..7} for k = 8, 16, 32, 63}, plus majors 0..13 x minors 0..300")
}

// TestDefaultVersion: an omitted version means 7.4, on inputs that tell 7.4 from 7.2 and from 5.6.
func TestDefaultVersion(t *testing.T) {
	harness.Check(t, "default-version", 3000, 100000, func(rt *rapid.T) {
		var src []byte
		if rapid.Bool().Draw(rt, "gen") {
			c := progs.Draw(rt, px.V74, progs.StructuralOptions(px.V74), 1, 3)
			src = c.G.Render(c.Root, progs.Policy(rt, phpgen.PolicySpace, nil)).Src
		} else {
			src, _ = inputs.Any(rt)
		}
		def := px.ParseV(src, nil, true)
		v74 := px.Parse(src, px.V74, true)
		harness.Eval()
		if def.Err != nil || def.Panic != "" {
			harness.Fail(rt, "default-version", src, nil, "Parse with an omitted version fails: err=%v panic=%s", def.Err, def.Panic)
		}
		if d := diff(def, v74); d != "" {
			harness.Fail(rt, "default-version", src, nil, "omitted version does not behave as 7.4: %s", d)
		}
		if strings.Contains(string(src), "<<<") || strings.Contains(string(src), "fn") || strings.Contains(string(src), "??") {
			harness.NonTrivial(src, fmt.Sprintf("[default vs 7.4] %q", trunc(src, 200)))
		}
	})
}

func diff(a, b px.Result) string {
	if (a.Root == nil) != (b.Root == nil) {
		return fmt.Sprintf("one returns a tree, the other does not (errors %d vs %d)", len(a.Errs), len(b.Errs))
	}
	if a.Root != nil {
		if d := astx.Equal(a.Root, b.Root, astx.WithTokens|astx.WithPositions); d != "" {
			return "trees differ: " + d
		}
	}
	if ea, eb := px.ErrString(a.Errs), px.ErrString(b.Errs); ea != eb {
		return fmt.Sprintf("errors differ:\n%s---\n%s", ea, eb)
	}
	return ""
}

var groups = [][]px.Ver{
	{{5, 0}, {5, 1}, {5, 2}, {5, 3}, {5, 4}, {5, 5}, {5, 6}},
	{{7, 0}, {7, 1}, {7, 2}},
	{{7, 3}, {7, 4}},
}

// TestSameSideVersions: two versions of one family on the same side of the 7.3 change agree on every input.
func TestSameSideVersions(t *testing.T) {
	harness.Check(t, "same-side", 30000, 1000000, func(rt *rapid.T) {
		g := rapid.SampledFrom(groups).Draw(rt, "group")
		i := rapid.IntRange(0, len(g)-1).Draw(rt, "a")
		j := rapid.IntRange(0, len(g)-2).Draw(rt, "b")
		if j >= i {
			j++
		}
		var src []byte
		class := ""
		switch rapid.IntRange(0, 3).Draw(rt, "srckind") {
		case 0:
			c := progs.Draw(rt, g[i], progs.StructuralOptions(g[i]), 1, 3)
			src = c.G.Render(c.Root, progs.Policy(rt, phpgen.PolicyFull, nil)).Src
			class = "generated"
		case 1:
			// heredoc-centred soup: labels, indentation, terminators in odd places
			var b strings.Builder
			b.WriteString("<?php ")
			n := rapid.IntRange(1, 8).Draw(rt, "n")
			for k := 0; k < n; k++ {
				b.WriteString(rapid.SampledFrom([]string{"$a = <<<A\n", "<<<'A'\n", "<<<\"A\"\n", "A", "A;", "A;\n", "  A", "\tA, 1);", "\n", "x\n", " A\n", "A1\n", "AA\n", "$b {$c}\n", "foo(", ");", ";\n", "A . 'x';\n", "\r\n", "B\n", "<<<B\n", "  B;\n"}).Draw(rt, "piece"))
			}
			src = []byte(b.String())
			class = "heredoc-soup"
		default:
			src, class = inputs.Any(rt)
		}
		a, b := px.Parse(src, g[i], true), px.Parse(src, g[j], true)
		harness.EvalN(2)
		harness.Class("src=" + class)
		if a.Panic != "" || b.Panic != "" {
			return // C01
		}
		if d := diff(a, b); d != "" {
			harness.Fail(rt, "same-side", src, map[string]string{"versionA": g[i].String(), "versionB": g[j].String()}, "versions %s and %s (same family, same side of the 7.3 heredoc change) disagree: %s", g[i], g[j], d)
		}
		if strings.Contains(string(src), "<<<") || len(a.Errs) > 0 {
			harness.NonTrivial(append([]byte(g[i].String()+g[j].String()), src...), fmt.Sprintf("[%s vs %s errors=%d] %q", g[i], g[j], len(a.Errs), trunc(src, 200)))
		}
	})
}

func trunc(b []byte, n int) []byte {
	if len(b) > n {
		return b[:n]
	}
	return b
}

// TestVersionStrings: New succeeds exactly on two dot-separated decimal uint64 numbers.
func TestVersionStrings(t *testing.T) {
	harness.Check(t, "version-strings", 20000, 400000, func(rt *rapid.T) {
		var s string
		switch rapid.IntRange(0, 3).Draw(rt, "kind") {
		case 0:
			s = rapid.StringMatching(`[0-9]{1,22}\.[0-9]{1,22}`).Draw(rt, "wellformed")
		case 1:
			s = rapid.StringMatching(`0{0,3}[0-9]{1,3}\.0{0,3}[0-9]{1,3}`).Draw(rt, "leadingzeros")
		case 2:
			s = rapid.SampledFrom([]string{"", ".", "7", "7.", ".4", "7.4.1", "7..4", " 7.4", "7.4 ", "+7.4", "7.-4", "-7.4", "7,4", "a.b", "7.4a", "0x7.4", "7.4\n", "7. 4", "١.٢", "7.4.", "1e1.0", "18446744073709551616.0", "0.18446744073709551616", "18446744073709551615.18446744073709551615"}).Draw(rt, "malformed")
		default:
			s = rapid.StringOfN(rapid.RuneFrom([]rune("0123456789.+- x")), 0, 8, -1).Draw(rt, "soup")
		}
		harness.Eval()
		wantMajor, wantMinor, wantOK := refParse(s)
		var v *version.Version
		var err error
		if p := px.Guard(func() { v, err = version.New(s) }); p != "" {
			harness.Fail(rt, "version-strings", []byte(s), nil, "version.New(%q) panicked: %s", s, p)
		}
		if wantOK != (err == nil) {
			harness.Fail(rt, "version-strings", []byte(s), nil, "version.New(%q): err=%v, but the string %s two dot-separated decimal numbers", s, err, map[bool]string{true: "is", false: "is not"}[wantOK])
		}
		if wantOK && (v == nil || v.Major != wantMajor || v.Minor != wantMinor) {
			harness.Fail(rt, "version-strings", []byte(s), nil, "version.New(%q) = %+v, want {%d %d}", s, v, wantMajor, wantMinor)
		}
		if !wantOK || strings.HasPrefix(s, "0") {
			harness.NonTrivial([]byte("vs/"+s), fmt.Sprintf("version string %q ok=%v", s, wantOK))
		}
	})
}

// refParse: exactly MAJOR "." MINOR, both non-empty runs of ASCII digits that fit uint64.
func refParse(s string) (uint64, uint64, bool) {
	i := strings.IndexByte(s, '.')
	if i < 0 {
		return 0, 0, false
	}
	num := func(p string) (uint64, bool) {
		if p == "" {
			return 0, false
		}
		for _, c := range []byte(p) {
			if c < '0' || c > '9' {
				return 0, false
			}
		}
		v, err := strconv.ParseUint(p, 10, 64)
		return v, err == nil
	}
	a, ok1 := num(s[:i])
	b, ok2 := num(s[i+1:])
	return a, b, ok1 && ok2
}

// orderingThresholds: magnitudes at which packed / string-based / narrowed comparisons go wrong.
var orderingThresholds = []uint64{9, 10, 11, 19, 20, 99, 100, 101, 127, 128, 255, 256, 999, 1000, 1001, 9999, 10000, 10001, 32767, 32768, 65535, 65536, 99999, 100000,
	999999, 1000000, 1<<31 - 1, 1 << 31, 1<<32 - 1, 1 << 32, 1<<53 - 1, 1 << 53, 1<<63 - 1, 1 << 63, math.MaxUint64 - 1, math.MaxUint64}

// TestOrdering: Compare/Less/.../InRange agree with numeric tuple order.
func TestOrdering(t *testing.T) {
	harness.Check(t, "ordering", 20000, 400000, func(rt *rapid.T) {
		gen := rapid.OneOf(rapid.Uint64Range(0, 9), rapid.Uint64Range(0, 12), rapid.Uint64(), rapid.SampledFrom(orderingThresholds),
			rapid.Uint64Range(0, 70000), rapid.SampledFrom([]uint64{0, 1, 1<<32 - 1, 1 << 32, 1<<63 - 1, 1 << 63, math.MaxUint64}))
		mk := func(l string) *version.Version {
			return &version.Version{Major: gen.Draw(rt, l+"major"), Minor: gen.Draw(rt, l+"minor")}
		}
		a, b, c := mk("a"), mk("b"), mk("c")
		// neighbours: equal pairs, same major with adjacent minors, adjacent majors with a carry-sized minor
		switch rapid.IntRange(0, 7).Draw(rt, "relation") {
		case 0:
			b = &version.Version{Major: a.Major, Minor: a.Minor}
		case 1:
			b = &version.Version{Major: a.Major, Minor: a.Minor + 1}
		case 2:
			b = &version.Version{Major: a.Major + 1, Minor: 0}
			a.Minor = rapid.SampledFrom(orderingThresholds).Draw(rt, "carry")
		case 3:
			c = &version.Version{Major: b.Major, Minor: b.Minor} // InRange with start == end
		}
		harness.Eval()
		ref := func(x, y *version.Version) int {
			switch {
			case x.Major != y.Major:
				if x.Major < y.Major {
					return -1
				}
				return 1
			case x.Minor != y.Minor:
				if x.Minor < y.Minor {
					return -1
				}
				return 1
			}
			return 0
		}
		sign := func(i int) int {
			if i < 0 {
				return -1
			}
			if i > 0 {
				return 1
			}
			return 0
		}
		r := ref(a, b)
		fail := func(f string, args ...interface{}) {
			harness.Fail(rt, "ordering", []byte(fmt.Sprintf("%+v %+v %+v", a, b, c)), nil, f, args...)
		}
		if sign(a.Compare(b)) != r {
			fail("Compare(%+v, %+v) = %d, numeric order says %d", a, b, a.Compare(b), r)
		}
		if a.Less(b) != (r < 0) || a.LessOrEqual(b) != (r <= 0) || a.Greater(b) != (r > 0) || a.GreaterOrEqual(b) != (r >= 0) {
			fail("relational helpers disagree with numeric order for %+v, %+v (order %d): Less=%v LessOrEqual=%v Greater=%v GreaterOrEqual=%v", a, b, r, a.Less(b), a.LessOrEqual(b), a.Greater(b), a.GreaterOrEqual(b))
		}
		if sign(b.Compare(a)) != -r {
			fail("Compare is not antisymmetric for %+v, %+v", a, b)
		}
		want := ref(a, b) >= 0 && ref(a, c) <= 0
		if a.InRange(b, c) != want {
			fail("%+v.InRange(%+v, %+v) = %v, numeric order says %v", a, b, c, a.InRange(b, c), want)
		}
		if r != 0 {
			harness.NonTrivial([]byte(fmt.Sprintf("ord/%+v/%+v", a, b)), "")
		}
	})
}

// TestReplay re-evaluates a recorded case from the replay file alone: a version pair on a source
// (same-side), the omitted version on a source, a version string, a grid point, or an ordering triple.
func TestReplay(t *testing.T) {
	path := harness.ReplayPath()
	if path == "" {
		t.Skip("no VERIF_REPLAY")
	}
	vi, src, err := harness.LoadReplay(path)
	if err != nil {
		t.Fatal(err)
	}
	harness.Eval()
	pv := func(s string) (px.Ver, bool) {
		var v px.Ver
		n, _ := fmt.Sscanf(s, "%d.%d", &v.Major, &v.Minor)
		return v, n == 2
	}
	switch {
	case vi.Meta["history"] != "":
		// a version history: "New(7.4)" keeps a result, "New(x)!" is a malformed string, "parse" a parse
		type kept struct {
			s string
			v *version.Version
		}
		var all []kept
		for _, f := range strings.Fields(vi.Meta["history"]) {
			switch {
			case f == "parse":
				px.Parse([]byte("<?php echo <<<A\n  x\n  A;\n"), px.V74, true)
			case strings.HasPrefix(f, "New(") && strings.HasSuffix(f, ")!"):
				_, _ = version.New(f[4 : len(f)-2])
			case strings.HasPrefix(f, "New(") && strings.HasSuffix(f, ")"):
				s := f[4 : len(f)-1]
				if v, err := version.New(s); err == nil && v != nil {
					all = append(all, kept{s, v})
				}
			}
			for j, k := range all {
				if ma, mi, ok := refParse(k.s); ok && (k.v.Major != ma || k.v.Minor != mi) {
					harness.Failf(t, "version-history", src, vi.Meta, "the version obtained from %q (result #%d) reads %d.%d after the recorded history", k.s, j, k.v.Major, k.v.Minor)
					return
				}
			}
		}
	case vi.Meta["versionA"] != "":
		a, _ := pv(vi.Meta["versionA"])
		b, _ := pv(vi.Meta["versionB"])
		ra, rb := px.Parse(src, a, true), px.Parse(src, b, true)
		if ra.Panic == "" && rb.Panic == "" {
			if d := diff(ra, rb); d != "" {
				harness.Failf(t, "same-side", src, vi.Meta, "versions %s and %s disagree: %s", a, b, d)
			}
		}
	case strings.HasPrefix(vi.Check, "default-version"):
		def, v74 := px.ParseV(src, nil, true), px.Parse(src, px.V74, true)
		if def.Err != nil || def.Panic != "" {
			harness.Failf(t, "default-version", src, vi.Meta, "Parse with an omitted version fails: err=%v panic=%s", def.Err, def.Panic)
		} else if d := diff(def, v74); d != "" {
			harness.Failf(t, "default-version", src, vi.Meta, "omitted version does not behave as 7.4: %s", d)
		}
	case strings.HasPrefix(vi.Check, "version-strings"):
		s := string(src)
		wantMajor, wantMinor, wantOK := refParse(s)
		var v *version.Version
		var err error
		if p := px.Guard(func() { v, err = version.New(s) }); p != "" {
			harness.Failf(t, "version-strings", src, vi.Meta, "version.New(%q) panicked: %s", s, p)
		} else if wantOK != (err == nil) || (wantOK && (v == nil || v.Major != wantMajor || v.Minor != wantMinor)) {
			harness.Failf(t, "version-strings", src, vi.Meta, "version.New(%q) = %+v, err=%v; expected ok=%v {%d %d}", s, v, err, wantOK, wantMajor, wantMinor)
		}
	case vi.Meta["version"] != "":
		if v, ok := pv(vi.Meta["version"]); ok {
			checkPair(t, v.Major, v.Minor)
		}
	case strings.HasPrefix(vi.Check, "ordering"):
		var a, b, c version.Version
		if n, _ := fmt.Sscanf(string(src), "&{Major:%d Minor:%d} &{Major:%d Minor:%d} &{Major:%d Minor:%d}", &a.Major, &a.Minor, &b.Major, &b.Minor, &c.Major, &c.Minor); n == 6 {
			cmp := func(x, y *version.Version) int {
				switch {
				case x.Major != y.Major && x.Major < y.Major, x.Major == y.Major && x.Minor < y.Minor:
					return -1
				case x.Major == y.Major && x.Minor == y.Minor:
					return 0
				}
				return 1
			}
			sg := func(i int) int {
				if i < 0 {
					return -1
				}
				if i > 0 {
					return 1
				}
				return 0
			}
			r := cmp(&a, &b)
			if sg(a.Compare(&b)) != r || a.Less(&b) != (r < 0) || a.LessOrEqual(&b) != (r <= 0) || a.Greater(&b) != (r > 0) || a.GreaterOrEqual(&b) != (r >= 0) ||
				a.InRange(&b, &c) != (cmp(&a, &b) >= 0 && cmp(&a, &c) <= 0) {
				harness.Failf(t, "ordering", src, vi.Meta, "the ordering helpers disagree with numeric order for %+v %+v %+v", a, b, c)
			}
		}
	default:
		t.Skip("nothing to replay in this file (command-line cases are re-run by TestCLIVersionFlag)")
	}
}

// TestVersionHistory: a *Version obtained from a version string is a value of its own. A drawn history
// of New calls (well-formed strings from a pool of a few dozen, malformed ones in between, parses that
// make the library call New itself) keeps every result; after each step every earlier result must
// still be the pair its string denotes, and Compare between kept results must follow numeric order.
func TestVersionHistory(t *testing.T) {
	harness.Check(t, "version-history", 4000, 120000, func(rt *rapid.T) {
		type kept struct {
			s            string
			v            *version.Version
			major, minor uint64
		}
		var all []kept
		hist := ""
		n := rapid.IntRange(3, 40).Draw(rt, "steps")
		for i := 0; i < n; i++ {
			switch rapid.IntRange(0, 9).Draw(rt, "step") {
			case 0:
				// the library's own use of New (heredoc end detection) in between
				px.Parse([]byte("<?php echo <<<A\n  x\n  A;\n"), px.Ver{Major: 7, Minor: uint64(rapid.IntRange(0, 4).Draw(rt, "minor"))}, true)
				hist += " parse"
				continue
			case 1:
				s := rapid.SampledFrom([]string{"", "7", "7.", "a.b", "7.4.1", "-1.0"}).Draw(rt, "malformed")
				_, _ = version.New(s)
				hist += " New(" + s + ")!"
				continue
			}
			s := fmt.Sprintf("%d.%d", rapid.IntRange(0, 9).Draw(rt, "major"), rapid.IntRange(0, 12).Draw(rt, "minor"))
			if rapid.IntRange(0, 5).Draw(rt, "zeros") == 0 {
				s = "0" + s
			}
			major, minor, _ := refParse(s)
			var v *version.Version
			var err error
			if p := px.Guard(func() { v, err = version.New(s) }); p != "" || err != nil || v == nil {
				harness.Fail(rt, "version-history", []byte(hist+" New("+s+")"), nil, "version.New(%q) fails after history%s: %v %s", s, hist, err, p)
			}
			hist += " New(" + s + ")"
			all = append(all, kept{s, v, major, minor})
			harness.Eval()
			for j, k := range all {
				if k.v.Major != k.major || k.v.Minor != k.minor {
					harness.Fail(rt, "version-history", []byte(hist), map[string]string{"history": hist}, "after history%s the version obtained earlier from %q (result #%d) reads %d.%d", hist, k.s, j, k.v.Major, k.v.Minor)
				}
			}
			if len(all) >= 2 {
				a, b := all[rapid.IntRange(0, len(all)-1).Draw(rt, "a")], all[len(all)-1]
				want := 0
				switch {
				case a.major < b.major, a.major == b.major && a.minor < b.minor:
					want = -1
				case a.major > b.major, a.major == b.major && a.minor > b.minor:
					want = 1
				}
				got := a.v.Compare(b.v)
				if (got < 0) != (want < 0) || (got > 0) != (want > 0) {
					harness.Fail(rt, "version-history", []byte(hist), map[string]string{"history": hist}, "after history%s: Compare(%q, %q) = %d, numeric order says %d", hist, a.s, b.s, got, want)
				}
			}
		}
		if len(all) > 8 {
			harness.NonTrivial([]byte(hist), "version history:"+hist)
		}
		harness.Class("version-history")
	})
}
