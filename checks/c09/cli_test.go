package c09

import (
	"fmt"
	"strings"
	"testing"
	"time"

	"pgregory.net/rapid"

	"verif/cli"
	"verif/harness"
	"verif/px"
)

// cliProbe tells the versions apart: the heredoc's closing label is indented (accepted from 7.3 on,
// errors before), `??` and the arrow function are PHP 7 syntax.
const cliProbe = "<?php echo <<<A\n  x\n  A;\n$f = fn($x) => $x ?? 1;\n"

// TestCLIVersionFlag: the command-line tool's -phpver flag goes through the same version parsing and
// validation. A string is accepted exactly when it is two dot-separated decimal numbers naming a
// version in 5.0-5.6 or 7.0-7.4 (otherwise: an error message and exit status 1, nothing parsed), the
// errors reported for a probe file are those the library reports under that version, and without
// the flag the version is 7.4.
func TestCLIVersionFlag(t *testing.T) {
	bin := cli.Path()
	if bin == "" {
		t.Skip("no command-line binary (VERIF_CLI)")
	}
	dir, clean, err := cli.TempDir("c09-ver-")
	if err != nil {
		t.Skip("no scratch directory")
	}
	defer clean()
	if err := cli.WriteTree(dir, map[string][]byte{"probe.php": []byte(cliProbe)}); err != nil {
		t.Skip("cannot write scratch files")
	}
	errorLines := func(v px.Ver) []string {
		r := px.Parse([]byte(cliProbe), v, true)
		var out []string
		for _, e := range r.Errs {
			out = append(out, e.String())
		}
		return out
	}
	harness.Check(t, "cli-version-flag", 240, 6000, func(rt *rapid.T) {
		var s string
		omitted := false
		switch rapid.IntRange(0, 5).Draw(rt, "kind") {
		case 0:
			s = fmt.Sprintf("%d.%d", rapid.IntRange(0, 12).Draw(rt, "major"), rapid.IntRange(0, 12).Draw(rt, "minor"))
		case 1:
			s = rapid.StringMatching(`0{0,3}[0-9]{1,2}\.0{0,3}[0-9]{1,2}`).Draw(rt, "leadingzeros")
		case 2:
			s = rapid.SampledFrom([]string{"", ".", "7", "7.", ".4", "7.4.1", "7..4", " 7.4", "7.4 ", "+7.4", "7.-4", "-7.4", "7,4", "a.b", "7.4a", "0x7.4", "7.4\n", "7. 4", "7.4.", "1e1.0",
				"18446744073709551616.0", "18446744073709551621.4", "0.18446744073709551616", "4294967303.4", "7.4294967300", "5.7", "6.0", "7.5", "8.0", "4.9", "5.06", "07.04", "7.04", "7.40"}).Draw(rt, "special")
		case 3:
			s = rapid.StringOfN(rapid.RuneFrom([]rune("0123456789.+- x")), 0, 8, -1).Draw(rt, "soup")
		case 4:
			omitted = true
		default:
			v := rapid.SampledFrom(px.AllVersions).Draw(rt, "supported")
			s = v.String()
		}
		args := []string{"-e"}
		if !omitted {
			args = append(args, "-phpver="+s)
		}
		args = append(args, dir)
		res := cli.Run(bin, dir, 60*time.Second, nil, args...)
		harness.Eval()
		if res.Err != nil {
			rt.Skip("cannot start the binary")
		}
		in := []byte(s)
		mt := map[string]string{"phpver": s, "omitted": fmt.Sprint(omitted)}
		if res.TimedOut {
			harness.Fail(rt, "cli-hang", in, mt, "php-parser -phpver=%q did not finish within 60 s", s)
		}
		major, minor, ok := refParse(s)
		if omitted {
			major, minor, ok = 7, 4, true
		}
		want := ok && supported(major, minor)
		if !want {
			if res.Exit == 0 {
				harness.Fail(rt, "cli-version-accepted", in, mt, "php-parser -phpver=%q exits with status 0, but %q is not a supported version (5.0-5.6, 7.0-7.4 as MAJOR.MINOR): stderr %q", s, s, trunc(res.Stderr, 300))
			}
			if !strings.Contains(string(res.Stdout)+string(res.Stderr), "Error") {
				harness.Fail(rt, "cli-version-no-message", in, mt, "php-parser -phpver=%q exits with status %d without an error message", s, res.Exit)
			}
			if len(cli.PrefixedLines(res.Stderr, "==> ")) > 0 {
				harness.Fail(rt, "cli-version-parsed-anyway", in, mt, "php-parser -phpver=%q rejected the version but parsed the file all the same: %q", s, trunc(res.Stderr, 300))
			}
			harness.NonTrivial([]byte("cli/"+s), fmt.Sprintf("php-parser -phpver=%q must be rejected", s))
			return
		}
		if res.Exit != 0 {
			harness.Fail(rt, "cli-version-rejected", in, mt, "php-parser -phpver=%q (version %d.%d, supported) exits with status %d: %q %q", s, major, minor, res.Exit, trunc(res.Stdout, 200), trunc(res.Stderr, 200))
		}
		got := cli.PrefixedLines(res.Stderr, "==> ")
		exp := errorLines(px.Ver{Major: major, Minor: minor})
		sortStrings(exp)
		if strings.Join(got, "\n") != strings.Join(exp, "\n") {
			harness.Fail(rt, "cli-version-behaviour", in, mt, "php-parser -e -phpver=%q (omitted=%v) reports %q for the probe file, the library under %d.%d reports %q", s, omitted, got, major, minor, exp)
		}
		if omitted || strings.HasPrefix(s, "0") {
			harness.NonTrivial([]byte("cli/"+s+fmt.Sprint(omitted)), fmt.Sprintf("php-parser -phpver=%q omitted=%v behaves as %d.%d", s, omitted, major, minor))
		}
		harness.Class("cli-version-flag")
	})
}

func sortStrings(s []string) {
	for i := 1; i < len(s); i++ {
		for j := i; j > 0 && s[j] < s[j-1]; j-- {
			s[j], s[j-1] = s[j-1], s[j]
		}
	}
}
