package c14

import (
	"fmt"
	"strings"
)

// typeRef writes a parameter / return / property type.
func (b *builder) typeRef(what string) {
	if b.php7 && b.chance(1, 4, "nullable") {
		b.w("?")
		b.feats["pos:nullable"]++
	}
	if b.chance(1, 6, "arraytype") {
		b.w(b.pick("kwtype", "array", "callable")) // not names: never resolved
		return
	}
	b.ref(kClass, b.php7, what)
}

func (b *builder) params(what string) {
	b.w("(")
	n := b.intn(3, "nparams")
	for i := 0; i < n; i++ {
		if i > 0 {
			b.w(", ")
		}
		if b.chance(2, 3, "typed") {
			b.typeRef(what)
			b.w(" ")
		}
		fmt.Fprintf(&b.b, "$p%d", i)
	}
	b.w(")")
}

func (b *builder) returnType(what string) {
	if b.php7 && b.chance(1, 2, "rettype") {
		b.w(": ")
		b.typeRef(what)
	}
}

// expr writes an expression containing resolvable references, optionally
// inside a container expression (so that the name sits deep in the tree: the
// resolver only sees what the traverser reaches).
func (b *builder) expr() {
	b.depth++
	defer func() { b.depth-- }()
	if b.depth > 3 {
		b.exprCore()
		return
	}
	switch b.intn(14, "container") {
	case 0:
		b.feats["in:array"]++
		b.w("[")
		b.expr()
		b.w(", 'k' => ")
		b.expr()
		b.w("]")
	case 1:
		b.feats["in:ternary"]++
		b.w("($x ? ")
		b.expr()
		b.w(" : ")
		b.expr()
		b.w(")")
	case 2:
		if b.php7 {
			b.feats["in:anonymous-class-args"]++
			b.w("new class(")
			b.expr()
			b.w(") extends ")
			b.ref(kClass, false, "extends")
			b.w(" { }")
			return
		}
		b.exprCore()
	case 3:
		b.feats["in:call-argument"]++
		b.w("$obj->m(1, ")
		b.expr()
		b.w(")")
	case 4:
		b.feats["in:closure-body"]++
		b.w("function () { return ")
		b.expr()
		b.w("; }")
	case 5:
		b.feats["in:binary"]++
		b.w("(")
		b.expr()
		b.w(" . ")
		b.expr()
		b.w(")")
	case 6:
		b.feats["in:isset-empty"]++
		b.w("empty(")
		b.expr()
		b.w(")")
	default:
		b.exprCore()
	}
}

func (b *builder) exprCore() {
	switch b.intn(9, "exprkind") {
	case 0:
		b.w("new ")
		b.ref(kClass, true, "new")
		if b.chance(1, 2, "args") {
			b.w("(1)")
		}
	case 1:
		b.ref(kClass, true, "static-call")
		b.w("::m()")
	case 2:
		b.ref(kClass, true, "static-property")
		b.w("::$p")
	case 3:
		b.ref(kClass, true, "class-constant")
		b.w("::" + b.pick("cc", "K", "class"))
	case 4:
		b.w("$x instanceof ")
		b.ref(kClass, true, "instanceof")
	case 5, 6:
		b.ref(kFunction, false, "function-call")
		b.w("(")
		if b.chance(1, 3, "nested") {
			b.expr()
		}
		b.w(")")
	case 7:
		b.ref(kConst, true, "constant-fetch")
	default:
		switch {
		case b.php7 && b.chance(1, 2, "arrowfn"):
			b.w("fn")
			b.params("arrow-fn-param-type")
			b.returnType("arrow-fn-return-type")
			b.w(" => ")
			b.ref(kConst, true, "constant-fetch")
		default:
			b.w("function ")
			b.params("closure-param-type")
			b.returnType("closure-return-type")
			b.w(" { }")
		}
	}
}

func (b *builder) stmt() {
	b.depth++
	defer func() { b.depth-- }()
	if b.depth > 3 {
		b.expr()
		b.w(";\n")
		return
	}
	switch b.intn(16, "stmtkind") {
	case 5:
		b.feats["in:if"]++
		b.w("if (")
		b.expr()
		b.w(") { ")
		b.stmt()
		b.w("} elseif (")
		b.expr()
		b.w(") ")
		b.stmt()
		b.w("else { ")
		b.stmt()
		b.w("}\n")
	case 6:
		b.feats["in:switch"]++
		b.w("switch (")
		b.expr()
		b.w(") { case ")
		b.expr()
		b.w(": ")
		b.stmt()
		b.w("default: ")
		b.stmt()
		b.w("}\n")
	case 7:
		b.feats["in:loops"]++
		switch b.intn(3, "loop") {
		case 0:
			b.w("while (")
			b.expr()
			b.w(") { }\n")
		case 1:
			b.w("for ($i = 0; ")
			b.expr()
			b.w("; $i++) ;\n")
		default:
			b.w("do { } while (")
			b.expr()
			b.w(");\n")
		}
	case 8:
		b.feats["in:foreach"]++
		b.w("foreach (")
		b.expr()
		b.w(" as $k => $v) { ")
		b.stmt()
		b.w("}\n")
	case 9:
		b.feats["in:echo-return-throw"]++
		b.w(b.pick("kw", "echo ", "return ", "throw ", "print "))
		b.expr()
		b.w(";\n")
	case 10:
		b.feats["in:static-var"]++
		b.w("static $s = ")
		b.ref(kConst, true, "constant-fetch")
		b.w(";\n")
	case 11:
		b.feats["in:alt-syntax"]++
		b.w("if (")
		b.expr()
		b.w("): ")
		b.stmt()
		b.w("else: ")
		b.stmt()
		b.w("endif;\n")
	case 12:
		b.feats["in:finally"]++
		b.w("try { } finally { ")
		b.stmt()
		b.w("}\n")
	case 0:
		b.w("try { ")
		b.expr()
		b.w("; } catch (")
		n := 1
		if b.php7 && b.chance(1, 2, "multicatch") {
			n = 2 + b.intn(2, "ncatch")
		}
		for i := 0; i < n; i++ {
			if i > 0 {
				b.w(" | ")
			}
			b.ref(kClass, false, "catch")
		}
		b.w(" $e) { }\n")
	case 1:
		b.w("$v = ")
		b.expr()
		b.w(";\n")
	default:
		b.expr()
		b.w(";\n")
	}
}

var declCounter int

func (b *builder) ident(prefix string) string {
	declCounter++
	return fmt.Sprintf("%s%d", prefix, b.intn(4, "declname"))
}

func (b *builder) classLike() {
	switch b.intn(6, "classkind") {
	case 0:
		nm := b.ident("I")
		b.decl("interface", nm, "interface")
		b.w("interface " + nm)
		if b.chance(1, 2, "extends") {
			b.w(" extends ")
			k := 1 + b.intn(2, "n")
			for i := 0; i < k; i++ {
				if i > 0 {
					b.w(", ")
				}
				b.ref(kClass, false, "interface-extends")
			}
		}
		b.w(" { function m")
		b.params("method-param-type")
		b.returnType("method-return-type")
		b.w("; }\n")
	case 1:
		nm := b.ident("T")
		b.decl("trait", nm, "trait")
		b.w("trait " + nm + " { ")
		b.members()
		b.w("}\n")
	default:
		nm := b.ident("C")
		b.decl("class", nm, "class")
		b.w(b.pick("classmod", "", "", "abstract ", "final ") + "class " + nm)
		if b.chance(1, 2, "extends") {
			b.w(" extends ")
			b.ref(kClass, false, "extends")
		}
		if b.chance(1, 2, "implements") {
			b.w(" implements ")
			k := 1 + b.intn(2, "n")
			for i := 0; i < k; i++ {
				if i > 0 {
					b.w(", ")
				}
				b.ref(kClass, false, "implements")
			}
		}
		b.w(" { ")
		b.members()
		b.w("}\n")
	}
}

func (b *builder) members() {
	n := b.intn(4, "nmembers")
	for i := 0; i < n; i++ {
		switch b.intn(4, "member") {
		case 0:
			b.w("use ")
			k := 1 + b.intn(2, "n")
			for j := 0; j < k; j++ {
				if j > 0 {
					b.w(", ")
				}
				b.ref(kClass, false, "trait-use")
			}
			if b.chance(1, 2, "adapt") {
				b.w(" { ")
				if b.chance(1, 2, "prec") {
					b.ref(kClass, false, "trait-precedence")
					b.w("::f insteadof ")
					b.ref(kClass, false, "trait-insteadof")
					b.w("; ")
				}
				if b.chance(1, 2, "alias") {
					if b.chance(1, 2, "qual") {
						b.ref(kClass, false, "trait-alias")
						b.w("::")
					}
					b.w("g as protected h; ")
				}
				b.w("} ")
			} else {
				b.w("; ")
			}
		case 1:
			b.w(b.pick("vis", "public", "private", "protected static") + " ")
			if b.php7 && b.chance(1, 2, "typedprop") {
				b.typeRef("property-type")
				b.w(" ")
			}
			fmt.Fprintf(&b.b, "$q%d", i)
			if b.chance(1, 3, "propdefault") {
				b.feats["in:property-default"]++
				b.w(" = ")
				b.ref(kConst, true, "constant-fetch")
			}
			b.w("; ")
		case 2:
			b.w("const K = ")
			b.ref(kConst, true, "constant-fetch")
			b.w("; ")
		default:
			fmt.Fprintf(&b.b, "function m%d", i)
			b.params("method-param-type")
			b.returnType("method-return-type")
			b.w(" { ")
			if b.chance(1, 2, "body") {
				b.w("return ")
				b.expr()
				b.w("; ")
			}
			b.w("} ")
		}
	}
}

func (b *builder) declaration() {
	switch b.intn(5, "declkind") {
	case 0:
		nm := b.ident("fn")
		b.decl("function", nm, "function")
		b.w("function " + nm)
		b.params("function-param-type")
		b.returnType("function-return-type")
		b.w(" { ")
		if b.chance(1, 2, "body") {
			b.stmt()
		}
		b.w("}\n")
	case 1:
		b.w("const ")
		k := 1 + b.intn(2, "n")
		for i := 0; i < k; i++ {
			if i > 0 {
				b.w(", ")
			}
			nm := b.ident("K")
			b.decl("constant", nm, "const")
			b.w(nm + " = " + fmt.Sprint(i))
		}
		b.w(";\n")
	case 2:
		// conditional declarations
		b.w("if ($c) { ")
		if b.chance(1, 2, "condfn") {
			nm := b.ident("cf")
			b.decl("function", nm, "function")
			b.w("function " + nm + "() { } ")
		} else {
			nm := b.ident("CC")
			b.decl("class", nm, "class")
			b.w("class " + nm + " { } ")
		}
		b.w("}\n")
	default:
		b.classLike()
	}
}

// imports writes use statements and records the aliases in the scope.
func (b *builder) imports() {
	n := b.intn(4, "nimports")
	for i := 0; i < n; i++ {
		group := b.php7 && b.chance(1, 3, "group")
		kindWord := b.pick("usekind", "", "", "function ", "const ")
		stmtKind := map[string]kind{"": kClass, "function ": kFunction, "const ": kConst}[kindWord]
		b.w("use " + b.varyKw(kindWord))
		if group {
			b.feats["import:group"]++
			// prefixes of up to 7 segments: the parser grows its parts slices by appending, so the
			// spare capacity behind a prefix (and what an append to it overwrites) depends on its length
			prefix := b.segs(1, 2+b.intn(6, "prefixlen"))
			b.feats[fmt.Sprintf("import:group-prefix-len%d", len(prefix))]++
			if b.chance(1, 4, "leading") {
				b.w("\\")
			}
			b.w(strings.Join(prefix, "\\") + "\\{")
			k := 1 + b.intn(4, "nitems")
			for j := 0; j < k; j++ {
				if j > 0 {
					b.w(", ")
				}
				ik := stmtKind
				if kindWord == "" && b.chance(1, 3, "itemkind") {
					w := b.pick("itemkind", "function ", "const ")
					ik = map[string]kind{"function ": kFunction, "const ": kConst}[w]
					b.w(b.varyKw(w))
					b.feats["import:group-item-kind"]++
				}
				b.importItem(ik, prefix)
			}
			b.w("};\n")
			continue
		}
		k := 1 + b.intn(2, "nitems")
		for j := 0; j < k; j++ {
			if j > 0 {
				b.w(", ")
			}
			if b.chance(1, 4, "leading") {
				b.w("\\")
				b.feats["import:leading-backslash"]++
			}
			b.importItem(stmtKind, nil)
		}
		b.w(";\n")
	}
}

func (b *builder) varyKw(s string) string {
	if s == "" {
		return s
	}
	return b.vary(strings.TrimSpace(s)) + " "
}

func (b *builder) importItem(k kind, prefix []string) {
	segs := b.segs(1, 2)
	if prefix == nil && b.chance(1, 3, "longimport") {
		segs = b.segs(3, 7)
		b.feats["import:long-name"]++
	}
	full := strings.Join(append(append([]string{}, prefix...), segs...), "\\")
	alias := segs[len(segs)-1]
	text := strings.Join(segs, "\\")
	if b.chance(1, 2, "as") {
		alias = b.seg("aliasname")
		if !b.bareAlias || b.chance(1, 3, "aliasdigit") {
			alias += fmt.Sprint(b.intn(3, "aliasn"))
		}
		text += " " + b.vary("as") + " " + alias
		b.feats["import:alias"]++
	}
	if k != kClass && b.chance(1, 10, "typewordalias") {
		// "use function A\\b as string;" — only class imports may not take a special class name as alias
		alias = b.vary(typeWords[b.intn(len(typeWords), "typeword")])
		if k == kConst {
			alias = b.vary(b.pick("constword", "void", "iterable"))
		}
		text = strings.Join(segs, "\\") + " " + b.vary("as") + " " + alias
		b.feats["import:type-word-alias"]++
	}
	if b.allowDup && b.chance(1, 2, "dupalias") {
		// repeat an alias of this kind in another letter case (see DrawSource)
		var have []string
		for a := range map[kind]map[string]string{kClass: b.sc.class, kFunction: b.sc.function, kConst: b.sc.constant}[k] {
			have = append(have, a)
		}
		sortStrings(have)
		if len(have) > 0 {
			alias = b.vary(have[b.intn(len(have), "dupof")])
			b.w(strings.Join(segs, "\\") + " " + b.vary("as") + " " + alias)
			b.feats["import:duplicate-alias"]++
			return
		}
	}
	// PHP rejects a second import of the same alias in one namespace: skip it
	switch k {
	case kClass:
		if _, dup := b.sc.class[asciiLower(alias)]; dup {
			alias += "X"
			text = strings.Join(segs, "\\") + " as " + alias
		}
		b.sc.class[asciiLower(alias)] = full
	case kFunction:
		if _, dup := b.sc.function[asciiLower(alias)]; dup {
			alias += "X"
			text = strings.Join(segs, "\\") + " as " + alias
		}
		b.sc.function[asciiLower(alias)] = full
	case kConst:
		if _, dup := b.sc.constant[alias]; dup {
			alias += "X"
			text = strings.Join(segs, "\\") + " as " + alias
		}
		b.sc.constant[alias] = full
	}
	b.w(text)
	b.feats[fmt.Sprintf("import:kind%d", k)]++
}

func (b *builder) section() {
	b.imports()
	n := 1 + b.intn(4, "nbody")
	for i := 0; i < n; i++ {
		if b.chance(1, 2, "decl") {
			b.declaration()
		} else {
			b.stmt()
		}
		// an import may also stand between statements: it applies to the names that follow it and
		// leaves those before it alone (a reference repeated after the import resolves differently)
		if i < n-1 && b.chance(1, 4, "lateimport") {
			b.feats["import:late"]++
			b.imports()
			if b.lastRef != "" && b.chance(1, 2, "repeatref") {
				b.feats["ref:repeated-after-late-import"]++
				b.repeatLastRef()
			}
		}
	}
}

// program writes a whole file.
func (b *builder) program() {
	b.w("<?php\n")
	switch b.intn(3, "nsstyle") {
	case 0:
		b.feats["ns:none"]++
		b.sc = newScope("")
		b.section()
	case 1:
		b.feats["ns:semicolon"]++
		k := 1 + b.intn(3, "nns")
		for i := 0; i < k; i++ {
			ns := strings.Join(b.segs(1, 1+b.intn(5, "nslen")), "\\")
			b.w(b.vary("namespace") + " " + ns + ";\n")
			b.sc = newScope(ns)
			b.section()
		}
	default:
		b.feats["ns:braced"]++
		k := 1 + b.intn(3, "nns")
		for i := 0; i < k; i++ {
			if b.chance(1, 4, "unnamed") {
				b.w("namespace {\n")
				b.sc = newScope("")
				b.feats["ns:unnamed-braced"]++
			} else {
				ns := strings.Join(b.segs(1, 1+b.intn(5, "nslen")), "\\")
				b.w("namespace " + ns + " {\n")
				b.sc = newScope(ns)
			}
			b.section()
			b.w("}\n")
		}
	}
}
