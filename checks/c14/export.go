package c14

import "pgregory.net/rapid"

// DrawSource renders one drawn import-heavy program (namespaces, imports of all kinds, references in
// every resolvable position) for checks that need work for the name resolver but not the expectations
// (C11, C13). With dupAliases an import may repeat an alias of its kind in another letter case: PHP
// rejects such a file at compile time ("name is already in use"), the parser and the resolver accept
// it — it is an input like any other for the clauses that quantify over all inputs.
func DrawSource(rt *rapid.T, php7, dupAliases bool) []byte {
	b := &builder{rt: rt, want: map[string]expectation{}, php7: php7, feats: map[string]int{}, used: map[string]bool{}, allowDup: dupAliases}
	b.program()
	return []byte(b.b.String())
}
