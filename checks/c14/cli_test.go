package c14

import (
	"fmt"
	"sort"
	"strings"
	"testing"
	"time"

	"pgregory.net/rapid"

	"verif/cli"
	"verif/harness"
	"verif/px"
)

// TestCLIResolvedNames: `php-parser -r` resolves the names of every file and prints the resolved
// names (one "===> name" line each, in no particular order). For a generated program that list must
// be, as a multiset, what PHP's rules (the model) give for every declaration and reference.
func TestCLIResolvedNames(t *testing.T) {
	bin := cli.Path()
	if bin == "" {
		t.Skip("no command-line binary (VERIF_CLI)")
	}
	harness.Check(t, "cli-resolved-names", 200, 6000, func(rt *rapid.T) {
		v := rapid.SampledFrom([]px.Ver{px.V74, px.V74, {Major: 7, Minor: 0}, px.V56}).Draw(rt, "version")
		b := &builder{rt: rt, want: map[string]expectation{}, php7: !v.IsPHP5(), feats: map[string]int{}, used: map[string]bool{}}
		b.program()
		src := []byte(b.b.String())
		dir, clean, err := cli.TempDir("c14-r-")
		if err != nil {
			rt.Skip("no scratch directory")
		}
		defer clean()
		if cli.WriteTree(dir, map[string][]byte{"a.php": src}) != nil {
			rt.Skip("cannot write scratch files")
		}
		res := cli.Run(bin, dir, 60*time.Second, nil, "-r", "-phpver", v.String(), dir)
		harness.Eval()
		if res.Err != nil {
			rt.Skip("cannot start the binary")
		}
		mt := map[string]string{"version": v.String(), "want": wantJSON(b.want), "cli": "-r"}
		if res.TimedOut || res.Exit != 0 {
			harness.Fail(rt, "cli-resolve-failed", src, mt, "[%s] php-parser -r: timed out=%v exit=%d stderr=%q", v, res.TimedOut, res.Exit, trunc(res.Stderr, 300))
		}
		got := cli.PrefixedLines(res.Stderr, "===> ")
		var want []string
		for _, e := range b.want {
			want = append(want, e.fq)
		}
		sort.Strings(want)
		// special names are left unqualified; the letter case they are printed in is not prescribed
		low := func(xs []string) string {
			ys := make([]string, len(xs))
			for i, x := range xs {
				ys[i] = x
				if specialClassNames[strings.ToLower(x)] || specialConstNames[strings.ToLower(x)] {
					ys[i] = strings.ToLower(x)
				}
			}
			sort.Strings(ys)
			return strings.Join(ys, "\n")
		}
		if low(got) != low(want) {
			harness.Fail(rt, "cli-resolved-names", src, mt, "[%s] php-parser -r prints the resolved names %q, PHP's rules give %q\nsource:\n%s", v, got, want, src)
		}
		harness.Class("cli-resolved-names")
		if len(want) >= 6 {
			harness.NonTrivial(append([]byte("cli"), src...), fmt.Sprintf("[%s] php-parser -r: %d names", v, len(want)))
		}
	})
}
