package c14

import (
	"fmt"
	"strings"

	"pgregory.net/rapid"
)

// The program model: a file is a sequence of namespace sections, each with
// imports followed by declarations and references. The model is rendered to
// source text by the builder below, which records, for every position where
// PHP resolves a name at compile time, the fully qualified name PHP's rules
// give (computed by the reference resolver in this file, on the model — the
// library's resolver is never consulted).

type kind int

const (
	kClass kind = iota
	kFunction
	kConst
)

// scope is the reference resolver's state: current namespace and the three alias tables.
type scope struct {
	ns       string
	class    map[string]string // lower-case alias -> FQ
	function map[string]string // lower-case alias -> FQ
	constant map[string]string // exact alias -> FQ
}

func newScope(ns string) *scope {
	return &scope{ns: ns, class: map[string]string{}, function: map[string]string{}, constant: map[string]string{}}
}

func (s *scope) prefix(name string) string {
	if s.ns == "" {
		return name
	}
	return s.ns + "\\" + name
}

var specialClassNames = map[string]bool{"self": true, "parent": true, "static": true, "int": true, "float": true, "bool": true, "string": true, "void": true, "iterable": true, "object": true}
var specialConstNames = map[string]bool{"true": true, "false": true, "null": true}

// name is a name as written.
type name struct {
	form string // "plain" (unqualified or qualified), "fq", "relative"
	segs []string
}

func (n name) text() string {
	j := strings.Join(n.segs, "\\")
	switch n.form {
	case "fq":
		return "\\" + j
	case "relative":
		return "namespace\\" + j
	}
	return j
}

// resolve applies PHP's name resolution rules. special reports that the name is left unqualified.
func (s *scope) resolve(n name, k kind) (fq string, special bool) {
	j := strings.Join(n.segs, "\\")
	switch n.form {
	case "fq":
		return j, false
	case "relative":
		return s.prefix(j), false
	}
	if len(n.segs) > 1 {
		if a, ok := s.class[asciiLower(n.segs[0])]; ok {
			return a + "\\" + strings.Join(n.segs[1:], "\\"), false
		}
		return s.prefix(j), false
	}
	lower := asciiLower(j)
	switch k {
	case kClass:
		if specialClassNames[lower] {
			return lower, true
		}
		if a, ok := s.class[lower]; ok {
			return a, false
		}
	case kFunction:
		if a, ok := s.function[lower]; ok {
			return a, false
		}
	case kConst:
		if specialConstNames[lower] {
			return lower, true
		}
		if a, ok := s.constant[j]; ok {
			return a, false
		}
	}
	return s.prefix(j), false
}

// expectation is one entry the resolved-names map must contain.
type expectation struct {
	group   string // "name" or the declaration kind
	fq      string
	special bool
	what    string // human-readable context
}

// builder writes the source and records expectations by source offset.
type builder struct {
	rt    *rapid.T
	b     strings.Builder
	want  map[string]expectation // "group@offset"
	sc    *scope
	php7  bool
	feats map[string]int
	used  map[string]bool // aliases that were referenced
	depth int
	// the reference written last (for a repetition behind a late import)
	lastRef     string
	lastRefName name
	lastRefKind kind
	// name segments are drawn from this pool: segPool, or (one program in five) a small family of
	// compound names — a base word, the base behind or in front of a kind word / keyword, in several letter
	// cases — so that keys a resolver might build by concatenation (kind + alias, namespace + name) meet
	pool      []string
	bareAlias bool
	allowDup  bool // see DrawSource
}

// kindWords are words a resolver could glue to a name when it builds a lookup key.
var kindWords = []string{"function", "const", "class", "use", "namespace", "self", "static", "parent", "int", "null", "true", "as"}

var typeWords = []string{"int", "float", "bool", "string", "void", "iterable", "object"}

func (b *builder) segPoolNow() []string {
	if b.pool != nil {
		return b.pool
	}
	if !b.chance(1, 5, "compoundfamily") {
		b.pool = segPool
		return b.pool
	}
	b.feats["names:compound-family"]++
	b.bareAlias = true
	base := b.pick("familybase", "Factory", "expr", "B", "ants", "VALUE", "x")
	w1 := kindWords[b.intn(len(kindWords), "kw1")]
	w2 := kindWords[b.intn(len(kindWords), "kw2")]
	title := func(s string) string { return asciiUpper(s[:1]) + s[1:] }
	b.pool = []string{base, asciiLower(base), w1 + base, title(w1) + title(base), asciiLower(w1 + base), base + w1, w2 + base, title(w2) + base, asciiLower(w2 + base), base + title(w2)}
	return b.pool
}

func (b *builder) seg(label string) string {
	p := b.segPoolNow()
	return p[b.intn(len(p), label)]
}

func (b *builder) w(s string) { b.b.WriteString(s) }
func (b *builder) off() int   { return b.b.Len() }

func (b *builder) pick(label string, xs ...string) string {
	return xs[rapid.IntRange(0, len(xs)-1).Draw(b.rt, label)]
}
func (b *builder) chance(n, d int, label string) bool {
	return rapid.IntRange(1, d).Draw(b.rt, label) <= n
}
func (b *builder) intn(n int, label string) int { return rapid.IntRange(0, n-1).Draw(b.rt, label) }

var segPool = []string{"Foo", "Bar", "Baz", "Qux", "Lib", "Util", "App", "Model", "Http", "Widget", "helper", "VALUE", "Impl",
	// PHP folds A-Z only when it compares class and function names: these pairs are different names.
	// "Äbc"/"äbc" (UTF-8), Kelvin sign vs "K"/"k", Latin-1 bytes 0xC4/0xE4 (invalid UTF-8), "İx" (dotted capital I)
	"\xc3\x84bc", "\xc3\xa4bc", "\xe2\x84\xaa", "K", "k", "\xc4x", "\xe4x", "\xc4\xb0x", "ix"}

// asciiLower folds A-Z only, as PHP does (zend_str_tolower); bytes >= 0x80 are left alone.
func asciiLower(s string) string {
	b := []byte(s)
	for i, c := range b {
		if c >= 'A' && c <= 'Z' {
			b[i] = c + 32
		}
	}
	return string(b)
}

func asciiUpper(s string) string {
	b := []byte(s)
	for i, c := range b {
		if c >= 'a' && c <= 'z' {
			b[i] = c - 32
		}
	}
	return string(b)
}

// vary draws a letter-case variant of a word.
func (b *builder) vary(s string) string {
	switch b.intn(4, "case") {
	case 0:
		return asciiUpper(s)
	case 1:
		return asciiLower(s)
	}
	return s
}

// drawName draws a name to reference. It prefers names that hit the alias
// tables (in exact or varied case) so that the alias rules are exercised.
func (b *builder) drawName(k kind, allowSpecial bool) name {
	var aliases []string
	switch k {
	case kClass:
		for a := range b.sc.class {
			aliases = append(aliases, a)
		}
	case kFunction:
		for a := range b.sc.function {
			aliases = append(aliases, a)
		}
	case kConst:
		for a := range b.sc.constant {
			aliases = append(aliases, a)
		}
	}
	sortStrings(aliases)
	if k != kClass && len(aliases) == 0 && b.chance(1, 6, "typeword") || k != kClass && b.chance(1, 16, "typeword2") {
		// the scalar type names are special only where a class name is expected: a function or a constant
		// of that name is an ordinary name (namespace prefix, aliases)
		b.feats["ref:type-word-as-function-or-constant"]++
		w := typeWords[b.intn(len(typeWords), "typeword")]
		if k == kConst {
			// a lone "int" / "string" ... between parentheses is a cast: constants take the words no cast uses
			w = b.pick("constword", "void", "iterable")
		}
		return name{"plain", []string{b.vary(w)}}
	}
	choice := b.intn(10, "nameform")
	switch {
	case choice == 0:
		b.feats["ref:fq"]++
		return name{"fq", b.segs(1, 1+b.intn(6, "fqlen"))}
	case choice == 1:
		b.feats["ref:relative"]++
		return name{"relative", b.segs(1, 2)}
	case choice == 2 && allowSpecial:
		b.feats["ref:special"]++
		if k == kConst {
			return name{"plain", []string{b.vary(b.pick("special", "true", "false", "null"))}}
		}
		return name{"plain", []string{b.vary(b.pick("special", "self", "parent", "int", "string", "bool", "float", "iterable", "object"))}}
	case choice <= 5 && len(aliases) > 0:
		a := aliases[b.intn(len(aliases), "alias")]
		written := b.vary(a)
		if k == kConst && b.chance(1, 2, "exactconst") {
			written = a
		}
		if written != a {
			b.feats["ref:case-variant"]++
		}
		b.feats["ref:alias"]++
		b.used[fmt.Sprint(k)+a] = true
		return name{"plain", []string{written}}
	case choice == 7 && len(aliases) > 0:
		// near miss: an imported alias written with its non-ASCII letters in the other case is a
		// different name (PHP folds A-Z only), so it is not the alias
		a := aliases[b.intn(len(aliases), "alias")]
		if t := nonASCIITwin(a); t != a {
			b.feats["ref:non-ascii-near-miss"]++
			return name{"plain", []string{b.vary(t)}}
		}
	case choice == 8 && allowSpecial && k == kClass && b.chance(1, 2, "specialnearmiss"):
		// "İnt" (dotted capital I) is an ordinary class name, not the type int
		b.feats["ref:special-near-miss"]++
		return name{"plain", []string{b.pick("nearspecial", "\xc4\xb0nt", "str\xc4\xb0ng", "vo\xc4\xb0d", "\xc4\xb0terable", "\xc5\xbfelf", "boo\xc5\x81")}}
	case choice == 6:
		// qualified name whose first segment may be a class alias (of any letter case)
		var cl []string
		for a := range b.sc.class {
			cl = append(cl, a)
		}
		sortStrings(cl)
		first := b.seg("seg")
		if len(cl) > 0 && b.chance(2, 3, "qualalias") {
			first = b.vary(cl[b.intn(len(cl), "alias")])
			b.feats["ref:qualified-alias"]++
		}
		b.feats["ref:qualified"]++
		return name{"plain", append([]string{first}, b.segs(1, 1+b.intn(5, "quallen"))...)}
	}
	b.feats["ref:unqualified"]++
	return name{"plain", b.segs(1, 1)}
}

// nonASCIITwin swaps the letter case of the non-ASCII letters the pool uses.
func nonASCIITwin(s string) string {
	pairs := [][2]string{{"\xc3\x84", "\xc3\xa4"}, {"\xe2\x84\xaa", "k"}, {"\xc4\xb0", "i"}, {"\xc4", "\xe4"}}
	for _, p := range pairs {
		if strings.Contains(s, p[0]) {
			return strings.Replace(s, p[0], p[1], 1)
		}
		if p[1] != "k" && p[1] != "i" && strings.Contains(s, p[1]) {
			return strings.Replace(s, p[1], p[0], 1)
		}
	}
	if s == "k" {
		return "\xe2\x84\xaa"
	}
	if s == "ix" {
		return "\xc4\xb0x"
	}
	return s
}

func sortStrings(s []string) {
	for i := 1; i < len(s); i++ {
		for j := i; j > 0 && s[j] < s[j-1]; j-- {
			s[j], s[j-1] = s[j-1], s[j]
		}
	}
}

func (b *builder) segs(min, max int) []string {
	n := rapid.IntRange(min, max).Draw(b.rt, "nsegs")
	var out []string
	for i := 0; i < n; i++ {
		out = append(out, b.seg("seg"))
	}
	return out
}

// ref writes a name reference and records what it must resolve to.
func (b *builder) ref(k kind, allowSpecial bool, what string) {
	n := b.drawName(k, allowSpecial)
	b.writeRef(n, k, what)
	if k != kClass || b.chance(1, 3, "rememberref") {
		b.lastRef, b.lastRefName, b.lastRefKind = what, n, k
	}
}

func (b *builder) writeRef(n name, k kind, what string) {
	fq, special := b.sc.resolve(n, k)
	b.want[fmt.Sprintf("name@%d", b.off())] = expectation{"name", fq, special, what + " " + n.text()}
	b.w(n.text())
	b.feats["pos:"+what]++
}

// repeatLastRef writes the most recent function-call / constant / class reference once more, spelled
// identically, as a statement of its own (the name is resolved against the scope as it is now).
func (b *builder) repeatLastRef() {
	switch b.lastRefKind {
	case kFunction:
		b.writeRef(b.lastRefName, kFunction, "function-call")
		b.w("();\n")
	case kConst:
		b.w("echo ")
		b.writeRef(b.lastRefName, kConst, "constant-fetch")
		b.w(";\n")
	default:
		b.w("new ")
		b.writeRef(b.lastRefName, kClass, "new")
		b.w(";\n")
	}
}

func (b *builder) decl(group, nm, what string) {
	b.want[fmt.Sprintf("%s@%d", group, b.off())] = expectation{group, b.sc.prefix(nm), false, what + " " + nm}
	b.feats["decl:"+group]++
}
