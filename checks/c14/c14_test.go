// C14 — Resolved names follow PHP's name-resolution rules.
package c14

import (
	"encoding/json"
	"fmt"
	"sort"
	"strings"
	"testing"

	"github.com/z7zmey/php-parser/pkg/ast"
	"pgregory.net/rapid"

	"verif/astx"
	"verif/harness"
	"verif/px"
)

func TestMain(m *testing.M) { harness.Main(m, "C14") }

func groupOf(n ast.Vertex) string {
	switch n.(type) {
	case *ast.Name, *ast.NameFullyQualified, *ast.NameRelative:
		return "name"
	case *ast.StmtClass:
		return "class"
	case *ast.StmtInterface:
		return "interface"
	case *ast.StmtTrait:
		return "trait"
	case *ast.StmtFunction:
		return "function"
	case *ast.StmtConstant:
		return "constant"
	}
	return "unexpected:" + astx.KindName(n)
}

// compare checks the resolver's result against the expectations, both ways.
func compare(src []byte, v px.Ver, want map[string]expectation) string {
	r := px.Parse(src, v, true)
	if r.Panic != "" || len(r.Errs) > 0 || astx.IsNil(r.Root) {
		return fmt.Sprintf("the generated program does not parse cleanly: %s%s", r.Panic, px.ErrString(r.Errs))
	}
	var got map[ast.Vertex]string
	if p := px.Guard(func() { got = px.Resolve(r.Root) }); p != "" {
		return "the resolver panicked: " + p
	}
	seen := map[string]bool{}
	var keys []string
	byKey := map[string]string{}
	for n, fq := range got {
		p := n.GetPosition()
		if p == nil {
			return fmt.Sprintf("resolved map holds a %s without position", astx.KindName(n))
		}
		k := fmt.Sprintf("%s@%d", groupOf(n), p.StartPos)
		keys = append(keys, k)
		byKey[k] = fq
	}
	sort.Strings(keys)
	for _, k := range keys {
		seen[k] = true
		w, ok := want[k]
		if !ok {
			return fmt.Sprintf("the map holds an entry PHP does not resolve at compile time: %s => %q (source there: %q)", k, byKey[k], at(src, k))
		}
		g := byKey[k]
		if w.special {
			if !strings.EqualFold(g, w.fq) {
				return fmt.Sprintf("%s (%s): special name must stay unqualified, got %q", k, w.what, g)
			}
			continue
		}
		if g != w.fq {
			return fmt.Sprintf("%s (%s) resolves to %q, PHP's rules give %q", k, w.what, g, w.fq)
		}
	}
	var missing []string
	for k := range want {
		if !seen[k] {
			missing = append(missing, k)
		}
	}
	sort.Strings(missing)
	if len(missing) > 0 {
		k := missing[0]
		return fmt.Sprintf("no entry for %s (%s), expected %q", k, want[k].what, want[k].fq)
	}
	return ""
}

func at(src []byte, key string) string {
	var off int
	if i := strings.IndexByte(key, '@'); i >= 0 {
		fmt.Sscanf(key[i+1:], "%d", &off)
	}
	end := off + 30
	if end > len(src) {
		end = len(src)
	}
	if off > len(src) {
		return ""
	}
	return string(src[off:end])
}

func TestGeneratedPrograms(t *testing.T) {
	harness.Check(t, "programs", 160000, 2400000, func(rt *rapid.T) {
		v := rapid.SampledFrom([]px.Ver{px.V74, px.V74, {Major: 7, Minor: 0}, px.V56}).Draw(rt, "version")
		b := &builder{rt: rt, want: map[string]expectation{}, php7: !v.IsPHP5(), feats: map[string]int{}, used: map[string]bool{}}
		b.program()
		src := []byte(b.b.String())
		harness.Eval()
		if m := compare(src, v, b.want); m != "" {
			harness.Fail(rt, "resolution", src, map[string]string{"version": v.String(), "want": wantJSON(b.want)}, "[%s] %s\nsource:\n%s", v, m, src)
		}
		positions := 0
		for k, n := range b.feats {
			harness.ClassN(k, n)
			if strings.HasPrefix(k, "pos:") {
				positions++
			}
		}
		if len(b.used) >= 1 && b.feats["ref:case-variant"] >= 1 && positions >= 2 {
			harness.NonTrivial(src, fmt.Sprintf("[%s]\n%s", v, trunc(src, 500)))
		}
	})
}

func trunc(b []byte, n int) []byte {
	if len(b) > n {
		return b[:n]
	}
	return b
}

// fixed programs with hand-computed expectations (regression cases and reproducers).
type fixedCase struct {
	src  string
	want map[string]string // source fragment (must be unique in src) -> expected FQ; "" = must not be in the map
}

var fixed = []fixedCase{
	{"<?php namespace App; use Lib\\Util\\{function helper, Widget}; new Widget; Widget();", map[string]string{"Widget;": "Lib\\Util\\Widget", "Widget()": "App\\Widget"}},
	{"<?php namespace App; use Foo\\Bar as B; use const Foo\\VALUE; $f = fn(B $x): B\\C => VALUE;", map[string]string{"B $x": "Foo\\Bar", "B\\C": "Foo\\Bar\\C", "VALUE;": "Foo\\VALUE"}},
	{"<?php namespace N; use const A\\K; echo K, k;", map[string]string{"K,": "A\\K", "k;": "N\\k"}},
	// PHP folds A-Z only (fixed in /repo by b95d6c3: strings.ToLower folded by Unicode rules)
	{"<?php namespace N; use X\\\xc3\x84bc; new \xc3\xa4bc; new \xc3\x84BC;", map[string]string{"\xc3\xa4bc;": "N\\\xc3\xa4bc", "\xc3\x84BC;": "X\\\xc3\x84bc"}},
	{"<?php namespace N; use function X\\k; \xe2\x84\xaa(); K();", map[string]string{"\xe2\x84\xaa()": "N\\\xe2\x84\xaa", "K()": "X\\k"}},
	{"<?php namespace N; use X\\\xc4x; function f(\xe4x $a, \xc4\xb0nt $b) {}", map[string]string{"\xe4x $a": "N\\\xe4x", "\xc4\xb0nt $b": "N\\\xc4\xb0nt"}},
}

func TestFixedPrograms(t *testing.T) {
	if harness.Shard() != 0 {
		t.Skip("shard 0 only")
	}
	for _, fc := range fixed {
		src := []byte(fc.src)
		r := px.Parse(src, px.V74, true)
		harness.Eval()
		if len(r.Errs) > 0 || astx.IsNil(r.Root) {
			harness.Failf(t, "fixed", src, nil, "fixed program does not parse: %s", px.ErrString(r.Errs))
			continue
		}
		got := px.Resolve(r.Root)
		for frag, fq := range fc.want {
			off := strings.LastIndex(fc.src, frag)
			found := ""
			for n, g := range got {
				if p := n.GetPosition(); p != nil && p.StartPos == off && groupOf(n) == "name" {
					found = g
				}
			}
			if found != fq {
				harness.Failf(t, "fixed", src, nil, "in %q the name at %q resolves to %q, PHP's rules give %q", fc.src, frag, found, fq)
			}
		}
		harness.NonTrivial(src, fc.src)
	}
}

func wantJSON(w map[string]expectation) string {
	type e struct {
		FQ      string `json:"fq"`
		Special bool   `json:"special,omitempty"`
		What    string `json:"what"`
	}
	m := map[string]e{}
	for k, x := range w {
		m[k] = e{x.fq, x.special, x.what}
	}
	b, _ := json.Marshal(m)
	return string(b)
}

// TestReplay re-evaluates a recorded violation: the replay file carries the source and, in its meta
// data, the expectations PHP's rules give for it (computed by the model when the case was drawn).
func TestReplay(t *testing.T) {
	path := harness.ReplayPath()
	if path == "" {
		t.Skip("no VERIF_REPLAY")
	}
	vi, src, err := harness.LoadReplay(path)
	if err != nil {
		t.Fatal(err)
	}
	if vi.Meta["want"] == "" {
		t.Skip("a fixed program: re-run the check (TestFixedPrograms)")
	}
	var m map[string]struct {
		FQ      string `json:"fq"`
		Special bool   `json:"special"`
		What    string `json:"what"`
	}
	if err := json.Unmarshal([]byte(vi.Meta["want"]), &m); err != nil {
		t.Fatal(err)
	}
	want := map[string]expectation{}
	for k, x := range m {
		g := k
		if i := strings.IndexByte(k, '@'); i >= 0 {
			g = k[:i]
		}
		want[k] = expectation{g, x.FQ, x.Special, x.What}
	}
	var v px.Ver
	fmt.Sscanf(vi.Meta["version"], "%d.%d", &v.Major, &v.Minor)
	harness.Eval()
	if msg := compare(src, v, want); msg != "" {
		harness.Failf(t, "resolution", src, vi.Meta, "[%s] %s", v, msg)
	}
}
