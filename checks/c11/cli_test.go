package c11

import (
	"bytes"
	"fmt"
	"sort"
	"strings"
	"testing"
	"time"

	"pgregory.net/rapid"

	"verif/cli"
	"verif/harness"
	"verif/px"
)

// TestCLIWorkers: the command-line tool is the library's own concurrent client — it parses the files
// of a directory on GOMAXPROCS worker goroutines and prints, resolves and dumps them on another one.
// A binary built with the race detector is run over a directory of many different files with every
// output option on; there must be no race report, every file must be written back with exactly the
// text the library prints for it alone, and the errors and resolved names it prints must be, as
// multisets, those of the files parsed one at a time by the library.
func TestCLIWorkers(t *testing.T) {
	bin := cli.RacePath()
	if bin == "" {
		t.Skip("no race-built command-line binary (VERIF_CLI_RACE)")
	}
	harness.Check(t, "cli-workers", 30, 480, func(rt *rapid.T) {
		v := rapid.SampledFrom(px.AllVersions).Draw(rt, "version")
		n := rapid.IntRange(8, 60).Draw(rt, "files")
		files := map[string][]byte{}
		var wantErrs, wantNames []string
		wantBack := map[string][]byte{} // what -pb must leave in the file: the tree printed alone
		for i := 0; i < n; i++ {
			j := drawJob(rt)
			name := fmt.Sprintf("d%d/f%03d.php", i%3, i)
			r := px.Parse(append([]byte{}, j.src...), v, true)
			if r.Panic != "" || r.Root == nil {
				// a panicking parse is C01's business, and for a file without a tree the tool has
				// nothing to print (it dereferences the nil root): neither is this property's subject
				harness.Excluded("cli: no tree for this file")
				continue
			}
			var errs, resolved []string
			var back []byte
			if p := px.Guard(func() {
				for _, e := range r.Errs {
					errs = append(errs, e.String())
				}
				for _, fq := range px.Resolve(r.Root) {
					resolved = append(resolved, fq)
				}
				back = px.Print(r.Root)
			}); p != "" {
				continue
			}
			files[name] = j.src
			wantBack[name] = back
			wantErrs = append(wantErrs, errs...)
			wantNames = append(wantNames, resolved...)
		}
		if len(files) < 4 {
			return
		}
		dir, cleanup, err := cli.TempDir("c11-cli-")
		if err != nil {
			rt.Skip("no scratch directory")
		}
		defer cleanup()
		if cli.WriteTree(dir, files) != nil {
			rt.Skip("cannot write scratch files")
		}
		procs := rapid.SampledFrom([]string{"2", "4", "8", "16"}).Draw(rt, "gomaxprocs")
		res := cli.Run(bin, dir, 300*time.Second, []string{"GOMAXPROCS=" + procs, "GORACE=halt_on_error=0 exitcode=66"}, "-pb", "-r", "-e", "-phpver", v.String(), dir)
		harness.EvalN(len(files))
		if res.Err != nil {
			rt.Skip("cannot start the binary")
		}
		var names []string
		for k := range files {
			names = append(names, k)
		}
		sort.Strings(names)
		first := files[names[0]]
		mt := map[string]string{"version": v.String(), "files": fmt.Sprint(len(files)), "gomaxprocs": procs, "tree": cli.EncodeTree(files)}
		if cli.HasRaceReport(res.Stderr) || res.Exit == 66 {
			i := bytes.Index(res.Stderr, []byte("WARNING: DATA RACE"))
			if i < 0 {
				i = 0
			}
			harness.Fail(rt, "cli-data-race", first, mt, "[%s] the race detector reports a data race inside php-parser -pb -r -e over %d files on %s workers:\n%s", v, len(files), procs, trunc(res.Stderr[i:], 1500))
		}
		if res.TimedOut || res.Exit != 0 {
			harness.Fail(rt, "cli-failed", first, mt, "[%s] php-parser -pb -r -e over %d files: timed out=%v exit=%d stderr=%q", v, len(files), res.TimedOut, res.Exit, trunc(res.Stderr, 400))
		}
		gotErrs, gotNames := cli.PrefixedLines(res.Stderr, "==> "), cli.PrefixedLines(res.Stderr, "===> ")
		sort.Strings(wantErrs)
		sort.Strings(wantNames)
		if strings.Join(gotErrs, "\n") != strings.Join(wantErrs, "\n") {
			harness.Fail(rt, "cli-errors-differ", first, mt, "[%s] the errors php-parser prints for %d files parsed on %s workers are not the errors of the files parsed alone: %d vs %d lines; first difference: %s", v, len(files), procs, len(gotErrs), len(wantErrs), firstListDiff(wantErrs, gotErrs))
		}
		if strings.Join(gotNames, "\n") != strings.Join(wantNames, "\n") {
			harness.Fail(rt, "cli-names-differ", first, mt, "[%s] the resolved names php-parser prints for %d files parsed on %s workers are not those of the files resolved alone: %d vs %d; first difference: %s", v, len(files), procs, len(gotNames), len(wantNames), firstListDiff(wantNames, gotNames))
		}
		after, err := cli.ReadTree(dir)
		if err != nil {
			rt.Skip("cannot read scratch files")
		}
		for _, k := range names {
			if !bytes.Equal(after[k], wantBack[k]) {
				harness.Fail(rt, "cli-print-back-differs", files[k], mt, "[%s] file %s written back by php-parser -pb (%d files on %s workers) is not the text the library prints for that file alone: %q vs %q", v, k, len(files), procs, trunc(after[k], 200), trunc(wantBack[k], 200))
			}
		}
		harness.Class("cli-workers")
		harness.NonTrivial(append([]byte("cli"+v.String()), first...), fmt.Sprintf("[%s] php-parser -pb -r -e (race build) over %d files, GOMAXPROCS=%s", v, len(files), procs))
	})
}

func firstListDiff(want, got []string) string {
	for i := 0; i < len(want) && i < len(got); i++ {
		if want[i] != got[i] {
			return fmt.Sprintf("alone %q, command line %q", want[i], got[i])
		}
	}
	if len(want) > len(got) {
		return fmt.Sprintf("missing %q", want[len(got)])
	}
	if len(got) > len(want) {
		return fmt.Sprintf("surplus %q", got[len(want)])
	}
	return "none"
}
