// C11 — Concurrent use on different inputs is safe and deterministic.
// Built with -race by the driver.
package c11

import (
	"fmt"
	"sort"
	"strings"
	"sync"
	"testing"

	"github.com/z7zmey/php-parser/pkg/ast"
	"pgregory.net/rapid"

	"verif/astx"
	"verif/harness"
	"verif/inputs"
	"verif/phpgen"
	"verif/progs"
	"verif/px"
	"verif/recvis"
)

func TestMain(m *testing.M) { harness.Main(m, "C11") }

type job struct {
	src  []byte
	ver  px.Ver
	pipe int  // bit set: 1 print, 2 dump, 4 traverse, 8 resolve, 16 format+print
	nocb bool // parse without an error handler (conf.Config.ErrorHandlerFunc == nil)
}

func resolvedString(root ast.Vertex, m map[ast.Vertex]string) string {
	idx := map[ast.Vertex]int{}
	for i, n := range astx.Nodes(root) {
		idx[n] = i
	}
	var out []string
	for n, s := range m {
		out = append(out, fmt.Sprintf("%06d %s=%s", idx[n], astx.KindName(n), s))
	}
	sort.Strings(out)
	return strings.Join(out, "\n")
}

// run executes one pipeline and renders everything observable as text.
func (j job) run() string {
	var b strings.Builder
	r := px.Parse(append([]byte{}, j.src...), j.ver, !j.nocb)
	if r.Panic != "" {
		return "PANIC " + r.Panic
	}
	b.WriteString(px.ErrString(r.Errs))
	if astx.IsNil(r.Root) {
		return b.String() + "nil root"
	}
	b.WriteString(astx.Fingerprint(r.Root))
	guard := func(name string, f func()) {
		if p := px.Guard(f); p != "" {
			b.WriteString("PANIC in " + name + ": " + strings.SplitN(p, "\n", 2)[0])
		}
	}
	if j.pipe&1 != 0 {
		guard("print", func() { b.Write(px.Print(r.Root)) })
	}
	if j.pipe&2 != 0 {
		guard("dump", func() { b.Write(px.Dump(r.Root, true, true)) })
	}
	if j.pipe&4 != 0 {
		guard("traverse", func() {
			rec := &recvis.Recorder{}
			px.Traverse(r.Root, rec)
			b.WriteString(strings.Join(rec.Methods, ","))
		})
	}
	if j.pipe&8 != 0 {
		guard("resolve", func() { b.WriteString(resolvedString(r.Root, px.Resolve(r.Root))) })
	}
	if j.pipe&16 != 0 && len(r.Errs) == 0 && !j.nocb {
		guard("format", func() {
			px.Format(r.Root)
			b.Write(px.Print(r.Root))
		})
	}
	return b.String()
}

func drawJob(rt *rapid.T) job {
	v := rapid.SampledFrom(px.AllVersions).Draw(rt, "version")
	var src []byte
	switch rapid.IntRange(0, 3).Draw(rt, "srckind") {
	case 0:
		src, _ = inputs.Any(rt)
	case 1:
		// heredocs whose end depends on the version's side of 7.3
		src = []byte(rapid.SampledFrom([]string{
			"<?php $a = <<<EOT\n  x\n  EOT;\necho 1;\n", "<?php foo(<<<EOT\nhello\nEOT, 1);\n", "<?php $a = <<<EOT\nEOT x\nEOT;\n", "<?php echo <<<'A'\n a\n A\n . 'b';\n",
			"<?php namespace N; use A\\{B, function c}; new B; c(); \\d();", "<?php $x = <<<X\n  X1\n  X;\n",
		}).Draw(rt, "fixed"))
	default:
		c := progs.Draw(rt, v, progs.Options(v), 1, 3)
		src = c.G.Render(c.Root, progs.Policy(rt, phpgen.PolicyFull, nil)).Src
	}
	return job{src: src, ver: v, pipe: rapid.IntRange(0, 31).Draw(rt, "pipeline"), nocb: rapid.IntRange(0, 3).Draw(rt, "handler") == 0}
}

func TestConcurrentPipelines(t *testing.T) {
	harness.Check(t, "concurrent-pipelines", 120, 8000, func(rt *rapid.T) {
		n := rapid.IntRange(8, 40).Draw(rt, "jobs")
		jobs := make([]job, n)
		for i := range jobs {
			jobs[i] = drawJob(rt)
		}
		workers := rapid.IntRange(2, 32).Draw(rt, "goroutines")
		// sequential reference
		ref := make([]string, n)
		for i, j := range jobs {
			ref[i] = j.run()
		}
		// concurrent run behind a start barrier
		got := make([]string, n)
		var wg sync.WaitGroup
		start := make(chan struct{})
		next := make(chan int, n)
		for i := range jobs {
			next <- i
		}
		close(next)
		for w := 0; w < workers; w++ {
			wg.Add(1)
			go func() {
				defer wg.Done()
				<-start
				for i := range next {
					got[i] = jobs[i].run()
				}
			}()
		}
		close(start)
		wg.Wait()
		harness.EvalN(2 * n)
		for i := range jobs {
			if got[i] != ref[i] {
				harness.Fail(rt, "result-differs", jobs[i].src, map[string]string{"version": jobs[i].ver.String(), "pipeline": fmt.Sprint(jobs[i].pipe), "jobs": fmt.Sprint(n), "goroutines": fmt.Sprint(workers)},
					"job %d of %d (version %s, pipeline bits %d) gives a different result when run concurrently on %d goroutines than when run alone: %s\nsource: %q", i, n, jobs[i].ver, jobs[i].pipe, workers, firstDiff(ref[i], got[i]), jobs[i].src)
			}
		}
		fams, pipes := map[bool]bool{}, map[int]bool{}
		for _, j := range jobs {
			fams[j.ver.IsPHP5()] = true
			pipes[j.pipe] = true
		}
		if workers >= 4 && len(fams) == 2 && len(pipes) >= 2 {
			var key []byte
			for _, j := range jobs {
				key = append(key, j.src...)
				key = append(key, byte(j.pipe))
			}
			harness.NonTrivial(key, fmt.Sprintf("%d jobs on %d goroutines; first job: [%s pipeline=%d] %q", n, workers, jobs[0].ver, jobs[0].pipe, trunc(jobs[0].src, 120)))
		}
	})
}

func firstDiff(a, b string) string {
	la, lb := strings.Split(a, "\n"), strings.Split(b, "\n")
	for i := 0; i < len(la) && i < len(lb); i++ {
		if la[i] != lb[i] {
			return fmt.Sprintf("line %d: alone %q, concurrent %q", i, strings.TrimSpace(la[i]), strings.TrimSpace(lb[i]))
		}
	}
	return fmt.Sprintf("%d vs %d lines", len(la), len(lb))
}

func trunc(b []byte, n int) []byte {
	if len(b) > n {
		return b[:n]
	}
	return b
}

// TestParseTwice: parsing the same input twice gives identical trees and errors.
func TestParseTwice(t *testing.T) {
	harness.Check(t, "parse-twice", 8000, 300000, func(rt *rapid.T) {
		j := drawJob(rt)
		a := px.Parse(append([]byte{}, j.src...), j.ver, true)
		b := px.Parse(append([]byte{}, j.src...), j.ver, true)
		harness.EvalN(2)
		if a.Panic != "" || b.Panic != "" {
			return
		}
		if px.ErrString(a.Errs) != px.ErrString(b.Errs) {
			harness.Fail(rt, "parse-twice", j.src, map[string]string{"version": j.ver.String()}, "[%s] two parses of the same input report different errors", j.ver)
		}
		if astx.IsNil(a.Root) != astx.IsNil(b.Root) {
			harness.Fail(rt, "parse-twice", j.src, map[string]string{"version": j.ver.String()}, "[%s] two parses of the same input: one returns a tree, one does not", j.ver)
		}
		if !astx.IsNil(a.Root) {
			if d := astx.Equal(a.Root, b.Root, astx.WithTokens|astx.WithPositions); d != "" {
				harness.Fail(rt, "parse-twice", j.src, map[string]string{"version": j.ver.String()}, "[%s] two parses of the same input give different trees: %s", j.ver, d)
			}
		}
	})
}

func TestReplay(t *testing.T) {
	if harness.ReplayPath() == "" {
		t.Skip("no VERIF_REPLAY")
	}
	t.Skip("job sets replay through the rapid seed recorded in the replay file; race reports are kept as the shard log")
}
