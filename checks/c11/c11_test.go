// C11 — Concurrent use on different inputs is safe and deterministic.
// Built with -race by the driver.
package c11

import (
	"bytes"
	"encoding/base64"
	"encoding/json"
	"fmt"
	"runtime"
	"sort"
	"strings"
	"sync"
	"testing"

	"github.com/z7zmey/php-parser/pkg/ast"
	"github.com/z7zmey/php-parser/pkg/errors"
	"pgregory.net/rapid"

	"verif/astx"
	"verif/checks/c14"
	"verif/harness"
	"verif/inputs"
	"verif/phpgen"
	"verif/progs"
	"verif/px"
	"verif/recvis"
)

func TestMain(m *testing.M) { harness.Main(m, "C11") }

type job struct {
	src  []byte
	ver  px.Ver
	pipe int  // bit set: 1 print, 2 dump, 4 traverse, 8 resolve, 16 format+print
	nocb bool // parse without an error handler (conf.Config.ErrorHandlerFunc == nil)
}

func resolvedString(root ast.Vertex, m map[ast.Vertex]string) string {
	idx := map[ast.Vertex]int{}
	for i, n := range astx.Nodes(root) {
		idx[n] = i
	}
	var out []string
	for n, s := range m {
		out = append(out, fmt.Sprintf("%06d %s=%s", idx[n], astx.KindName(n), s))
	}
	sort.Strings(out)
	return strings.Join(out, "\n")
}

// run executes one pipeline and renders everything observable as text.
func (j job) run() string {
	var b strings.Builder
	r := px.Parse(append([]byte{}, j.src...), j.ver, !j.nocb)
	if r.Panic != "" {
		return "PANIC " + r.Panic
	}
	b.WriteString(px.ErrString(r.Errs))
	if astx.IsNil(r.Root) {
		return b.String() + "nil root"
	}
	b.WriteString(astx.Fingerprint(r.Root))
	guard := func(name string, f func()) {
		if p := px.Guard(f); p != "" {
			b.WriteString("PANIC in " + name + ": " + strings.SplitN(p, "\n", 2)[0])
		}
	}
	if j.pipe&1 != 0 {
		guard("print", func() { b.Write(px.Print(r.Root)) })
	}
	if j.pipe&2 != 0 {
		guard("dump", func() { b.Write(px.Dump(r.Root, true, true)) })
	}
	if j.pipe&4 != 0 {
		guard("traverse", func() {
			rec := &recvis.Recorder{}
			px.Traverse(r.Root, rec)
			b.WriteString(strings.Join(rec.Methods, ","))
		})
	}
	if j.pipe&8 != 0 {
		guard("resolve", func() { b.WriteString(resolvedString(r.Root, px.Resolve(r.Root))) })
	}
	if j.pipe&16 != 0 && len(r.Errs) == 0 && !j.nocb {
		guard("format", func() {
			px.Format(r.Root)
			b.Write(px.Print(r.Root))
		})
	}
	return b.String()
}

// drawTwinJob draws from a deliberately small family of inputs: the same few bytes of prefix, then a
// double-quoted string, backquote string or heredoc assembled from a tiny alphabet of escape-relevant
// pieces. Members of the family agree in most offsets and differ in what stands there, so state that
// a recycled lexer or parser keeps per offset, per length or per prefix (memo tables, line tables,
// stacks) and forgets to reset meets an input on which it is wrong.
func drawTwinJob(rt *rapid.T) job {
	v := rapid.SampledFrom([]px.Ver{px.V56, px.V72, px.V74}).Draw(rt, "version")
	open, cls := "\"", "\";"
	switch rapid.IntRange(0, 3).Draw(rt, "ctx") {
	case 0:
		open, cls = "`", "`;"
	case 1:
		open, cls = "<<<A\n", "\nA;\n"
	}
	b := []byte("<?php $a = " + open)
	for i, n := 0, rapid.IntRange(1, 6).Draw(rt, "pieces"); i < n; i++ {
		b = append(b, rapid.SampledFrom([]string{"\\", "\\\\", "$b", "x", ",", "\\\"", "\\$", "{$c}", "\n", " ", "${d}", "$b[0]", "$b->e", "{", "$"}).Draw(rt, "piece")...)
	}
	b = append(b, cls...)
	if rapid.IntRange(0, 3).Draw(rt, "tail") == 0 {
		b = append(b, " echo 'y\\'', \"z\";\n"...)
	}
	return job{src: b, ver: v, pipe: rapid.IntRange(0, 31).Draw(rt, "pipeline"), nocb: rapid.IntRange(0, 3).Draw(rt, "handler") == 0}
}

func drawJob(rt *rapid.T) job { return drawJobOf(rt, -1) }

// drawJobOf draws a job whose source is of the given kind (-1: drawn).
func drawJobOf(rt *rapid.T, kind int) job {
	v := rapid.SampledFrom(px.AllVersions).Draw(rt, "version")
	var src []byte
	pipeMask := 0
	if kind < 0 {
		kind = rapid.IntRange(0, 5).Draw(rt, "srckind")
	}
	switch kind {
	case 5:
		// the PHP 5 grammar's own reports (by-reference foreach key, trait with extends / implements), behind a
		// drawn number of lines so that two such jobs report different positions; mostly under a 5.x version
		src = append(bytes.Repeat([]byte("\n"), rapid.IntRange(0, 40).Draw(rt, "lines")), inputs.SemanticErrorProgram(rt)...)
		if rapid.IntRange(0, 3).Draw(rt, "php5") != 0 {
			v = rapid.SampledFrom([]px.Ver{px.V56, {Major: 5, Minor: 3}, {Major: 5, Minor: 0}}).Draw(rt, "version5")
		}
	case 0:
		src, _ = inputs.Any(rt)
	case 4:
		// work for the name resolver: imports of every kind, aliases, references in every position —
		// and aliases repeated in another letter case, where an order-dependent lookup has a choice
		src = c14.DrawSource(rt, !v.IsPHP5(), true)
		pipeMask = 8
	case 1:
		// heredocs whose end depends on the version's side of 7.3
		src = []byte(rapid.SampledFrom([]string{
			"<?php $a = <<<EOT\n  x\n  EOT;\necho 1;\n", "<?php foo(<<<EOT\nhello\nEOT, 1);\n", "<?php $a = <<<EOT\nEOT x\nEOT;\n", "<?php echo <<<'A'\n a\n A\n . 'b';\n",
			"<?php namespace N; use A\\{B, function c}; new B; c(); \\d();", "<?php $x = <<<X\n  X1\n  X;\n",
		}).Draw(rt, "fixed"))
	default:
		c := progs.Draw(rt, v, progs.StructuralOptions(v), 1, 3)
		src = c.G.Render(c.Root, progs.Policy(rt, phpgen.PolicyFull, nil)).Src
	}
	return job{src: src, ver: v, pipe: rapid.IntRange(0, 31).Draw(rt, "pipeline") | pipeMask, nocb: rapid.IntRange(0, 3).Draw(rt, "handler") == 0}
}

func TestConcurrentPipelines(t *testing.T) {
	harness.Check(t, "concurrent-pipelines", 120, 2000, func(rt *rapid.T) {
		n := rapid.IntRange(8, 40).Draw(rt, "jobs")
		jobs := make([]job, n)
		twins := rapid.IntRange(0, 3).Draw(rt, "twins") == 0
		for i := range jobs {
			if twins {
				jobs[i] = drawTwinJob(rt)
			} else {
				jobs[i] = drawJob(rt)
			}
		}
		workers := rapid.IntRange(2, 32).Draw(rt, "goroutines")
		// sequential reference, then the same jobs on the goroutines behind a start barrier
		i, ref, got := runConcurrently(jobs, workers)
		harness.EvalN(2 * n)
		if i >= 0 {
			harness.Fail(rt, "result-differs", jobs[i].src, map[string]string{"version": jobs[i].ver.String(), "pipeline": fmt.Sprint(jobs[i].pipe), "jobs": jobsJSON(jobs), "goroutines": fmt.Sprint(workers)},
				"job %d of %d (version %s, pipeline bits %d) gives a different result when run concurrently on %d goroutines than when run alone: %s\nsource: %q", i, n, jobs[i].ver, jobs[i].pipe, workers, firstDiff(ref, got), jobs[i].src)
		}
		fams, pipes := map[bool]bool{}, map[int]bool{}
		for _, j := range jobs {
			fams[j.ver.IsPHP5()] = true
			pipes[j.pipe] = true
		}
		if workers >= 4 && len(fams) == 2 && len(pipes) >= 2 {
			var key []byte
			for _, j := range jobs {
				key = append(key, j.src...)
				key = append(key, byte(j.pipe))
			}
			harness.NonTrivial(key, fmt.Sprintf("%d jobs on %d goroutines; first job: [%s pipeline=%d] %q", n, workers, jobs[0].ver, jobs[0].pipe, trunc(jobs[0].src, 120)))
		}
	})
}

func firstDiff(a, b string) string {
	la, lb := strings.Split(a, "\n"), strings.Split(b, "\n")
	for i := 0; i < len(la) && i < len(lb); i++ {
		if la[i] != lb[i] {
			return fmt.Sprintf("line %d: alone %q, concurrent %q", i, strings.TrimSpace(la[i]), strings.TrimSpace(lb[i]))
		}
	}
	return fmt.Sprintf("%d vs %d lines", len(la), len(lb))
}

func trunc(b []byte, n int) []byte {
	if len(b) > n {
		return b[:n]
	}
	return b
}

// TestParseTwice: parsing the same input twice gives identical trees and errors.
func TestParseTwice(t *testing.T) {
	harness.Check(t, "parse-twice", 8000, 130000, func(rt *rapid.T) {
		j := drawJob(rt)
		a := px.Parse(append([]byte{}, j.src...), j.ver, true)
		b := px.Parse(append([]byte{}, j.src...), j.ver, true)
		harness.EvalN(2)
		if a.Panic != "" || b.Panic != "" {
			return
		}
		if px.ErrString(a.Errs) != px.ErrString(b.Errs) {
			harness.Fail(rt, "parse-twice", j.src, map[string]string{"version": j.ver.String()}, "[%s] two parses of the same input report different errors", j.ver)
		}
		if astx.IsNil(a.Root) != astx.IsNil(b.Root) {
			harness.Fail(rt, "parse-twice", j.src, map[string]string{"version": j.ver.String()}, "[%s] two parses of the same input: one returns a tree, one does not", j.ver)
		}
		if !astx.IsNil(a.Root) {
			if d := astx.Equal(a.Root, b.Root, astx.WithTokens|astx.WithPositions); d != "" {
				harness.Fail(rt, "parse-twice", j.src, map[string]string{"version": j.ver.String()}, "[%s] two parses of the same input give different trees: %s", j.ver, d)
			}
		}
	})
}

// TestRunRepeatedly: every observable result of a pipeline (errors, tree, printed text, dump, visited
// methods, resolved names, formatted text) is a function of the input and the configuration: the same
// job run four times in a row, alone, gives the same text each time ("parsing the same input twice always
// gives identical trees and errors"; for the other operations this is the sequential base case of "equals
// the result obtained alone" — a result that varies from run to run has no "result obtained alone").
func TestRunRepeatedly(t *testing.T) {
	harness.Check(t, "run-repeatedly", 3000, 48000, func(rt *rapid.T) {
		j := drawJob(rt)
		if rapid.IntRange(0, 3).Draw(rt, "family") == 0 {
			j = drawTwinJob(rt)
		}
		first := j.run()
		harness.Eval()
		for i := 1; i < 4; i++ {
			again := j.run()
			harness.Eval()
			if again != first {
				harness.Fail(rt, "run-repeatedly", j.src, map[string]string{"jobs": jobsJSON([]job{j}), "mode": "repeat"}, "[%s pipe=%d nocb=%v] run %d of the same job differs from run 1: %s", j.ver, j.pipe, j.nocb, i+1, firstDiff(first, again))
			}
		}
		if j.pipe&8 != 0 && j.pipe&^8 != 0 {
			harness.NonTrivial(j.src, fmt.Sprintf("[%s pipe=%d] %q", j.ver, j.pipe, trunc(j.src, 200)))
		}
	})
}

// TestParseHistory: a parse is a function of its input and configuration only. A drawn history of
// parses of a few different jobs (other inputs, other versions, with and without handler), with
// garbage collections in between (which empty sync.Pool-style caches), must give every job the same
// trees and errors each time it comes round, and a tree kept from an earlier parse must not change
// while later parses run (objects handed out by a parser's pools stay valid after the parser is gone).
func TestParseHistory(t *testing.T) {
	harness.Check(t, "parse-history", 600, 10000, func(rt *rapid.T) {
		n := rapid.IntRange(2, 5).Draw(rt, "jobs")
		jobs := make([]job, n)
		family := rapid.IntRange(0, 5).Draw(rt, "twins")
		twins := family <= 1
		for i := range jobs {
			switch {
			case twins:
				jobs[i] = drawTwinJob(rt)
			case family == 2:
				jobs[i] = drawJobOf(rt, 5) // every job makes the PHP 5 grammar report its own errors, at different positions
			case family == 3:
				jobs[i] = drawJobOf(rt, 4) // every job is import-heavy: work (and room for leftovers) for the name resolver
			default:
				jobs[i] = drawJob(rt)
			}
			jobs[i].pipe = 0
		}
		if family == 2 {
			harness.Class("parse-history:grammar-reported-errors")
		}
		if twins {
			harness.Class("parse-history:twin-inputs")
		}
		type kept struct {
			res    string
			root   ast.Vertex
			fp     string
			errs   []*errors.Error // the error objects the handler received, and how they read at that time
			errStr string
			names  map[ast.Vertex]string // the resolver's result for the kept tree, and how it read at that time
			nmStr  string
		}
		first := map[int]*kept{}
		steps := rapid.IntRange(3, 14).Draw(rt, "steps")
		hist := ""
		for s := 0; s < steps; s++ {
			if rapid.IntRange(0, 4).Draw(rt, "gc") == 0 {
				runtime.GC()
				runtime.GC()
				hist += " gc"
				continue
			}
			i := rapid.IntRange(0, n-1).Draw(rt, "job")
			j := jobs[i]
			hist += fmt.Sprintf(" %d(%s)", i, j.ver)
			r := px.Parse(append([]byte{}, j.src...), j.ver, !j.nocb)
			harness.Eval()
			if r.Panic != "" {
				return
			}
			res := px.ErrString(r.Errs)
			if astx.IsNil(r.Root) {
				res += "nil root"
			} else {
				res += astx.Fingerprint(r.Root)
			}
			mt := map[string]string{"version": j.ver.String(), "history": hist, "jobs": jobsJSON(jobs)}
			if k, ok := first[i]; ok {
				if k.res != res {
					harness.Fail(rt, "history-dependent", j.src, mt, "after history%s, job %d (version %s) parses differently than the first time it was parsed in this history: %s\nsource: %q", hist, i, j.ver, firstDiff(k.res, res), j.src)
				}
			} else {
				k := &kept{res: res, root: r.Root, errs: r.Errs, errStr: px.ErrString(r.Errs)}
				if !astx.IsNil(r.Root) {
					if p := px.Guard(func() { k.names = px.Resolve(r.Root) }); p == "" {
						k.nmStr = resolvedString(r.Root, k.names)
					} else {
						k.names = nil
					}
					k.fp = astx.Fingerprint(r.Root) // taken after the resolver's pass: later passes must not change it either
				}
				first[i] = k
			}
		}
		// trees kept from earlier parses are compared once, after the whole history
		for q := 0; q < n; q++ {
			if k := first[q]; k != nil && !astx.IsNil(k.root) && astx.Fingerprint(k.root) != k.fp {
				mt := map[string]string{"version": jobs[q].ver.String(), "history": hist, "jobs": jobsJSON(jobs)}
				harness.Fail(rt, "kept-tree-changed", jobs[q].src, mt, "after history%s the tree kept from the first parse of job %d has changed: %s", hist, q, firstDiff(k.fp, astx.Fingerprint(k.root)))
			}
		}
		// so are the error objects the handler was given
		for q := 0; q < n; q++ {
			if k := first[q]; k != nil && px.ErrString(k.errs) != k.errStr {
				mt := map[string]string{"version": jobs[q].ver.String(), "history": hist, "jobs": jobsJSON(jobs)}
				harness.Fail(rt, "kept-errors-changed", jobs[q].src, mt, "after history%s the errors delivered by the first parse of job %d read differently: %s", hist, q, firstDiff(k.errStr, px.ErrString(k.errs)))
			}
		}
		// and the names resolved for a kept tree: the map handed out then reads the same, and resolving the
		// kept tree once more, after everything else that ran, gives that result again
		for q := 0; q < n; q++ {
			k := first[q]
			if k == nil || k.names == nil || astx.IsNil(k.root) {
				continue
			}
			mt := map[string]string{"version": jobs[q].ver.String(), "history": hist, "jobs": jobsJSON(jobs)}
			if now := resolvedString(k.root, k.names); now != k.nmStr {
				harness.Fail(rt, "kept-names-changed", jobs[q].src, mt, "after history%s the resolved-names map obtained for job %d reads differently: %s", hist, q, firstDiff(k.nmStr, now))
			}
			var again map[ast.Vertex]string
			if p := px.Guard(func() { again = px.Resolve(k.root) }); p == "" {
				if now := resolvedString(k.root, again); now != k.nmStr {
					harness.Fail(rt, "resolution-history-dependent", jobs[q].src, mt, "after history%s resolving the tree of job %d again gives other names than the first time: %s", hist, q, firstDiff(k.nmStr, now))
				}
			}
		}
		if strings.Contains(hist, "gc") && len(first) >= 2 {
			harness.NonTrivial([]byte(hist+string(jobs[0].src)), "parse history:"+hist)
		}
		harness.Class("parse-history")
	})
}

type jobRec struct {
	Src  string `json:"src_b64"`
	Ver  string `json:"version"`
	Pipe int    `json:"pipeline"`
	NoCB bool   `json:"no_handler"`
}

func jobsJSON(jobs []job) string {
	var out []jobRec
	for _, j := range jobs {
		out = append(out, jobRec{base64.StdEncoding.EncodeToString(j.src), j.ver.String(), j.pipe, j.nocb})
	}
	b, _ := json.Marshal(out)
	return string(b)
}

// runConcurrently runs the job set sequentially and then on the given number of goroutines behind a
// start barrier; it returns the index of the first job whose results differ (-1 if none).
func runConcurrently(jobs []job, workers int) (int, string, string) {
	n := len(jobs)
	ref := make([]string, n)
	for i, j := range jobs {
		ref[i] = j.run()
	}
	got := make([]string, n)
	var wg sync.WaitGroup
	start := make(chan struct{})
	next := make(chan int, n)
	for i := range jobs {
		next <- i
	}
	close(next)
	for w := 0; w < workers; w++ {
		wg.Add(1)
		go func() {
			defer wg.Done()
			<-start
			for i := range next {
				got[i] = jobs[i].run()
			}
		}()
	}
	close(start)
	wg.Wait()
	for i := range jobs {
		if got[i] != ref[i] {
			return i, ref[i], got[i]
		}
	}
	return -1, "", ""
}

// TestReplay re-runs a recorded job set (meta.jobs) concurrently, several times: the race detector and
// the result comparison are the same as in the generated runs. A recorded parse history is re-run in
// its recorded order.
func TestReplay(t *testing.T) {
	path := harness.ReplayPath()
	if path == "" {
		t.Skip("no VERIF_REPLAY")
	}
	vi, _, err := harness.LoadReplay(path)
	if err != nil {
		t.Skip("not a JSON replay file (race reports are kept as the shard log): " + err.Error())
	}
	var recs []jobRec
	if err := json.Unmarshal([]byte(vi.Meta["jobs"]), &recs); err != nil || len(recs) == 0 {
		t.Skip("the replay file carries no job set")
	}
	var jobs []job
	for _, r := range recs {
		src, _ := base64.StdEncoding.DecodeString(r.Src)
		var v px.Ver
		fmt.Sscanf(r.Ver, "%d.%d", &v.Major, &v.Minor)
		jobs = append(jobs, job{src: src, ver: v, pipe: r.Pipe, nocb: r.NoCB})
	}
	if h := vi.Meta["history"]; h != "" {
		first := map[int]string{}
		for _, f := range strings.Fields(h) {
			if f == "gc" {
				runtime.GC()
				runtime.GC()
				continue
			}
			var i int
			fmt.Sscanf(f, "%d(", &i)
			if i < 0 || i >= len(jobs) {
				continue
			}
			j := jobs[i]
			j.pipe = 0
			res := j.run()
			harness.Eval()
			if prev, ok := first[i]; ok && prev != res {
				harness.Failf(t, "parse-history/history-dependent", j.src, vi.Meta, "job %d parses differently than the first time in the recorded history: %s", i, firstDiff(prev, res))
				return
			} else if !ok {
				first[i] = res
			}
		}
		return
	}
	if vi.Meta["mode"] == "repeat" {
		first := jobs[0].run()
		for i := 1; i < 16; i++ {
			harness.Eval()
			if again := jobs[0].run(); again != first {
				harness.Failf(t, "run-repeatedly/run-repeatedly", jobs[0].src, vi.Meta, "run %d of the same job differs from run 1: %s", i+1, firstDiff(first, again))
				return
			}
		}
		return
	}
	workers := 8
	fmt.Sscan(vi.Meta["goroutines"], &workers)
	for round := 0; round < 20; round++ {
		harness.EvalN(2 * len(jobs))
		if i, ref, got := runConcurrently(jobs, workers); i >= 0 {
			harness.Failf(t, "concurrent-pipelines/result-differs", jobs[i].src, vi.Meta, "job %d gives a different result when run concurrently: %s", i, firstDiff(ref, got))
			return
		}
	}
}
