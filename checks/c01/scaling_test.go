package c01

import (
	"bytes"
	"fmt"
	"runtime"
	"runtime/debug"
	"syscall"
	"testing"
	"time"

	"pgregory.net/rapid"

	"verif/harness"
	"verif/inputs"
	"verif/px"
)

// threadCPU is the CPU time (user+system) consumed so far by the calling OS thread
// (RUSAGE_THREAD). Unlike the wall clock it does not advance while the thread waits for a core, so
// the ratios below stay meaningful on a loaded machine.
func threadCPU() time.Duration {
	var ru syscall.Rusage
	if err := syscall.Getrusage(1 /* RUSAGE_THREAD */, &ru); err != nil {
		return 0
	}
	return time.Duration(ru.Utime.Nano() + ru.Stime.Nano())
}

type timed struct {
	cpu   time.Duration
	hang  bool
	panic string
}

// parseTimed parses src on a goroutine locked to its own OS thread and returns the thread CPU
// time of the parse alone.
func parseTimed(src []byte, v px.Ver, limit time.Duration) timed {
	ch := make(chan timed, 1)
	go func() {
		runtime.LockOSThread()
		defer runtime.UnlockOSThread()
		// no collection while the clock runs: how much marking the parsing goroutine is made to do
		// (GC assists) depends on how busy the other cores are, not on the parser; the collection
		// happens afterwards, outside the measurement, and leaves a warm heap for the next parse
		old := debug.SetGCPercent(-1)
		t0 := threadCPU()
		r := px.Parse(src, v, true)
		d := threadCPU() - t0
		debug.SetGCPercent(old)
		p := r.Panic
		r = px.Result{}
		runtime.GC()
		ch <- timed{cpu: d, panic: p}
	}()
	select {
	case r := <-ch:
		return r
	case <-time.After(limit):
		return timed{hang: true}
	}
}

var scalePrefixes = []string{
	"<?php ", "<?php ", "<?php\n", "", "<?php \"", "<?php \"$a ", "<?php $x = <<<EOT\n", "<?php $x = <<<'EOT'\n", "<?php $x = <<<\"EOT\"\n  ",
	"<?php `", "<?php `$a ", "<?php /*", "<?php /**\n", "<?php //", "<?php #", "<?php '", "<?php $a->", "<?php $a = [", "<?php f(", "<?php b\"",
	"<?php ?>", "<?= ", "#!/bin/sh\n<?php ", "<?php __halt_compiler();", "<?php \"{$a[", "<?php \"${a", "<?php function f() { ", "<?php class A { ",
	"<?php namespace A; ", "<?php switch ($a) { ", "<?php if ($a): ", "<?php $a = ", "<?php echo ", "<?php use A\\{",
}

var scaleUnits = []string{
	"\\", "\\\\", "$", "$$", "{", "}", "{$", "${", "(", ")", "[", "]", "<", "<<", "<<<", "?", "?>", "<?", "<?php ", "<?= ", "\"", "'", "`", "\n", "\r", "\r\n", " ", "\t",
	"a", "$a", "1", "0x1", "1.5e3", ".", "..", "...", ",", ";", ":", "::", "->", "=>", "=", "==", "&", "&&", "|", "+", "-", "*", "/", "/*", "*/", "//", "#", "@", "!", "~", "^", "%",
	"$a = 1;\n", "$a = ;", "f(", "$a[", "$a->b", "A\\B", "\\A", "else ", "elseif ($a) ", "if ($a) ", "if ($a): ", "endif; ", "case 1: ", "{ }", "( )", "[ ]", "new A", "fn($x) => ", "function () { ", "static ", "yield ", "yield from ",
	"\"$a\" ", "\"{$a}\" ", "'x' ", "`$a` ", "<<<A\nx\nA;\n", "<<<A\n$a\nA\n;", "<<<'A'\nA;\n", "EOT", "EOT;\n", " EOT\n", "?>x<?php ", "?>\n", "/* c */", "/** d */", "// c\n", "# c\n", "(int)", "( string )",
	"\x00", "\x01", "\x7f", "\x80", "\xff", "$a ?? ", "$a ? : ", "$a ? $b : ", "- -", "+ +", "!!", "@@", "&$a", "list(", "list($a, ", "array(", "echo $a, ", "use A, ", "const A = 1, ", "int|", "?A ", "A::", "A::b", "A::$b", "$a::", "->{", "::{",
}

var scaleMids = []string{"", "1", "$a", " ", ";", "\n", "x"}

var scaleClosers = []string{")", "]", "}", "};", " endif;", " endwhile;", "))", "}}", "\"", ")]", ";}", "->b", "[0]", " : 1)", ")()", "; }"}

var scaleSuffixes = []string{"", "", "", ";", "\"", "\";", "\nEOT;\n", "`", "*/", "\n", ")", "]", "}", "?>", "1;"}

// shape is prefix · unit^n · mid · unit2^n · suffix (unit2 empty: plain repetition; otherwise
// n openers followed by n closers, i.e. nesting of depth n).
type shape struct {
	prefix, unit, mid, unit2, suffix string
}

func (sh shape) String() string {
	if sh.unit2 == "" {
		return fmt.Sprintf("%q + %q x n + %q", sh.prefix, sh.unit, sh.suffix)
	}
	return fmt.Sprintf("%q + %q x n + %q + %q x n + %q", sh.prefix, sh.unit, sh.mid, sh.unit2, sh.suffix)
}

func (sh shape) meta(m map[string]string) map[string]string {
	m["prefix"], m["unit"], m["mid"], m["unit2"], m["suffix"] = sh.prefix, sh.unit, sh.mid, sh.unit2, sh.suffix
	return m
}

func (sh shape) build(size int) []byte {
	n := size / (len(sh.unit) + len(sh.unit2))
	if n < 1 {
		n = 1
	}
	b := make([]byte, 0, size+len(sh.prefix)+len(sh.mid)+len(sh.suffix)+8)
	b = append(b, sh.prefix...)
	b = append(b, bytes.Repeat([]byte(sh.unit), n)...)
	if sh.unit2 != "" {
		b = append(b, sh.mid...)
		b = append(b, bytes.Repeat([]byte(sh.unit2), n)...)
	}
	b = append(b, sh.suffix...)
	return b
}

func buildRep(prefix string, unit []byte, suffix string, size int) []byte {
	return shape{prefix: prefix, unit: string(unit), suffix: suffix}.build(size)
}

const (
	scaleBase   = 24 << 10
	scaleFactor = 4
	// a quadratic algorithm multiplies its time by 16 when the input grows 4x, n·log n by ~4.3, n^1.5 by 8
	scaleRatio = 10.0
)

// unterminatedQuotes counts the single quotes from which PHP's single-quoted-string rule (a
// backslash escapes the next byte) reaches the end of the input without finding a closing quote.
// Each of them costs the scanner a look-ahead to the end of the input (finding
// unterminated-quote-rescan). One backward pass, linear.
func unterminatedQuotes(src []byte) int {
	n := len(src)
	ok := make([]bool, n+2) // ok[j]: a scan that is inside a string at offset j finds a closing quote
	for j := n - 1; j >= 0; j-- {
		switch src[j] {
		case '\'':
			ok[j] = true
		case '\\':
			ok[j] = ok[j+2]
		default:
			ok[j] = ok[j+1]
		}
	}
	c := 0
	for i := 0; i < n; i++ {
		if src[i] == '\'' && !ok[i+1] {
			c++
		}
	}
	return c
}

// unterminatedComments counts the "/*" openers that no "*/" follows.
func unterminatedComments(src []byte) int {
	last := bytes.LastIndex(src, []byte("*/"))
	c := 0
	for i := 0; i+1 < len(src); i++ {
		if src[i] == '/' && src[i+1] == '*' && i+2 > last {
			c++
		}
	}
	return c
}

// knownSlowShape names the open finding whose trigger the input contains ("" if none).
func knownSlowShape(src []byte) string {
	if harness.FindingOpen("unterminated-opener-rescan") && unterminatedQuotes(src)+unterminatedComments(src) >= 16 {
		return "unterminated-opener-rescan"
	}
	return ""
}

// scalingVerdict measures a shape at three sizes (x1, x4 and x16 — or x8 when x4 already takes
// seconds). It reports a violation only if BOTH steps multiply the CPU time far beyond the growth
// of the input and the largest input is slow in absolute terms, i.e. the growth is consistently
// far from proportional.
func scalingVerdict(sh shape, v px.Ver) (bad bool, msg string, hang bool, big []byte) {
	s1, s2 := sh.build(scaleBase), sh.build(scaleBase*scaleFactor)
	// the middle size first: a shape whose 96 KiB parse stays under 40 ms of CPU time cannot satisfy
	// the verdict below (it needs > 40 ms there), so the other sizes need not be measured at all
	t2 := parseTimed(s2, v, 120*time.Second)
	if t2.hang || t2.panic != "" {
		return true, fmt.Sprintf("size %d: hang=%v panic=%s", len(s2), t2.hang, t2.panic), t2.hang, s2
	}
	harness.EvalN(1)
	if t2.cpu < 40*time.Millisecond {
		return false, "", false, nil
	}
	t1 := parseTimed(s1, v, 60*time.Second)
	if t1.hang || t1.panic != "" {
		return true, fmt.Sprintf("size %d: hang=%v panic=%s", len(s1), t1.hang, t1.panic), t1.hang, s1
	}
	harness.EvalN(1)
	slack := 2 * time.Millisecond
	r12 := float64(t2.cpu) / float64(t1.cpu+slack)
	if r12 <= scaleRatio {
		return false, "", false, nil
	}
	// suspicious. Measure again before believing it: the first parse of a size pays for memory the
	// process has never touched (heap growth, page faults — very expensive on a freshly restored
	// virtual machine, where the small size ran in warm memory and the large one did not), the
	// second one runs in the heap the first one left behind. Every size counts with its best time.
	best := func(src []byte, first timed, limit time.Duration) timed {
		if again := parseTimed(src, v, limit); !again.hang && again.panic == "" && again.cpu < first.cpu {
			return again
		}
		return first
	}
	t2 = best(s2, t2, 120*time.Second)
	t1 = best(s1, t1, 60*time.Second)
	harness.EvalN(2)
	if float64(t2.cpu)/float64(t1.cpu+slack) <= scaleRatio {
		return false, "", false, nil
	}
	step, need := scaleFactor, scaleRatio
	if t2.cpu > 1500*time.Millisecond {
		step, need = 2, 3.2 // quadratic: x4 for twice the input; proportional: x2
	}
	s3 := sh.build(scaleBase * scaleFactor * step)
	t3 := parseTimed(s3, v, 300*time.Second)
	harness.EvalN(1)
	if t3.hang {
		return true, fmt.Sprintf("inputs of %d / %d / %d bytes took %v / %v / more than 300 s", len(s1), len(s2), len(s3), t1.cpu, t2.cpu), true, s2
	}
	if float64(t3.cpu)/float64(t2.cpu+slack) > need {
		t3 = best(s3, t3, 300*time.Second)
		harness.EvalN(1)
	}
	r12 = float64(t2.cpu) / float64(t1.cpu+slack)
	r23 := float64(t3.cpu) / float64(t2.cpu+slack)
	if r12 > scaleRatio && r23 > need && t3.cpu > 500*time.Millisecond {
		return true, fmt.Sprintf("inputs of %d / %d / %d bytes (the same unit repeated) took %v / %v / %v of CPU time: 4x the input multiplies the time by %.1f and a further %dx by %.1f — parsing time is not roughly proportional to the input length",
			len(s1), len(s2), len(s3), t1.cpu, t2.cpu, t3.cpu, r12, step, r23), false, s2
	}
	return false, "", false, nil
}

// TestRepetitionScaling searches for super-linear behaviour: a drawn lexical context (prefix), a
// drawn unit of 1-3 fragments repeated to 24 KiB, 96 KiB (and, when suspicious, 384 KiB), and a drawn
// closer. Long runs of one fragment are what drives look-behind / look-ahead helpers, line tables,
// stacks and recovery loops into their worst case.
func TestRepetitionScaling(t *testing.T) {
	harness.Check(t, "repetition-scaling", 1600, 60000, func(rt *rapid.T) {
		v := rapid.SampledFrom([]px.Ver{px.V56, px.V72, px.V74}).Draw(rt, "version")
		sh := shape{prefix: rapid.SampledFrom(scalePrefixes).Draw(rt, "prefix")}
		k := rapid.IntRange(1, 3).Draw(rt, "fragments")
		for i := 0; i < k; i++ {
			if rapid.IntRange(0, 5).Draw(rt, "dict") == 0 {
				sh.unit += rapid.SampledFrom(inputs.Dict).Draw(rt, "d")
			} else {
				sh.unit += rapid.SampledFrom(scaleUnits).Draw(rt, "u")
			}
		}
		if len(sh.unit) == 0 {
			sh.unit = " "
		}
		if rapid.IntRange(0, 4).Draw(rt, "nested") == 0 {
			sh.mid = rapid.SampledFrom(scaleMids).Draw(rt, "mid")
			sh.unit2 = rapid.SampledFrom(scaleClosers).Draw(rt, "closer")
			harness.Class("repetition-scaling:nested")
		}
		sh.suffix = rapid.SampledFrom(scaleSuffixes).Draw(rt, "suffix")
		if k := knownSlowShape(sh.build(scaleBase)); k != "" {
			harness.Excluded(k)
			return
		}
		harness.Class("repetition-scaling")
		harness.NonTrivial([]byte(v.String()+"\x00"+sh.String()), fmt.Sprintf("[%s] %s at 24/96 KiB", v, sh))
		bad, msg, hang, big := scalingVerdict(sh, v)
		if bad {
			m := sh.meta(meta(v, true))
			if hang {
				harness.Report("repetition-scaling/hang", fmt.Sprintf("[%s] %s: %s", v, sh, msg), big, m)
				harness.FlushAndExit(1)
			}
			harness.Fail(rt, "superlinear", big, m, "[%s] %s: %s", v, sh, msg)
		}
	})
}

// TestUnitSweep is the exhaustive base layer under the drawn search: every lexical context of
// scalePrefixes x every single fragment of scaleUnits and of the hostile dictionary, repeated to
// 96 KiB (and measured at the other sizes when that is slow). A run of one fragment — blanks inside a
// heredoc, backslashes inside a string, "<" in HTML — is the commonest way into a look-behind or
// look-ahead helper's worst case, and the drawn search meets a given (context, fragment) pair only
// about once in 10 000 cases. The quick tier measures each pair under one of the three versions
// (rotating with the seed), the thorough tier under all of them.
func TestUnitSweep(t *testing.T) {
	units := append(append([]string{}, scaleUnits...), inputs.Dict...)
	seen := map[string]bool{}
	vers := []px.Ver{px.V56, px.V72, px.V74}
	idx := 0
	for _, prefix := range scalePrefixes {
		for _, u := range units {
			key := prefix + "\x00" + u
			if seen[key] || u == "" {
				continue
			}
			seen[key] = true
			idx++
			if !harness.MyShare(idx) {
				continue
			}
			sh := shape{prefix: prefix, unit: u}
			if k := knownSlowShape(sh.build(scaleBase)); k != "" {
				harness.Excluded(k)
				continue
			}
			vs := vers
			if !harness.Thorough() {
				vs = []px.Ver{vers[(idx+int(harness.Seed()))%3]}
			}
			for _, v := range vs {
				harness.Class("unit-sweep")
				harness.NonTrivial([]byte("sweep/"+v.String()+sh.String()), "")
				bad, msg, hang, big := scalingVerdict(sh, v)
				if bad {
					harness.Failf(t, "unit-sweep/superlinear", big, sh.meta(meta(v, true)), "[%s] %s: %s", v, sh, msg)
					if hang {
						harness.FlushAndExit(1)
					}
					return
				}
			}
		}
	}
	if harness.Thorough() {
		harness.Exhaustive(fmt.Sprintf("repetition of every single fragment (%d) in every lexical context (%d) under 5.6, 7.2 and 7.4", len(units), len(scalePrefixes)))
	}
}

// TestKnownSlowShapes re-measures the reproducer of each open scaling finding: while it is still
// super-linear the finding is printed as KNOWN-FINDING; once it is linear nothing is printed.
func TestKnownSlowShapes(t *testing.T) {
	if harness.Shard() != 0 {
		t.Skip("shard 0 only")
	}
	if harness.FindingOpen("unterminated-opener-rescan") {
		// two sizes are enough here: this only decides whether the KNOWN-FINDING line is still due
		slow := func(sh shape, v px.Ver) bool {
			t1 := parseTimed(sh.build(scaleBase), v, 60*time.Second)
			t2 := parseTimed(sh.build(scaleBase*scaleFactor), v, 120*time.Second)
			return t2.hang || (float64(t2.cpu) > scaleRatio*float64(t1.cpu+2*time.Millisecond) && t2.cpu > 200*time.Millisecond)
		}
		if slow(shape{prefix: "<?php ", unit: "'\\\\\\"}, px.V74) || slow(shape{prefix: "<?php $a = ", unit: "$x /*", suffix: ";"}, px.V56) {
			harness.KnownSeen("unterminated-opener-rescan")
		}
	}
}

// fixedShapes: the hand-written big-input shapes (every lexer mode, nesting, error recovery, each
// newline style) and the shapes behind fixed findings. Seed-independent.
var fixedShapes = []shape{
	{prefix: "<?php\n", unit: "$a = foo($b, 1) + 2 * $c[3]->d;\n"},
	{prefix: "<?php $x = <<<EOT\n", unit: "line $a {$b->c} text\n", suffix: "EOT;\n"},
	{prefix: "<?php /*", unit: "comment text\n", suffix: "*/ echo 1;"},
	{prefix: "<?php $a = ", unit: "(", mid: "1", unit2: ")", suffix: ";"},
	{prefix: "<?php $a = ", unit: "[", mid: "1", unit2: "]", suffix: ";"},
	{prefix: "<?php ", unit: "{", mid: "1;", unit2: "}"},
	{prefix: "<?php ", unit: "if ($a) { ", mid: "1;", unit2: "} "},
	{prefix: "<?php ", unit: "if ($a): ", mid: "1;", unit2: "endif; "},
	{prefix: "<?php $a = ", unit: "f(", mid: "1", unit2: ")", suffix: ";"},
	{prefix: "<?php $a", unit: "->b"},
	{prefix: "<?php $a = 1", unit: " + 1", suffix: ";"},
	{prefix: "<?php $a = $b", unit: " ? 1 : $b", suffix: ";"},
	{prefix: "<?php $a = $b", unit: " ?? $b", suffix: ";"},
	{prefix: "<?php $a = ", unit: "!", suffix: "$b;"},
	{prefix: "<?php\n", unit: "1;\n"},
	{prefix: "<?php\r\n", unit: "1;\r\n"},
	{prefix: "", unit: "<b>x < y</b>\r\n"},
	{prefix: "<?php\n", unit: "$a;\r"},
	{prefix: "<?php \"", unit: "\\\\\\$a \\\" ", suffix: "\";"},
	{prefix: "<?php ", unit: "if ($a) { "},
	{prefix: "<?php ", unit: "$a = ; "},
	{prefix: "<?php ", unit: "?>x<?php "},
	{prefix: "<?php ", unit: "\"$a[0] {$b->c} ${d}\" . "},
	{prefix: "<?php ", unit: "/** doc */ function f() {} "},
	{prefix: "<?php echo ", unit: "1, ", suffix: "1;"},
	{prefix: "<?php $x = <<<EOT\n", unit: "\\", suffix: "\nEOT;\n"}, // fixed: backslash-run-quadratic
	{prefix: "<?php `", unit: "\\", suffix: "`;"},
	{prefix: "<?php \"$a ", unit: "\\"},
	{prefix: "<?php \"$a ", unit: "\\\\", suffix: "\";"},
	{prefix: "<?php /**\n", unit: "A;\n"}, // fixed: line-lookup-quadratic
	{prefix: "<?php '", unit: "A;\n"},
	{prefix: "", unit: "<"},
	{prefix: "<?php '", unit: "}"}, // fixed: stray-brace-after-failed-lookahead
	{prefix: "<?php '", unit: "}}", suffix: "\n"},
}

// TestScalingShapes runs the fixed shapes through the same verdict (plain regression, no rapid), and
// parses each once at 1 MiB under the hang watchdog.
func TestScalingShapes(t *testing.T) {
	for i, sh := range fixedShapes {
		if !harness.MyShare(i) {
			continue
		}
		for _, v := range []px.Ver{px.V56, px.V74} {
			harness.Class("scaling-shapes")
			harness.NonTrivial([]byte("shape/"+v.String()+sh.String()), fmt.Sprintf("[%s] %s at 24/96 KiB and 1 MiB", v, sh))
			bad, msg, hang, big := scalingVerdict(sh, v)
			if !bad {
				big = sh.build(1 << 20)
				if o := parseTimed(big, v, 240*time.Second); o.hang || o.panic != "" {
					bad, hang, msg = true, o.hang, fmt.Sprintf("1 MiB input: hang=%v panic=%s", o.hang, o.panic)
					big = []byte(sh.String())
				}
				harness.Eval()
			}
			if bad {
				harness.Failf(t, "superlinear", big, sh.meta(meta(v, true)), "[%s] %s: %s", v, sh, msg)
				if hang {
					harness.FlushAndExit(1)
				}
			}
		}
	}
}
