package c01

import (
	"fmt"
	"io"
	"log"
	"os"
	"syscall"
	"testing"

	"pgregory.net/rapid"

	"verif/cli"
	"verif/harness"
	"verif/inputs"
	"verif/px"
)

// TestQuiet: "all problems in the input are reported only through the error callback". While the
// parser runs, the process's standard output, standard error and the default logger are pointed at a
// scratch file; whatever the input is, with or without a callback, nothing may arrive there (a
// diagnostic print, a warning for the missing callback, a debug dump left in an error path).
// quietScope redirects standard output, standard error (variables and descriptors) and the default
// logger into a scratch file around a parse.
type quietScope struct {
	f            *os.File
	save1, save2 int
	pos          int64
	clean        func()
}

func newQuietScope() *quietScope {
	dir, clean, err := cli.TempDir("c01-quiet-")
	if err != nil {
		return nil
	}
	f, err := os.Create(dir + "/stdio")
	if err != nil {
		clean()
		return nil
	}
	// descriptors 1 and 2 themselves are redirected as well (the builtin print/println and code that
	// writes to the descriptors directly do not go through os.Stdout / os.Stderr)
	s1, err1 := syscall.Dup(1)
	s2, err2 := syscall.Dup(2)
	if err1 != nil || err2 != nil {
		f.Close()
		clean()
		return nil
	}
	return &quietScope{f: f, save1: s1, save2: s2, clean: func() { f.Close(); syscall.Close(s1); syscall.Close(s2); clean() }}
}

// parse runs the parser with everything redirected and returns what was written meanwhile.
func (q *quietScope) parse(src []byte, v px.Ver, cb bool) (px.Result, []byte) {
	so, se, lw := os.Stdout, os.Stderr, log.Writer()
	os.Stdout, os.Stderr = q.f, q.f
	log.SetOutput(q.f)
	_ = syscall.Dup3(int(q.f.Fd()), 1, 0)
	_ = syscall.Dup3(int(q.f.Fd()), 2, 0)
	r := px.Parse(src, v, cb)
	_ = syscall.Dup3(q.save1, 1, 0)
	_ = syscall.Dup3(q.save2, 2, 0)
	os.Stdout, os.Stderr = so, se
	log.SetOutput(lw)
	end, _ := q.f.Seek(0, io.SeekEnd)
	if end <= q.pos {
		return r, nil
	}
	buf := make([]byte, end-q.pos)
	_, _ = q.f.ReadAt(buf, q.pos)
	q.pos = end
	return r, buf
}

func TestQuiet(t *testing.T) {
	q := newQuietScope()
	if q == nil {
		t.Skip("no scratch file / descriptors")
	}
	defer q.clean()
	harness.Check(t, "quiet", 30000, 1000000, func(rt *rapid.T) {
		src, class := inputs.Any(rt)
		v := rapid.SampledFrom(versions()).Draw(rt, "version")
		cb := rapid.Bool().Draw(rt, "callback")
		r, out := q.parse(src, v, cb)
		harness.Eval()
		if len(out) > 0 {
			harness.Fail(rt, "writes-to-stdio", src, meta(v, cb), "parser.Parse (version %s, callback=%v, %d errors) wrote to standard output / standard error / the default logger instead of (only) calling the error callback: %q", v, cb, len(r.Errs), trunc(out, 300))
		}
		if len(r.Errs) > 0 || !cb {
			harness.NonTrivial(append([]byte("quiet"+v.String()+fmt.Sprint(cb)), src...), "")
		}
		harness.Class("quiet:" + class)
	})
}
