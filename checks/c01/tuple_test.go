package c01

import (
	"fmt"
	"testing"

	"verif/harness"
	"verif/px"
)

// pairBytes: the bytes that mean something to the scanner in some state, plus representatives of the
// byte classes it distinguishes (letter, digit, control, DEL, high bytes).
var pairBytes = []byte("\\${}()[]<>?\"'`\n\r \ta0_.,;:=&|+-*/%!~@^#\x00\x01\x7f\x80\xff")

// tripleBytes: a smaller alphabet for all ordered triples.
var tripleBytes = []byte("\\${}[]\"'<?>-a0\n\x7f")

var tupleSuffixes = []string{"", "\nEOT;\n", "\";"}

// TestByteTupleSweep is an exhaustive layer under the random byte-level generators: every lexical
// context of scalePrefixes, followed by every ordered pair of pairBytes and every ordered triple of
// tripleBytes, followed by nothing or by a closer, under 5.6, 7.0 and 7.4 with and without callback.
// A two- or three-byte combination that sends the scanner into a loop or past the buffer only in one
// state ("$" + DEL in a heredoc under an old version) is met by the random generators only by luck.
func TestByteTupleSweep(t *testing.T) {
	vers := []px.Ver{px.V56, {Major: 7, Minor: 0}, px.V74}
	idx := 0
	try := func(src []byte) bool {
		idx++
		if !harness.MyShare(idx) {
			return true
		}
		v := vers[idx%3]
		cb := idx%2 == 0
		if harness.Thorough() {
			for _, tv := range vers {
				for _, tcb := range []bool{true, false} {
					if c, m := checkOne(src, tv, tcb); c != "" {
						report(t, "tuple-sweep/"+c, m, src, tv, tcb)
						return false
					}
				}
			}
			return true
		}
		if c, m := checkOne(src, v, cb); c != "" {
			report(t, "tuple-sweep/"+c, m, src, v, cb)
			return false
		}
		return true
	}
	n := 0
	for _, prefix := range scalePrefixes {
		for si, suffix := range tupleSuffixes {
			for _, a := range pairBytes {
				for _, b := range pairBytes {
					n++
					if !try([]byte(prefix + string([]byte{a, b}) + suffix)) {
						return
					}
				}
			}
			if si > 1 {
				continue // triples: bare and with the heredoc closer only
			}
			for _, a := range tripleBytes {
				for _, b := range tripleBytes {
					for _, c := range tripleBytes {
						n++
						if !try([]byte(prefix + string([]byte{a, b, c}) + suffix)) {
							return
						}
					}
				}
			}
		}
	}
	harness.ClassN("tuple-sweep", n/harness.Shards())
	harness.Exhaustive(fmt.Sprintf("%d lexical contexts x (all ordered pairs of %d bytes x %d suffixes + all ordered triples of %d bytes x 2 suffixes); quick: one (version, callback) combination per input rotating over {5.6, 7.0, 7.4} x {callback, nil}, thorough: all six", len(scalePrefixes), len(pairBytes), len(tupleSuffixes), len(tripleBytes)))
}
