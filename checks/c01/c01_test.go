// C01 — Parsing never crashes, hangs or touches the input buffer.
package c01

import (
	"bytes"
	"fmt"
	"os"
	"strconv"
	"strings"
	"testing"
	"time"

	"pgregory.net/rapid"

	"verif/astx"
	"verif/harness"
	"verif/inputs"
	"verif/phpgen"
	"verif/progs"
	"verif/px"
)

func TestMain(m *testing.M) { harness.Main(m, "C01") }

func hangTimeout() time.Duration {
	if s := os.Getenv("VERIF_HANG_TIMEOUT"); s != "" {
		if n, err := strconv.Atoi(s); err == nil {
			return time.Duration(n) * time.Second
		}
	}
	return 20 * time.Second
}

type outcome struct {
	res  px.Result
	hang bool
}

// run parses src under a watchdog. The parse runs on its own goroutine; a
// hang cannot be interrupted, so the caller must end the process after one.
func run(src []byte, v px.Ver, cb bool, limit time.Duration) outcome {
	ch := make(chan px.Result, 1)
	go func() { ch <- px.Parse(src, v, cb) }()
	select {
	case r := <-ch:
		return outcome{res: r}
	case <-time.After(limit):
		return outcome{hang: true}
	}
}

// checkOne evaluates the property on one (input, version, callback) triple.
// It returns the name of the failed clause and a message, or "", "".
func checkOne(src []byte, v px.Ver, cb bool) (string, string) {
	keep := append([]byte{}, src...)
	harness.InFlight(fmt.Sprintf("C01 version=%s cb=%v", v, cb), src)
	o := run(src, v, cb, hangTimeout())
	harness.Eval()
	if o.hang {
		return "hang", fmt.Sprintf("parser.Parse did not return within %v on a %d-byte input (version %s, callback=%v)", hangTimeout(), len(src), v, cb)
	}
	if o.res.Panic != "" {
		return "panic", fmt.Sprintf("parser.Parse panicked (version %s, callback=%v): %s", v, cb, o.res.Panic)
	}
	if o.res.Err != nil {
		return "error-return", fmt.Sprintf("parser.Parse returned error %q for supported version %s", o.res.Err, v)
	}
	if !bytes.Equal(src, keep) {
		return "buffer-modified", fmt.Sprintf("the input buffer was modified by parser.Parse (version %s, callback=%v)", v, cb)
	}
	if len(o.res.Errs) > 0 || o.res.Root == nil {
		harness.NonTrivial(append([]byte(v.String()+fmt.Sprint(cb)), src...), fmt.Sprintf("[%s cb=%v errors=%d] %q", v, cb, len(o.res.Errs), trunc(src, 200)))
	}
	return "", ""
}

func trunc(b []byte, n int) []byte {
	if len(b) > n {
		return b[:n]
	}
	return b
}

func meta(v px.Ver, cb bool) map[string]string {
	return map[string]string{"version": v.String(), "callback": fmt.Sprint(cb)}
}

// report handles a failed clause found outside rapid. A hang ends the process.
func report(t *testing.T, clause, msg string, src []byte, v px.Ver, cb bool) {
	harness.Failf(t, clause, src, meta(v, cb), "%s", msg)
	if clause == "hang" {
		harness.FlushAndExit(1)
	}
}

func versions() []px.Ver {
	if harness.Thorough() {
		return px.AllVersions
	}
	return px.KeyVersions
}

// TestCorpusReplay: the committed regression inputs (reproducers of fixed and
// open findings, shrunk failures) under every version with and without callback.
func TestCorpusReplay(t *testing.T) {
	if harness.Shard() != 0 {
		t.Skip("shard 0 only")
	}
	for _, f := range harness.CorpusFiles("C01") {
		src, err := os.ReadFile(f)
		if err != nil {
			t.Fatal(err)
		}
		for _, v := range px.AllVersions {
			for _, cb := range []bool{true, false} {
				harness.Class("corpus-replay")
				if c, m := checkOne(src, v, cb); c != "" {
					report(t, c, fmt.Sprintf("%s [corpus file %s]", m, f), src, v, cb)
				}
			}
		}
	}
}

// TestPrefixes: every prefix of every repository snippet (exhaustive
// truncation: the input ends in the middle of every lexical construct the
// snippets contain), each followed optionally by one hostile tail.
func TestPrefixes(t *testing.T) {
	tails := []string{"", "\r", "$", "<", "\\", "{", "?"}
	vs := []px.Ver{px.V56, px.V72, px.V74}
	n := 0
	for i, s := range inputs.Corpus() {
		if len(s) > 1500 || !harness.MyShare(i) {
			continue
		}
		step := 1
		if !harness.Thorough() && len(s) > 300 {
			step = 3
		}
		for cut := 0; cut <= len(s); cut += step {
			for ti, tail := range tails {
				if !harness.Thorough() && ti > 0 && (cut+ti)%4 != 0 {
					continue
				}
				src := []byte(s[:cut] + tail)
				v := vs[(cut+ti)%len(vs)]
				cb := (cut+ti)%2 == 0
				harness.Class("prefix")
				n++
				if c, m := checkOne(src, v, cb); c != "" {
					report(t, c, m, src, v, cb)
					return
				}
			}
		}
	}
	if harness.Thorough() {
		harness.Exhaustive("every byte prefix of every repository test snippet <= 1500 bytes x 7 hostile tails (versions/callback rotated)")
	}
}

// TestGeneratedProgramPrefixes: every byte prefix of generated programs rendered with full trivia
// (the input ends in the middle of every lexical construct the generator can derive:
// heredocs with flexible terminators, interpolation forms, casts, comments, close tags ...).
func TestGeneratedProgramPrefixes(t *testing.T) {
	harness.Check(t, "program-prefixes", 800, 60000, func(rt *rapid.T) {
		v := rapid.SampledFrom(versions()).Draw(rt, "version")
		c := progs.Draw(rt, v, progs.StructuralOptions(v), 1, 2)
		src := c.G.Render(c.Root, progs.Policy(rt, phpgen.PolicyFull, nil)).Src
		if len(src) > 600 {
			src = src[:600]
		}
		for cut := 0; cut < len(src); cut++ {
			cb := cut%2 == 0
			harness.Class("src=program-prefix")
			if cl, m := checkOne(src[:cut:cut], v, cb); cl != "" {
				if cl == "hang" {
					harness.Report(cl, m, src[:cut], meta(v, cb))
					harness.FlushAndExit(1)
				}
				harness.Fail(rt, "program-prefixes", src[:cut], meta(v, cb), "%s\nsource: %q", m, src[:cut])
			}
		}
	})
}

// TestGenerated: rapid-drawn inputs from all byte-level sources x versions x callback.
func TestGenerated(t *testing.T) {
	harness.Check(t, "generated", 160000, 4000000, func(rt *rapid.T) {
		src, class := inputs.Any(rt)
		v := rapid.SampledFrom(versions()).Draw(rt, "version")
		cb := rapid.Bool().Draw(rt, "cb")
		harness.Class("src=" + class)
		if c, m := checkOne(src, v, cb); c != "" {
			if c == "hang" {
				harness.Report(c, m, src, meta(v, cb))
				harness.FlushAndExit(1)
			}
			harness.Fail(rt, "generated", src, meta(v, cb), "%s", m)
		}
	})
}

// TestMutatedPrograms: generated valid programs with 1-3 token-level edits
// (delete / duplicate / swap / move a token, or paste a token of another
// program). The result is usually still tokenisable and often parses far into
// the grammar, which reaches grammar actions with shapes no valid program has
// (e.g. "...$rest = 1", "&" in odd places) — where nil slots are dereferenced.
func TestMutatedPrograms(t *testing.T) {
	harness.Check(t, "mutated-programs", 40000, 1500000, func(rt *rapid.T) {
		v := rapid.SampledFrom(versions()).Draw(rt, "version")
		cb := rapid.Bool().Draw(rt, "cb")
		c := progs.Draw(rt, v, progs.StructuralOptions(v), 1, 3)
		c.G.Render(c.Root, progs.Policy(rt, phpgen.PolicySpace, nil))
		toks := astx.FlatTokens(c.Root)
		var words [][]byte
		for _, tk := range toks {
			if len(tk.Value) > 0 {
				words = append(words, tk.Value)
			}
		}
		if len(words) < 3 {
			return
		}
		n := rapid.IntRange(1, 3).Draw(rt, "edits")
		for e := 0; e < n && len(words) > 1; e++ {
			i := rapid.IntRange(0, len(words)-1).Draw(rt, "at")
			switch rapid.IntRange(0, 4).Draw(rt, "edit") {
			case 0:
				words = append(words[:i:i], words[i+1:]...)
			case 1:
				words = append(words[:i+1:i+1], words[i:]...)
			case 2:
				if i+1 < len(words) {
					words[i], words[i+1] = words[i+1], words[i]
				}
			case 3:
				j := rapid.IntRange(0, len(words)-1).Draw(rt, "from")
				w := words[j]
				words = append(words[:i:i], append([][]byte{w}, words[i:]...)...)
			default:
				w := []byte(rapid.SampledFrom([]string{"&", "...", "=", "(", ")", ",", "$x", "static", "function", "list", "[", "]", "::", "->", "as", "=>", "use", "yield", "?", ":", "new", "class", "{", "}", ";", "1", "abstract", "final", "const", "insteadof", "namespace", "\\"}).Draw(rt, "paste"))
				words = append(words[:i:i], append([][]byte{w}, words[i:]...)...)
			}
		}
		src := bytes.Join(words, nil)
		harness.Class("src=mutated-program")
		if cl, m := checkOne(src, v, cb); cl != "" {
			if cl == "hang" {
				harness.Report(cl, m, src, meta(v, cb))
				harness.FlushAndExit(1)
			}
			harness.Fail(rt, "mutated-programs", src, meta(v, cb), "%s\nsource: %q", m, src)
		}
	})
}

// TestPHP5SemanticNilCallback: PHP 5 programs that trigger the grammar's own
// (semantic) error reports, parsed without a callback.
// TestMutatedProgramBytes: byte-level edits (hostile fragments, raw bytes, deletions, duplications,
// truncation) at drawn offsets of generated programs rendered with full trivia — unlike the repository
// snippets these contain every interpolation form, heredoc flavour, cast and operator the generator
// derives, so the edits land inside those constructs.
func TestMutatedProgramBytes(t *testing.T) {
	harness.Check(t, "mutated-program-bytes", 40000, 1500000, func(rt *rapid.T) {
		v := rapid.SampledFrom(versions()).Draw(rt, "version")
		cb := rapid.Bool().Draw(rt, "cb")
		c := progs.Draw(rt, v, progs.StructuralOptions(v), 1, 3)
		src := c.G.Render(c.Root, progs.Policy(rt, phpgen.PolicyFull, nil)).Src
		src = inputs.Mutate(rt, src, 3)
		harness.Class("src=mutated-program-bytes")
		if c, m := checkOne(src, v, cb); c != "" {
			harness.Fail(rt, c, src, meta(v, cb), "%s", m)
		}
	})
}

func TestPHP5SemanticNilCallback(t *testing.T) {
	harness.Check(t, "php5-semantic", 4000, 60000, func(rt *rapid.T) {
		pieces := []string{
			"foreach ($a as &$k => $v) {}", "foreach ($a as &$k => &$v): endforeach;", "trait T extends A {}", "trait T implements I {}",
			"trait T extends A implements I, J { function f() {} }", "foreach (f() as &$k => list($a)) echo 1;",
			"$a = 1;", "function f() { foreach ($x as &$k => $v); }", "class C { function m() { trait U extends V {} } }",
		}
		n := rapid.IntRange(1, 5).Draw(rt, "n")
		var b strings.Builder
		b.WriteString("<?php ")
		for i := 0; i < n; i++ {
			b.WriteString(rapid.SampledFrom(pieces).Draw(rt, "piece"))
			b.WriteString(rapid.SampledFrom([]string{" ", "\n", "\r\n", ""}).Draw(rt, "gap"))
		}
		src := []byte(b.String())
		v := rapid.SampledFrom(px.AllVersions[:7]).Draw(rt, "version")
		cb := rapid.Bool().Draw(rt, "cb")
		harness.Class("php5-semantic")
		if c, m := checkOne(src, v, cb); c != "" {
			harness.Fail(rt, "php5-semantic", src, meta(v, cb), "%s", m)
		}
	})
}

func parseVer(s string) (px.Ver, bool) {
	for _, v := range px.AllVersions {
		if v.String() == s {
			return v, true
		}
	}
	return px.Ver{}, false
}

func TestReplay(t *testing.T) {
	path := harness.ReplayPath()
	if path == "" {
		t.Skip("no VERIF_REPLAY")
	}
	v, src, err := harness.LoadReplay(path)
	if err != nil {
		t.Fatal(err)
	}
	vs := px.AllVersions
	if pv, ok := parseVer(v.Meta["version"]); ok {
		vs = []px.Ver{pv}
	}
	cbs := []bool{true, false}
	if v.Meta["callback"] != "" {
		cbs = []bool{v.Meta["callback"] == "true"}
	}
	q := newQuietScope()
	if q != nil {
		defer q.clean()
	}
	for _, ver := range vs {
		for _, cb := range cbs {
			if c, m := checkOne(src, ver, cb); c != "" {
				report(t, c, m, src, ver, cb)
				return
			}
			if q != nil {
				if _, out := q.parse(append([]byte{}, src...), ver, cb); len(out) > 0 {
					report(t, "quiet/writes-to-stdio", fmt.Sprintf("parser.Parse (version %s, callback=%v) wrote to standard output / standard error / the default logger: %q", ver, cb, trunc(out, 300)), src, ver, cb)
					return
				}
			}
		}
	}
}

// FuzzParse is the native coverage-guided target (thorough tier only; the
// driver runs it for a bounded time). The oracle is the same checkOne; a
// violation is written as a replay file at once, because fuzz workers are
// separate processes whose statistics the driver does not collect.
func FuzzParse(f *testing.F) {
	if os.Getenv("VERIF_FUZZ_EMPTY_CORPUS") == "" {
		for i, s := range inputs.Corpus() {
			if len(s) < 400 {
				f.Add([]byte(s), byte(i), i%2 == 0)
			}
		}
		for i, d := range inputs.Dict {
			f.Add([]byte("<?php "+d), byte(i), i%2 == 0)
			f.Add([]byte("<?php <<<A\n"+d), byte(i), i%3 == 0)
			f.Add([]byte("<?php \""+d), byte(i), true)
		}
	} else {
		f.Add([]byte("<?php "), byte(0), true)
	}
	f.Fuzz(func(t *testing.T, data []byte, ver byte, cb bool) {
		if len(data) > 1<<14 {
			return
		}
		// the fuzzing engine re-uses one buffer for every input; the harness identifies a buffer (and its
		// pristine copy) by address and length, so each iteration works on a copy of its own
		data = append([]byte{}, data...)
		v := px.AllVersions[int(ver)%len(px.AllVersions)]
		if c, m := checkOne(data, v, cb); c != "" {
			harness.SetProperty("C01")
			harness.Report("fuzz/"+c, m, data, meta(v, cb))
			t.Fatalf("%s", m)
		}
	})
}
