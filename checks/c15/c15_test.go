// C15 — The printer emits every token and child of every node kind once, in order.
package c15

import (
	"bytes"
	"fmt"
	"reflect"
	"strings"
	"testing"

	"github.com/z7zmey/php-parser/pkg/ast"
	"github.com/z7zmey/php-parser/pkg/token"
	"pgregory.net/rapid"

	"verif/astx"
	"verif/harness"
	"verif/oracle"
	"verif/phpgen"
	"verif/progs"
	"verif/px"
	"verif/synth"
)

func TestMain(m *testing.M) { harness.Main(m, "C15") }

// item is one element of the expected output pattern of a synthetic node.
type item struct {
	marker string   // expected marker text (present token / free-floating / leaf value), or ""
	absent []string // for an absent token slot: the lexemes it may be replaced by (nothing is always allowed)
	free   bool     // absent slot with free text (labels): any identifier-like text allowed
	must   bool     // a missing separator between two list items: "nothing" would fuse the items
	slot   string
}

func tokItems(t *token.Token, slot string) []item {
	var out []item
	for _, f := range t.FreeFloating {
		out = append(out, item{marker: string(f.Value), slot: slot + ".FreeFloating"})
	}
	return append(out, item{marker: string(t.Value), slot: slot})
}

func absentItem(kind, slot string) item {
	lex, ok := oracle.CanonicalLexemes(kind, slot)
	return item{absent: lex, free: !ok, slot: slot}
}

// pattern computes the expected output pattern of a synthetic node from the
// reflective source-order walk: present tokens (with their free-floating
// tokens first) and children as markers, absent token slots as optional
// canonical lexemes, separators interleaved with list items.
func pattern(n ast.Vertex) []item {
	s := astx.SchemaOf(n)
	rv := reflect.ValueOf(n).Elem()
	var out []item
	var valueMarker []byte
	if v, ok := astx.Value(n); ok {
		valueMarker = v
	}
	for i := 0; i < len(s.Fields); i++ {
		f := s.Fields[i]
		switch f.Class {
		case astx.FToken:
			t := rv.Field(f.Index).Interface().(*token.Token)
			if t != nil {
				out = append(out, tokItems(t, f.Name)...)
			} else if valueMarker != nil && isLeafTokenField(s.Name, f.Name) {
				// a leaf without its token is printed from its Value
				out = append(out, item{marker: string(valueMarker), slot: "Value"})
			} else {
				out = append(out, absentItem(s.Name, f.Name))
			}
		case astx.FChild:
			fv := rv.Field(f.Index)
			if !fv.IsNil() {
				out = append(out, pattern(fv.Interface().(ast.Vertex))...)
			}
		case astx.FChildList:
			items := rv.Field(f.Index).Interface().([]ast.Vertex)
			var seps []*token.Token
			sepName := ""
			if f.Seps >= 0 {
				seps = rv.Field(s.Fields[f.Seps].Index).Interface().([]*token.Token)
				sepName = s.Fields[f.Seps].Name
			}
			for k, it := range items {
				out = append(out, pattern(it)...)
				if k < len(seps) && seps[k] != nil {
					out = append(out, tokItems(seps[k], sepName)...)
				} else if k < len(items)-1 {
					name := sepName
					if name == "" {
						name = "SeparatorTkns"
					}
					if f.Seps >= 0 {
						it := absentItem(s.Name, name)
						it.must = true
						out = append(out, it)
					}
				}
			}
			for k := len(items); k < len(seps); k++ {
				if seps[k] != nil {
					out = append(out, tokItems(seps[k], sepName)...)
				}
			}
		}
	}
	return out
}

func isLeafTokenField(kind, field string) bool {
	switch kind + "." + field {
	case "Identifier.IdentifierTkn", "NamePart.StringTkn", "ScalarLnumber.NumberTkn", "ScalarDnumber.NumberTkn", "ScalarString.StringTkn",
		"ScalarMagicConstant.MagicConstTkn", "ScalarEncapsedStringPart.EncapsedStrTkn", "StmtInlineHtml.InlineHtmlTkn":
		return true
	}
	return false
}

func isMarker(s string) bool {
	return strings.HasPrefix(s, synth.OpenTok) || strings.HasPrefix(s, synth.OpenFF)
}

// splitMarkers cuts the output into gap, marker, gap, marker, ..., gap.
func splitMarkers(out string) (gaps []string, markers []string) {
	for {
		i1, i2 := strings.Index(out, synth.OpenTok), strings.Index(out, synth.OpenFF)
		i, cl := i1, synth.CloseTok
		if i1 < 0 || (i2 >= 0 && i2 < i1) {
			i, cl = i2, synth.CloseFF
		}
		if i < 0 {
			gaps = append(gaps, out)
			return
		}
		j := strings.Index(out[i:], cl)
		if j < 0 {
			gaps = append(gaps, out)
			return
		}
		gaps = append(gaps, out[:i])
		markers = append(markers, out[i:i+j+len(cl)])
		out = out[i+j+len(cl):]
	}
}

func squash(s string) string {
	var b strings.Builder
	for _, c := range strings.ToLower(s) {
		if c != ' ' && c != '\t' && c != '\n' && c != '\r' {
			b.WriteRune(c)
		}
	}
	return b.String()
}

// gapOK: can gap be produced by replacing each of the absent slots, in order, by one of its lexemes or by nothing?
func gapOK(gap string, absent []item) bool {
	if gap == "" {
		for _, a := range absent {
			if a.must {
				return false
			}
		}
		return true
	}
	if len(absent) == 0 {
		return false
	}
	a := absent[0]
	if !a.must && gapOK(gap, absent[1:]) {
		return true
	}
	if a.free {
		// free text: an identifier-like run or a heredoc opener
		k := 0
		for k < len(gap) && (gap[k] == '_' || gap[k] == '<' || gap[k] == '\'' || gap[k] == '"' || (gap[k] >= 'a' && gap[k] <= 'z') || (gap[k] >= '0' && gap[k] <= '9')) {
			k++
			if gapOK(gap[k:], absent[1:]) {
				return true
			}
		}
		return false
	}
	for _, l := range a.absent {
		if l != "" && strings.HasPrefix(gap, l) && gapOK(gap[len(l):], absent[1:]) {
			return true
		}
	}
	return false
}

func checkSynthetic(n ast.Vertex) string {
	var out []byte
	if p := px.Guard(func() { out = px.PrintPHP(n) }); p != "" {
		return "printer panicked: " + p
	}
	harness.Eval()
	pat := pattern(n)
	gaps, markers := splitMarkers(string(out))
	gi := 0
	var pending []item
	for _, it := range pat {
		if it.marker == "" || !isMarker(it.marker) {
			if it.marker != "" {
				continue
			}
			pending = append(pending, it)
			continue
		}
		if gi >= len(markers) {
			return fmt.Sprintf("output %q: marker %s (slot %s) is never printed", out, it.marker, it.slot)
		}
		if markers[gi] != it.marker {
			// is the expected one printed later (order) or not at all (dropped)?
			for _, m := range markers[gi:] {
				if m == it.marker {
					return fmt.Sprintf("output %q: expected %s (slot %s) next in source order, the printer emits %s first", out, it.marker, it.slot, markers[gi])
				}
			}
			for _, m := range markers[:gi] {
				if m == it.marker {
					return fmt.Sprintf("output %q: %s (slot %s) is printed out of source order (too early)", out, it.marker, it.slot)
				}
			}
			return fmt.Sprintf("output %q: marker %s (slot %s) is never printed", out, it.marker, it.slot)
		}
		if !gapOK(squash(gaps[gi]), pending) {
			return fmt.Sprintf("output %q: text %q before %s (slot %s) is neither nothing nor the canonical lexemes of the absent slots %s", out, gaps[gi], it.marker, it.slot, slotNames(pending))
		}
		pending = nil
		gi++
	}
	if gi < len(markers) {
		return fmt.Sprintf("output %q: marker %s is printed more often than it occurs in the node (or does not belong to it)", out, markers[gi])
	}
	if !gapOK(squash(gaps[len(gaps)-1]), pending) {
		return fmt.Sprintf("output %q: trailing text %q is neither nothing nor the canonical lexemes of the absent slots %s", out, gaps[len(gaps)-1], slotNames(pending))
	}
	return ""
}

func slotNames(its []item) string {
	var s []string
	for _, i := range its {
		s = append(s, i.slot)
	}
	return "[" + strings.Join(s, " ") + "]"
}

func buildMasks(k int) []uint64 {
	var masks []uint64
	full := uint64(1)<<uint(k) - 1
	if k <= 10 {
		for m := uint64(0); m <= full; m++ {
			masks = append(masks, m)
		}
		return masks
	}
	masks = append(masks, 0, full)
	for i := 0; i < k; i++ {
		masks = append(masks, uint64(1)<<uint(i), full&^(uint64(1)<<uint(i)))
		for j := i + 1; j < k; j++ {
			masks = append(masks, uint64(1)<<uint(i)|uint64(1)<<uint(j), full&^(uint64(1)<<uint(i)|uint64(1)<<uint(j)))
		}
	}
	return masks
}

func TestExhaustiveKinds(t *testing.T) { enumerateKinds(t, "") }

// enumerateKinds runs the synthetic-node enumeration; with only != "" just the case with that
// description is evaluated (replay of a recorded case, on any shard).
func enumerateKinds(t *testing.T, only string) {
	if err := astx.SelfTest(); err != nil {
		t.Fatal(err)
	}
	total := 0
	for ki, s := range astx.Kinds() {
		if only == "" && !harness.MyShare(ki) {
			continue
		}
		slots := synth.SlotFields(s, astx.FToken, astx.FTokenList, astx.FChild, astx.FChildList)
		for mi, mask := range buildMasks(len(slots)) {
			for _, ll := range []int{0, 1, 3} {
				present := func(i int) bool {
					if s.Fields[i].Class == astx.FValue {
						return true
					}
					for b, f := range slots {
						if f == i {
							return mask&(uint64(1)<<uint(b)) != 0
						}
					}
					return false
				}
				// separator lists: full (n-1), one extra (trailing), or short by one
				listLen := func(i int) int {
					if s.Fields[i].Class == astx.FTokenList {
						switch mi % 3 {
						case 0:
							return max0(ll - 1)
						case 1:
							return ll
						default:
							return max0(ll - 2)
						}
					}
					return ll
				}
				hasStmtSlot := false
				for _, f := range slots {
					if s.Fields[f].Name == "Stmt" && s.Fields[f].Class == astx.FChild && present(f) {
						hasStmtSlot = true
					}
				}
				for _, block := range []bool{false, true} {
					if block && !hasStmtSlot {
						continue
					}
					mk := &synth.Markers{WithFF: true, BlockStmt: block}
					n := synth.Build(s, mk, present, listLen, []byte(fmt.Sprintf("%sV%d%s", synth.OpenTok, mi, synth.CloseTok)))
					total++
					d := synth.Describe(s, present, listLen)
					if block {
						d += "+Stmt={block}"
					}
					if only != "" && d != only {
						continue
					}
					harness.NonTrivial([]byte(d), d)
					if m := checkSynthetic(n); m != "" {
						harness.Failf(t, "exhaustive-kinds", []byte(d), map[string]string{"node": d}, "%s: %s", d, m)
						return
					}
				}
				hasList := false
				for _, f := range slots {
					if (s.Fields[f].Class == astx.FChildList || s.Fields[f].Class == astx.FTokenList) && present(f) {
						hasList = true
					}
				}
				if !hasList {
					break
				}
			}
		}
	}
	if only != "" {
		return
	}
	harness.ClassN("synthetic-nodes", total)
	harness.Exhaustive(fmt.Sprintf("all %d node kinds: every subset of token/child/list slots for kinds with <= 10 slots (larger kinds: all, none, each single slot present/absent, every pair present/absent) x list lengths {0,1,3} x separator counts {n-1, n, n-2}", len(astx.Kinds())))
}

func max0(a int) int {
	if a < 0 {
		return 0
	}
	return a
}

// TestSubtreeReplacement: in the parsed tree of a generated program one
// expression is replaced by a freshly generated one; only that subtree's
// portion of the output may change (apart from one space at either boundary).
func TestSubtreeReplacement(t *testing.T) {
	harness.Check(t, "subtree-replacement", 8000, 300000, func(rt *rapid.T) {
		v := rapid.SampledFrom([]px.Ver{px.V56, px.V74}).Draw(rt, "version")
		o := progs.StructuralOptions(v)
		c := progs.Draw(rt, v, o, 1, 4)
		lay := c.G.Render(c.Root, progs.Policy(rt, phpgen.PolicyFull, nil))
		src := lay.Src
		r := px.Parse(src, v, true)
		if r.Root == nil || len(r.Errs) > 0 {
			harness.Fail(rt, "valid-rejected", src, nil, "[%s] generated program rejected: %s", v, px.ErrString(r.Errs))
		}
		// candidate sites: child slots holding an expression
		type site struct {
			parent ast.Vertex
			slot   string
			idx    int
			node   ast.Vertex
		}
		var sites []site
		astx.Walk(r.Root, func(n ast.Vertex, _ string) bool {
			for _, ch := range astx.Children(n) {
				k := astx.KindName(ch.Child)
				if (strings.HasPrefix(k, "Expr") || strings.HasPrefix(k, "Scalar")) && k != "ExprArrayItem" && k != "ExprClosureUse" {
					if len(astx.Tokens(ch.Child)) > 0 && !insideStringLike(n) {
						sites = append(sites, site{n, ch.Slot, ch.Index, ch.Child})
					}
				}
			}
			return true
		})
		if len(sites) == 0 {
			return
		}
		s := sites[rapid.IntRange(0, len(sites)-1).Draw(rt, "site")]
		toks := astx.FlatTokens(s.node)
		first, last := toks[0], toks[len(toks)-1]
		if first.Position == nil || last.Position == nil || first.ID == token.T_OPEN_TAG || first.ID == token.T_COMMENT && bytes.HasPrefix(first.Value, []byte("#!")) {
			return // the subtree's trivia holds the file's open tag: replacing it changes the PHP/HTML mode of what follows
		}
		midStart, midEnd := first.Position.StartPos, last.Position.EndPos
		// the replacement: a generated expression rendered with single spaces, without positions
		g2 := phpgen.New(rt, phpgen.Options{PHP7: !v.IsPHP5(), MaxDepth: 2, NoHTML: true, NoLoneCR: true})
		e := g2.Expr()
		mini := &ast.Root{Stmts: []ast.Vertex{&ast.StmtExpression{Expr: e, SemiColonTkn: &token.Token{ID: ';', Value: []byte(";")}}}, EndTkn: &token.Token{}}
		g2.Render(mini, phpgen.Policy{Kind: phpgen.PolicySpace})
		for _, tk := range astx.FlatTokens(e) {
			tk.Position = nil
		}
		if ft := astx.Tokens(e); len(ft) > 0 {
			ft[0].FreeFloating = nil // the open tag of the mini program
		}
		sub := px.PrintPHP(e)
		setChild(s.parent, s.slot, s.idx, e)
		out := px.Print(r.Root)
		harness.Eval()
		pre, post := src[:midStart], src[midEnd:]
		ok := false
		for _, a := range []string{"", " "} {
			for _, b := range []string{"", " "} {
				if bytes.Equal(out, []byte(string(pre)+a+string(sub)+b+string(post))) {
					ok = true
				}
			}
		}
		if !ok {
			i := 0
			want := []byte(string(pre) + string(sub) + string(post))
			for i < len(out) && i < len(want) && out[i] == want[i] {
				i++
			}
			harness.Fail(rt, "subtree-replacement", src, map[string]string{"version": v.String(), "site": siteKey(s.parent, s.slot, s.idx), "replacement": string(sub)}, "[%s] replacing %s in %s.%s changed more than that subtree's text: first difference at output offset %d (subtree portion is %d..%d + %d bytes)\nsource: %q\noutput: %q\nreplacement: %q", v, astx.KindName(s.node), astx.KindName(s.parent), s.slot, i, midStart, midStart, len(sub), src, out, sub)
		}
		if astx.KindName(s.node) != astx.KindName(e) && len(sub) != midEnd-midStart {
			harness.NonTrivial(append(append([]byte{}, src...), sub...), fmt.Sprintf("[%s] %s in %s.%s -> %q within %q", v, astx.KindName(s.node), astx.KindName(s.parent), s.slot, sub, trunc(src, 200)))
		}
	})
}

func trunc(b []byte, n int) []byte {
	if len(b) > n {
		return b[:n]
	}
	return b
}

func insideStringLike(n ast.Vertex) bool {
	switch n.(type) {
	case *ast.ScalarEncapsed, *ast.ScalarHeredoc, *ast.ExprShellExec, *ast.ScalarEncapsedStringVar, *ast.ScalarEncapsedStringBrackets:
		return true
	}
	return false
}

func setChild(parent ast.Vertex, slot string, idx int, c ast.Vertex) {
	f := reflect.ValueOf(parent).Elem().FieldByName(slot)
	if idx >= 0 {
		f.Index(idx).Set(reflect.ValueOf(c))
	} else {
		f.Set(reflect.ValueOf(c))
	}
}

// siteKey identifies a replacement site by the source span of its parent, the slot and the index.
func siteKey(parent ast.Vertex, slot string, idx int) string {
	p := parent.GetPosition()
	if p == nil {
		return fmt.Sprintf("%s/?/%s/%d", astx.KindName(parent), slot, idx)
	}
	return fmt.Sprintf("%s/%d-%d/%s/%d", astx.KindName(parent), p.StartPos, p.EndPos, slot, idx)
}

// TestReplay re-executes a recorded case: a synthetic node (meta.node) is rebuilt by the enumeration;
// a subtree replacement is redone from the recorded source, site and replacement text (the
// replacement expression is re-created by parsing its text, positions removed).
func TestReplay(t *testing.T) {
	path := harness.ReplayPath()
	if path == "" {
		t.Skip("no VERIF_REPLAY")
	}
	vi, src, err := harness.LoadReplay(path)
	if err != nil {
		t.Fatal(err)
	}
	if vi.Meta["node"] != "" {
		harness.Eval()
		enumerateKinds(t, vi.Meta["node"])
		return
	}
	if vi.Meta["edits"] != "" {
		var v px.Ver
		fmt.Sscanf(vi.Meta["version"], "%d.%d", &v.Major, &v.Minor)
		if m := replayTokenEdit(src, v, vi.Meta["edits"]); m != "" {
			harness.Failf(t, "token-edit", src, vi.Meta, "%s", m)
		}
		return
	}
	if vi.Meta["removed"] != "" {
		var v px.Ver
		fmt.Sscanf(vi.Meta["version"], "%d.%d", &v.Major, &v.Minor)
		if m := replayTokenRemoval(src, v, vi.Meta["removed"]); m != "" {
			harness.Failf(t, "token-removal", src, vi.Meta, "%s", m)
		}
		return
	}
	if vi.Meta["site"] == "" {
		t.Skip("nothing to replay in this file")
	}
	var v px.Ver
	fmt.Sscanf(vi.Meta["version"], "%d.%d", &v.Major, &v.Minor)
	r := px.Parse(src, v, true)
	rp := px.Parse([]byte("<?php "+vi.Meta["replacement"]+";"), v, true)
	if r.Root == nil || len(r.Errs) > 0 || rp.Root == nil || len(rp.Errs) > 0 {
		t.Skip("the recorded source or replacement no longer parses")
	}
	e := rp.Root.(*ast.Root).Stmts[0].(*ast.StmtExpression).Expr
	for _, tk := range astx.FlatTokens(e) {
		tk.Position = nil
	}
	if ft := astx.Tokens(e); len(ft) > 0 {
		ft[0].FreeFloating = nil
	}
	var parent, node ast.Vertex
	var slot string
	idx := 0
	astx.Walk(r.Root, func(n ast.Vertex, _ string) bool {
		for _, ch := range astx.Children(n) {
			if siteKey(n, ch.Slot, ch.Index) == vi.Meta["site"] {
				parent, node, slot, idx = n, ch.Child, ch.Slot, ch.Index
			}
		}
		return true
	})
	if parent == nil {
		t.Skip("the recorded site is not in the tree any more")
	}
	toks := astx.FlatTokens(node)
	midStart, midEnd := toks[0].Position.StartPos, toks[len(toks)-1].Position.EndPos
	sub := px.PrintPHP(e)
	setChild(parent, slot, idx, e)
	out := px.Print(r.Root)
	harness.Eval()
	for _, a := range []string{"", " "} {
		for _, b := range []string{"", " "} {
			if bytes.Equal(out, []byte(string(src[:midStart])+a+string(sub)+b+string(src[midEnd:]))) {
				return
			}
		}
	}
	harness.Failf(t, "subtree-replacement", src, vi.Meta, "[%s] replacing %s at %s changed more than that subtree's text\noutput: %q", v, astx.KindName(node), vi.Meta["site"], out)
}
