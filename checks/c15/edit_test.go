package c15

import (
	"bytes"
	"fmt"
	"strconv"
	"strings"
	"testing"

	"github.com/z7zmey/php-parser/pkg/token"
	"pgregory.net/rapid"

	"verif/astx"
	"verif/harness"
	"verif/phpgen"
	"verif/progs"
	"verif/px"
)

// TestTokenEdit: "printing emits each token that is present" means the token as it is *now*. In the
// parsed tree of a generated program one to four tokens (significant or free-floating) get a new
// Value — letters in the other case (same length), or a longer name — while positions and everything
// else stay as parsed; the printed text must be the source with exactly those spans replaced. (A
// printer that trusts positions or the source buffer more than the tokens loses such edits.)
func TestTokenEdit(t *testing.T) {
	harness.Check(t, "token-edit", 8000, 300000, func(rt *rapid.T) {
		v := rapid.SampledFrom([]px.Ver{px.V56, px.V74}).Draw(rt, "version")
		o := progs.StructuralOptions(v)
		c := progs.Draw(rt, v, o, 1, 4)
		src := append([]byte{}, c.G.Render(c.Root, progs.Policy(rt, phpgen.PolicyFull, nil)).Src...)
		r := px.Parse(append([]byte{}, src...), v, true)
		if r.Root == nil || len(r.Errs) > 0 || r.Panic != "" {
			return
		}
		if !bytes.Equal(px.Print(r.Root), src) {
			return // the plain round trip is C02's business
		}
		var cands []*token.Token
		for _, tk := range astx.FlatTokens(r.Root) {
			if tk.Position == nil || len(tk.Value) == 0 {
				continue
			}
			switch tk.ID {
			case token.T_VARIABLE, token.T_STRING, token.T_COMMENT, token.T_DOC_COMMENT, token.T_CONSTANT_ENCAPSED_STRING, token.T_ENCAPSED_AND_WHITESPACE, token.T_INLINE_HTML,
				token.T_LOGICAL_AND, token.T_LOGICAL_OR, token.T_LOGICAL_XOR, token.T_ECHO, token.T_IF, token.T_FUNCTION, token.T_CLASS, token.T_NEW, token.T_RETURN, token.T_ARRAY, token.T_LIST, token.T_STATIC:
				if hasASCIILetter(tk.Value) {
					cands = append(cands, tk)
				}
			}
		}
		if len(cands) == 0 {
			return
		}
		n := rapid.IntRange(1, 4).Draw(rt, "edits")
		type edit struct {
			start, end int
			val        []byte
		}
		var edits []edit
		picked := map[*token.Token]bool{}
		desc := ""
		for i := 0; i < n; i++ {
			tk := cands[rapid.IntRange(0, len(cands)-1).Draw(rt, "token")]
			if picked[tk] {
				continue
			}
			picked[tk] = true
			nv := swapCase(tk.Value)
			if (tk.ID == token.T_VARIABLE || tk.ID == token.T_STRING) && rapid.Bool().Draw(rt, "longer") {
				nv = append(append([]byte{}, tk.Value...), "_x9"...)
			}
			edits = append(edits, edit{tk.Position.StartPos, tk.Position.EndPos, nv})
			desc += fmt.Sprintf(" %s %q->%q@%d", astx.IDString(tk.ID), tk.Value, nv, tk.Position.StartPos)
			tk.Value = nv // a new slice: the source buffer is not touched
		}
		// expected text: the source with the edited spans replaced (right to left)
		want := append([]byte{}, src...)
		for i := 0; i < len(edits); i++ {
			for j := i + 1; j < len(edits); j++ {
				if edits[j].start > edits[i].start {
					edits[i], edits[j] = edits[j], edits[i]
				}
			}
		}
		for _, e := range edits {
			want = append(append(append([]byte{}, want[:e.start]...), e.val...), want[e.end:]...)
		}
		var out []byte
		if p := px.Guard(func() { out = px.Print(r.Root) }); p != "" {
			harness.Fail(rt, "token-edit", src, map[string]string{"version": v.String(), "edits": desc}, "[%s] the printer panicked after token edits%s: %s", v, desc, p)
		}
		harness.Eval()
		if !bytes.Equal(out, want) {
			i := 0
			for i < len(out) && i < len(want) && out[i] == want[i] {
				i++
			}
			harness.Fail(rt, "token-edit", src, map[string]string{"version": v.String(), "edits": desc}, "[%s] after giving tokens new values (%s ) the printed text is not the source with those spans replaced: first difference at offset %d: expected ...%q, printed ...%q\nsource: %q", v, desc, i, trunc(want[i:], 60), trunc(out[i:], 60), src)
		}
		harness.Class("token-edit")
		if len(edits) >= 2 {
			harness.NonTrivial(append([]byte(desc), src...), fmt.Sprintf("[%s]%s in %q", v, desc, trunc(src, 160)))
		}
	})
}

// replayTokenEdit re-applies recorded edits (meta "edits": ` ID "old"->"new"@offset` items) to a fresh
// parse of the recorded source and checks the printed text.
func replayTokenEdit(src []byte, v px.Ver, desc string) string {
	r := px.Parse(append([]byte{}, src...), v, true)
	if r.Root == nil || len(r.Errs) > 0 || r.Panic != "" {
		return ""
	}
	byOff := map[int]*token.Token{}
	for _, tk := range astx.FlatTokens(r.Root) {
		if tk.Position != nil && len(tk.Value) > 0 {
			byOff[tk.Position.StartPos] = tk
		}
	}
	want := append([]byte{}, src...)
	type edit struct {
		start, end int
		val        []byte
	}
	var edits []edit
	rest := desc
	for {
		i := strings.Index(rest, "->\"")
		if i < 0 {
			break
		}
		rest = rest[i+2:]
		j := strings.LastIndex(rest[:strings.Index(rest+" ", "@")+0], "\"")
		at := strings.Index(rest, "\"@")
		if at < 0 {
			break
		}
		nv, err := strconv.Unquote(rest[:at+1])
		_ = j
		if err != nil {
			break
		}
		var off int
		fmt.Sscanf(rest[at+2:], "%d", &off)
		if tk := byOff[off]; tk != nil {
			edits = append(edits, edit{tk.Position.StartPos, tk.Position.EndPos, []byte(nv)})
			tk.Value = []byte(nv)
		}
		rest = rest[at+2:]
	}
	for i := 0; i < len(edits); i++ {
		for j := i + 1; j < len(edits); j++ {
			if edits[j].start > edits[i].start {
				edits[i], edits[j] = edits[j], edits[i]
			}
		}
	}
	for _, e := range edits {
		want = append(append(append([]byte{}, want[:e.start]...), e.val...), want[e.end:]...)
	}
	out := px.Print(r.Root)
	harness.Eval()
	if !bytes.Equal(out, want) {
		return fmt.Sprintf("[%s] after the recorded token edits (%s ) the printed text is not the source with those spans replaced: %q vs expected %q", v, desc, trunc(out, 200), trunc(want, 200))
	}
	return ""
}

func hasASCIILetter(b []byte) bool {
	for _, c := range b {
		if (c >= 'a' && c <= 'z') || (c >= 'A' && c <= 'Z') {
			return true
		}
	}
	return false
}

func swapCase(b []byte) []byte {
	out := append([]byte{}, b...)
	for i, c := range out {
		switch {
		case c >= 'a' && c <= 'z':
			out[i] = c - 32
		case c >= 'A' && c <= 'Z':
			out[i] = c + 32
		}
	}
	return out
}
