package c15

import (
	"bytes"
	"fmt"
	"os"
	"reflect"
	"strings"
	"testing"

	"github.com/z7zmey/php-parser/pkg/ast"
	"github.com/z7zmey/php-parser/pkg/token"
	"pgregory.net/rapid"

	"verif/astx"
	"verif/harness"
	"verif/oracle"
	"verif/phpgen"
	"verif/progs"
	"verif/px"
)

// TestTokenRemoval: "where a token is absent the printer substitutes the construct's canonical lexeme or
// nothing, never another node's text" — on *parsed* trees, whose remaining tokens carry positions, in
// files with inline HTML, close tags and shebang lines (the exhaustive per-kind enumeration uses synthetic,
// position-less nodes and a fresh printer in PHP mode). One keyword / punctuation token of a drawn node is
// set to nil; the printed text must be the source with that token's span (its free-floating tokens
// included) replaced by a canonical lexeme of the slot or by nothing, apart from one separating space at
// either boundary.
type removalSite struct {
	node ast.Vertex
	slot string
	tok  *token.Token
}

var altSyntaxKinds = map[string]bool{"StmtIf": true, "StmtElseIf": true, "StmtElse": true, "StmtFor": true, "StmtForeach": true, "StmtWhile": true, "StmtSwitch": true, "StmtDeclare": true}

// formSelecting: tokens whose absence makes the printer substitute the canonical lexeme of *another* absent
// slot of the same node (still "the construct's canonical lexeme", but outside the removed span): without
// its '[' a short list is printed as "list(" (the absent ListTkn), without its '{' a trait use with an empty
// adaptation block gets the ';' of the block-less form.
var formSelecting = map[string]bool{"ExprList.OpenBracketTkn": true, "StmtTraitUse.OpenCurlyBracketTkn": true}

func removalSites(root ast.Vertex) []removalSite {
	var sites []removalSite
	astx.Walk(root, func(n ast.Vertex, _ string) bool {
		if insideStringLike(n) {
			return true
		}
		kind := astx.KindName(n)
		for _, p := range astx.Parts(n) {
			if p.Kind != astx.PToken || p.Index != -1 || p.Tok.Position == nil || len(p.Tok.Value) == 0 {
				continue
			}
			lex, ok := oracle.CanonicalLexemes(kind, p.Slot)
			if !ok || p.Slot == "ColonTkn" && altSyntaxKinds[kind] || formSelecting[kind+"."+p.Slot] {
				// the ':' of an alternative-syntax statement selects the form: without it the node is the brace form,
				// whose body list then gets the canonical braces of *its* absent tokens — more than this token's span changes
				continue
			}
			// the token must spell a canonical lexeme itself ("?>" standing for ';', "<?=" for echo change the
			// PHP/HTML mode of what follows when they go)
			val := strings.ToLower(strings.Join(strings.Fields(string(p.Tok.Value)), ""))
			found := false
			for _, l := range lex {
				found = found || l == val
			}
			mode := false
			for _, ff := range p.Tok.FreeFloating {
				mode = mode || ff.ID == token.T_OPEN_TAG || ff.ID == token.T_INLINE_HTML || (ff.ID == token.T_COMMENT && bytes.HasPrefix(ff.Value, []byte("#!")) && ff.Position != nil && ff.Position.StartPos == 0)
			}
			mode = mode || bytes.HasPrefix(p.Tok.Value, []byte("<?")) || bytes.Contains(p.Tok.Value, []byte("?>"))
			if found && !mode {
				sites = append(sites, removalSite{n, p.Slot, p.Tok})
			}
		}
		return true
	})
	return sites
}

func checkRemoval(src []byte, root ast.Vertex, s removalSite) string {
	start := s.tok.Position.StartPos
	if len(s.tok.FreeFloating) > 0 && s.tok.FreeFloating[0].Position != nil {
		start = s.tok.FreeFloating[0].Position.StartPos
	}
	end := s.tok.Position.EndPos
	kind := astx.KindName(s.node)
	reflect.ValueOf(s.node).Elem().FieldByName(s.slot).Set(reflect.Zero(reflect.TypeOf((*token.Token)(nil))))
	var out []byte
	if p := px.Guard(func() { out = px.Print(root) }); p != "" {
		return fmt.Sprintf("the printer panicked after %s.%s was set to nil: %s", kind, s.slot, p)
	}
	harness.Eval()
	lex, _ := oracle.CanonicalLexemes(kind, s.slot)
	pre, post := string(src[:start]), string(src[end:])
	mids := append([]string{""}, lex...)
	if kind == "ExprYieldFrom" {
		mids = append(mids, "yield from")
	}
	for _, mid := range mids {
		for _, a := range []string{"", " "} {
			for _, b := range []string{"", " "} {
				if string(out) == pre+a+mid+b+post {
					return ""
				}
			}
		}
	}
	want := pre + post
	i := 0
	for i < len(out) && i < len(want) && out[i] == want[i] {
		i++
	}
	return fmt.Sprintf("with %s.%s (%q at %d-%d) set to nil the printed text is not the source with that span replaced by a canonical lexeme %q or nothing: first difference at offset %d: printed ...%q, source without the span ...%q", kind, s.slot, s.tok.Value, start, end, lex, i, trunc(out[i:], 60), trunc([]byte(want[min(i, len(want)):]), 60))
}

func TestTokenRemoval(t *testing.T) {
	harness.Check(t, "token-removal", 8000, 300000, func(rt *rapid.T) {
		v := rapid.SampledFrom([]px.Ver{px.V56, px.V74}).Draw(rt, "version")
		c := progs.Draw(rt, v, progs.StructuralOptions(v), 1, 4)
		src := append([]byte{}, c.G.Render(c.Root, progs.Policy(rt, phpgen.PolicyFull, nil)).Src...)
		r := px.Parse(append([]byte{}, src...), v, true)
		if r.Root == nil || len(r.Errs) > 0 || r.Panic != "" {
			return
		}
		if !bytes.Equal(px.Print(r.Root), src) {
			return // the plain round trip is C02's business
		}
		sites := removalSites(r.Root)
		if len(sites) == 0 {
			return
		}
		i := rapid.IntRange(0, len(sites)-1).Draw(rt, "site")
		s := sites[i]
		key := fmt.Sprintf("%s.%s@%d", astx.KindName(s.node), s.slot, s.tok.Position.StartPos)
		if m := checkRemoval(src, r.Root, s); m != "" {
			if os.Getenv("VERIF_SURVEY") != "" { // development aid: list every failing class instead of stopping at the first
				fmt.Printf("SURVEY %s.%s %q :: %s\n", astx.KindName(s.node), s.slot, s.tok.Value, m)
				return
			}
			harness.Fail(rt, "token-removal", src, map[string]string{"version": v.String(), "removed": key}, "[%s] %s\nsource: %q", v, m, src)
		}
		harness.Class("token-removal")
		html := bytes.Contains(src, []byte("?>")) || !bytes.HasPrefix(src, []byte("<?php"))
		if html {
			harness.Class("token-removal:file-with-html-or-shebang")
		}
		harness.Distinct("removed-slot", astx.KindName(s.node)+"."+s.slot)
		if html && len(s.tok.FreeFloating) > 0 {
			harness.NonTrivial(append([]byte(key), src...), fmt.Sprintf("[%s] %s in %q", v, key, trunc(src, 160)))
		}
	})
}

// replayTokenRemoval removes the recorded token ("Kind.Slot@offset") from a fresh parse of the recorded source.
func replayTokenRemoval(src []byte, v px.Ver, key string) string {
	r := px.Parse(append([]byte{}, src...), v, true)
	if r.Root == nil || len(r.Errs) > 0 || r.Panic != "" {
		return ""
	}
	for _, s := range removalSites(r.Root) {
		if fmt.Sprintf("%s.%s@%d", astx.KindName(s.node), s.slot, s.tok.Position.StartPos) == key {
			if m := checkRemoval(src, r.Root, s); m != "" {
				return fmt.Sprintf("[%s] %s", v, m)
			}
			return ""
		}
	}
	return ""
}
