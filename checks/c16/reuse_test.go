package c16

import (
	"bytes"
	"fmt"

	"github.com/z7zmey/php-parser/pkg/ast"
	"github.com/z7zmey/php-parser/pkg/visitor/dumper"

	"verif/astx"
	"verif/harness"
	"verif/px"
)

// checkReuse: "the dump of any tree" also holds for the second tree a Dumper is given. One Dumper dumps a
// sub-tree, then the whole tree, then the whole tree again into one buffer; the text must be the
// concatenation of what three fresh Dumpers write (each of which checkTree compares with the tree).
func checkReuse(root ast.Vertex, pick int, tokens, positions bool) string {
	nodes := astx.Nodes(root)
	sub := nodes[pick%len(nodes)]
	var b bytes.Buffer
	d := dumper.NewDumper(&b)
	if tokens {
		d = d.WithTokens()
	}
	if positions {
		d = d.WithPositions()
	}
	var pan string
	for i, n := range []ast.Vertex{sub, root, root} {
		if p := px.Guard(func() { d.Dump(n) }); p != "" {
			pan = fmt.Sprintf("dump #%d with a re-used Dumper panicked: %s", i+1, p)
			break
		}
	}
	harness.EvalN(3)
	if pan != "" {
		return pan
	}
	want := append(append(append([]byte{}, px.Dump(sub, tokens, positions)...), px.Dump(root, tokens, positions)...), px.Dump(root, tokens, positions)...)
	if !bytes.Equal(b.Bytes(), want) {
		i := 0
		for i < b.Len() && i < len(want) && b.Bytes()[i] == want[i] {
			i++
		}
		return fmt.Sprintf("[WithTokens=%v WithPositions=%v] one Dumper used for three dumps (sub-tree %s, the tree, the tree again) writes something else than three fresh Dumpers: first difference at byte %d: %q vs %q", tokens, positions, astx.KindName(sub), i, trunc(b.Bytes()[i:], 80), trunc(want[i:], 80))
	}
	return ""
}
