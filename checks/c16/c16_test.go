// C16 — The Go-syntax dump is a complete and faithful rendering of the tree.
package c16

import (
	"fmt"
	"testing"

	"github.com/z7zmey/php-parser/pkg/ast"
	"pgregory.net/rapid"

	"verif/astx"
	"verif/harness"
	"verif/inputs"
	"verif/oracle"
	"verif/phpgen"
	"verif/progs"
	"verif/px"
	"verif/synth"
)

func TestMain(m *testing.M) { harness.Main(m, "C16") }

var optCombos = [][2]bool{{false, false}, {true, false}, {false, true}, {true, true}}

func checkTree(n ast.Vertex) string {
	for _, o := range optCombos {
		var d []byte
		if p := px.Guard(func() { d = px.Dump(n, o[0], o[1]) }); p != "" {
			return fmt.Sprintf("dumper panicked (tokens=%v positions=%v): %s", o[0], o[1], p)
		}
		harness.Eval()
		if m := oracle.CheckDump(d, n, o[0], o[1]); m != "" {
			return fmt.Sprintf("[WithTokens=%v WithPositions=%v] %s", o[0], o[1], m)
		}
	}
	return ""
}

var hostileValues = [][]byte{[]byte("x"), []byte(""), []byte("a\"b"), []byte("back\\slash"), []byte("nul\x00byte"), []byte("\xff\xfe invalid utf8"), []byte("new\nline\ttab"), []byte("`"), []byte("é"), []byte("'")}

// TestExhaustiveKinds: every kind; all slots present; all absent; each single
// slot absent; each single slot present; every pair present; for kinds with
// up to 10 slots every subset.
func TestExhaustiveKinds(t *testing.T) { enumerateKinds(t, "") }

// enumerateKinds runs the synthetic-node enumeration; with only != "" just the case with that
// description is evaluated (replay of a recorded case, on any shard).
func enumerateKinds(t *testing.T, only string) {
	if err := astx.SelfTest(); err != nil {
		t.Fatal(err)
	}
	if oracle.IDNamesLoaded() < 100 {
		t.Fatalf("could not read the token id constants from pkg/token/token.go (%d read)", oracle.IDNamesLoaded())
	}
	total := 0
	allSmall := true
	for ki, s := range astx.Kinds() {
		if only == "" && !harness.MyShare(ki) {
			continue
		}
		slots := synth.SlotFields(s, astx.FToken, astx.FTokenList, astx.FChild, astx.FChildList, astx.FValue)
		var masks []uint64
		k := len(slots)
		full := uint64(1)<<uint(k) - 1
		if k <= 10 {
			for m := uint64(0); m <= full; m++ {
				masks = append(masks, m)
			}
		} else {
			allSmall = false
			masks = append(masks, 0, full)
			for i := 0; i < k; i++ {
				masks = append(masks, uint64(1)<<uint(i), full&^(uint64(1)<<uint(i)))
				for j := i + 1; j < k; j++ {
					masks = append(masks, uint64(1)<<uint(i)|uint64(1)<<uint(j))
				}
			}
		}
		for mi, mask := range masks {
			present := func(i int) bool {
				for b, f := range slots {
					if f == i {
						return mask&(uint64(1)<<uint(b)) != 0
					}
				}
				return false
			}
			ll := []int{0, 1, 3}[mi%3]
			listLen := func(int) int { return ll }
			mk := &synth.Markers{WithFF: mi%2 == 0, WithPos: mi%4 < 2}
			n := synth.Build(s, mk, present, listLen, hostileValues[mi%len(hostileValues)])
			total++
			d := synth.Describe(s, present, listLen)
			if only != "" && d != only {
				continue
			}
			harness.NonTrivial([]byte(d), d)
			if m := checkTree(n); m != "" {
				harness.Failf(t, "exhaustive-kinds", []byte(d), map[string]string{"node": d}, "%s: %s", d, m)
				return
			}
		}
	}
	if only != "" {
		return
	}
	harness.ClassN("synthetic-nodes", total)
	_ = allSmall
	harness.Exhaustive(fmt.Sprintf("all %d node kinds: every subset of token/child/list/value slots for kinds with <= 10 slots; all-present, all-absent, each single slot present/absent and every pair for larger kinds; x 4 option combinations", len(astx.Kinds())))
}

// TestDrawnSubsets: random slot subsets of the large kinds, random values.
func TestDrawnSubsets(t *testing.T) {
	harness.Check(t, "drawn-subsets", 3000, 72000, func(rt *rapid.T) {
		kinds := astx.Kinds()
		s := kinds[rapid.IntRange(0, len(kinds)-1).Draw(rt, "kind")]
		slots := synth.SlotFields(s, astx.FToken, astx.FTokenList, astx.FChild, astx.FChildList, astx.FValue)
		mask := rapid.Uint64().Draw(rt, "mask")
		lens := rapid.SliceOfN(rapid.IntRange(0, 4), len(s.Fields), len(s.Fields)).Draw(rt, "lens")
		val := rapid.SliceOfN(rapid.Byte(), 0, 12).Draw(rt, "val")
		present := func(i int) bool {
			for b, f := range slots {
				if f == i {
					return mask&(uint64(1)<<uint(b%64)) != 0
				}
			}
			return false
		}
		listLen := func(i int) int { return lens[i] }
		mk := &synth.Markers{WithFF: rapid.Bool().Draw(rt, "ff"), WithPos: rapid.Bool().Draw(rt, "pos")}
		n := synth.Build(s, mk, present, listLen, val)
		d := synth.Describe(s, present, listLen)
		harness.NonTrivial([]byte(d), "")
		if m := checkTree(n); m != "" {
			harness.Fail(rt, "drawn-subsets", []byte(d), map[string]string{"node": d}, "%s: %s", d, m)
		}
	})
}

func TestParsedPrograms(t *testing.T) {
	harness.Check(t, "parsed-programs", 4000, 100000, func(rt *rapid.T) {
		v := rapid.SampledFrom(px.KeyVersions).Draw(rt, "version")
		c := progs.Draw(rt, v, progs.StructuralOptions(v), 1, 4)
		lay := c.G.Render(c.Root, progs.Policy(rt, phpgen.PolicyFull, nil))
		r := px.Parse(lay.Src, v, true)
		if r.Root == nil || len(r.Errs) > 0 {
			harness.Fail(rt, "valid-rejected", lay.Src, nil, "[%s] generated program rejected: %s", v, px.ErrString(r.Errs))
		}
		if m := checkTree(r.Root); m != "" {
			harness.Fail(rt, "parsed-tree", lay.Src, map[string]string{"version": v.String()}, "[%s] %s\nsource: %q", v, m, lay.Src)
		}
		if m := checkReuse(r.Root, rapid.IntRange(0, 1<<20).Draw(rt, "subtree"), rapid.Bool().Draw(rt, "reuse-tokens"), rapid.Bool().Draw(rt, "reuse-positions")); m != "" {
			harness.Fail(rt, "dumper-reuse", lay.Src, map[string]string{"version": v.String(), "reuse": "1"}, "[%s] %s\nsource: %q", v, m, lay.Src)
		}
		kinds := map[string]bool{}
		for _, n := range astx.Nodes(r.Root) {
			kinds[astx.KindName(n)] = true
			harness.Distinct("node kinds seen in parsed trees", astx.KindName(n))
		}
		if len(kinds) >= 10 {
			harness.NonTrivial(lay.Src, fmt.Sprintf("[%s kinds=%d] %q", v, len(kinds), trunc(lay.Src, 300)))
		}
		c.Report()
	})
}

func trunc(b []byte, n int) []byte {
	if len(b) > n {
		return b[:n]
	}
	return b
}

func TestByteLevel(t *testing.T) {
	harness.Check(t, "byte-level", 4000, 100000, func(rt *rapid.T) {
		src, class := inputs.Any(rt)
		v := rapid.SampledFrom(px.KeyVersions).Draw(rt, "version")
		r := px.Parse(src, v, true)
		if r.Root == nil || r.Panic != "" {
			return
		}
		harness.Class("src=" + class)
		if m := checkTree(r.Root); m != "" {
			harness.Fail(rt, "parsed-tree", src, map[string]string{"version": v.String()}, "[%s errors=%d] %s", v, len(r.Errs), m)
		}
	})
}

func TestReplay(t *testing.T) {
	path := harness.ReplayPath()
	if path == "" {
		t.Skip("no VERIF_REPLAY")
	}
	vi, src, err := harness.LoadReplay(path)
	if err != nil {
		t.Fatal(err)
	}
	if vi.Meta["node"] != "" {
		harness.Eval()
		enumerateKinds(t, vi.Meta["node"]) // the recorded synthetic node only (drawn subsets: the enumerated node of the same description, if any)
		return
	}
	for _, v := range px.AllVersions {
		if vi.Meta["version"] != "" && vi.Meta["version"] != v.String() {
			continue
		}
		r := px.Parse(src, v, true)
		if r.Root == nil {
			continue
		}
		if m := checkTree(r.Root); m != "" {
			harness.Failf(t, vi.Check, src, vi.Meta, "[%s] %s", v, m)
			return
		}
		if vi.Meta["reuse"] != "" {
			for pick := 0; pick < 8; pick++ {
				if m := checkReuse(r.Root, pick*7, pick&1 == 0, pick&2 == 0); m != "" {
					harness.Failf(t, vi.Check, src, vi.Meta, "[%s] %s", v, m)
					return
				}
			}
		}
	}
}
