package c16

import (
	"bytes"
	"fmt"
	"testing"
	"time"

	"github.com/z7zmey/php-parser/pkg/ast"
	"pgregory.net/rapid"

	"verif/cli"
	"verif/harness"
	"verif/inputs"
	"verif/oracle"
	"verif/phpgen"
	"verif/progs"
	"verif/px"
)

// TestCLIDump: `php-parser -d` writes the dump (with tokens and positions) of a file to its standard
// output. For one file per invocation that output must be the dump the library gives for the same
// source and version, and — like every dump — a valid Go composite literal mirroring the tree.
func TestCLIDump(t *testing.T) {
	bin := cli.Path()
	if bin == "" {
		t.Skip("no command-line binary (VERIF_CLI)")
	}
	harness.Check(t, "cli-dump", 200, 6000, func(rt *rapid.T) {
		v := rapid.SampledFrom(px.KeyVersions).Draw(rt, "version")
		var src []byte
		class := "generated"
		if rapid.IntRange(0, 3).Draw(rt, "bytelevel") == 0 {
			src, class = inputs.Any(rt)
		} else {
			c := progs.Draw(rt, v, progs.StructuralOptions(v), 1, 4)
			src = append([]byte{}, c.G.Render(c.Root, progs.Policy(rt, phpgen.PolicyFull, nil)).Src...)
		}
		r := px.Parse(append([]byte{}, src...), v, true)
		if r.Panic != "" || r.Root == nil {
			return
		}
		var want []byte
		if p := px.Guard(func() { want = px.Dump(r.Root, true, true) }); p != "" {
			return
		}
		dir, clean, err := cli.TempDir("c16-dump-")
		if err != nil {
			rt.Skip("no scratch directory")
		}
		defer clean()
		if cli.WriteTree(dir, map[string][]byte{"a.php": src}) != nil {
			rt.Skip("cannot write scratch files")
		}
		res := cli.Run(bin, dir, 60*time.Second, nil, "-d", "-phpver", v.String(), dir)
		harness.Eval()
		if res.Err != nil {
			rt.Skip("cannot start the binary")
		}
		mt := map[string]string{"version": v.String(), "cli": "-d"}
		if res.TimedOut || res.Exit != 0 {
			harness.Fail(rt, "cli-dump-failed", src, mt, "[%s] php-parser -d: timed out=%v exit=%d stderr=%q", v, res.TimedOut, res.Exit, trunc(res.Stderr, 300))
		}
		if !bytes.Equal(res.Stdout, want) {
			i := 0
			for i < len(want) && i < len(res.Stdout) && want[i] == res.Stdout[i] {
				i++
			}
			harness.Fail(rt, "cli-dump-differs", src, mt, "[%s] php-parser -d prints a different dump than the library for the same source (first difference at byte %d of %d/%d): library ...%q, command line ...%q", v, i, len(want), len(res.Stdout), trunc(want[i:], 80), trunc(res.Stdout[i:], 80))
		}
		if m := checkDumpText(r.Root, res.Stdout); m != "" {
			harness.Fail(rt, "cli-dump-unfaithful", src, mt, "[%s] the dump printed by php-parser -d is not a faithful rendering of the tree: %s", v, m)
		}
		harness.Class("cli-dump:" + class)
		if len(src) > 40 {
			harness.NonTrivial(append([]byte("cli"+v.String()), src...), fmt.Sprintf("[%s] php-parser -d on %q", v, trunc(src, 160)))
		}
	})
}

// checkDumpText checks a dump text (tokens and positions requested) against the tree it claims to render.
func checkDumpText(root ast.Vertex, d []byte) string { return oracle.CheckDump(d, root, true, true) }
