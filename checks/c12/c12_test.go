// C12 — Traversal presents every node exactly once, parents first, in source order.
package c12

import (
	"fmt"
	"testing"

	"github.com/z7zmey/php-parser/pkg/ast"
	"github.com/z7zmey/php-parser/pkg/visitor/traverser"
	"pgregory.net/rapid"

	"verif/astx"
	"verif/harness"
	"verif/inputs"
	"verif/phpgen"
	"verif/progs"
	"verif/px"
	"verif/recvis"
	"verif/synth"
)

func TestMain(m *testing.M) { harness.Main(m, "C12") }

// compareWalk traverses root with the library's traverser and a recording
// visitor and compares the sequence with the reflective pre-order walk.
func compareWalk(root ast.Vertex) string {
	rec := &recvis.Recorder{}
	if p := px.Guard(func() { px.Traverse(root, rec) }); p != "" {
		return "traverser panicked: " + p
	}
	want := astx.Nodes(root)
	seen := map[ast.Vertex]int{}
	for i, n := range rec.Nodes {
		if j, dup := seen[n]; dup {
			return fmt.Sprintf("node %s presented twice (visits #%d and #%d)", astx.KindName(n), j, i)
		}
		seen[n] = i
	}
	inTree := map[ast.Vertex]bool{}
	for _, n := range want {
		inTree[n] = true
	}
	for i, n := range rec.Nodes {
		if !inTree[n] {
			return fmt.Sprintf("visit #%d presents a %s that is not a node of the tree", i, astx.KindName(n))
		}
	}
	for i := 0; i < len(want) || i < len(rec.Nodes); i++ {
		if i >= len(rec.Nodes) {
			return fmt.Sprintf("%d of %d nodes were never presented; first missing: %s (pre-order index %d)", len(want)-len(rec.Nodes), len(want), describe(root, want[i]), i)
		}
		if i >= len(want) {
			return fmt.Sprintf("more nodes presented (%d) than the tree has (%d)", len(rec.Nodes), len(want))
		}
		if want[i] != rec.Nodes[i] {
			if _, ok := seen[want[i]]; !ok {
				return fmt.Sprintf("node never presented: %s", describe(root, want[i]))
			}
			return fmt.Sprintf("order differs at visit #%d: traverser presents %s, source order has %s", i, describe(root, rec.Nodes[i]), describe(root, want[i]))
		}
	}
	// the visitor method must be the one of the node's own kind
	for i, n := range rec.Nodes {
		if s := astx.SchemaOf(n); s != nil && s.VisitorMethod != rec.Methods[i] {
			return fmt.Sprintf("%s was handed to visitor method %s, expected %s", s.Name, rec.Methods[i], s.VisitorMethod)
		}
	}
	return ""
}

func describe(root, n ast.Vertex) string {
	out := astx.KindName(n)
	astx.Walk(root, func(m ast.Vertex, path string) bool {
		if m == n {
			out = path
			return false
		}
		return true
	})
	return out
}

// enumerateKinds runs the synthetic-node enumeration; with only != "" just the case of that
// description is evaluated (replay of a recorded case).
func enumerateKinds(t *testing.T, only string) (int, bool) {
	total := 0
	for _, s := range astx.Kinds() {
		slots := synth.SlotFields(s, astx.FChild, astx.FChildList)
		for mask := 0; mask < 1<<len(slots); mask++ {
			for _, ll := range []int{0, 1, 3} {
				present := func(i int) bool {
					for b, f := range slots {
						if f == i {
							return mask&(1<<b) != 0
						}
					}
					return false
				}
				listLen := func(int) int { return ll }
				n := synth.Build(s, &synth.Markers{Deep: true}, present, listLen, nil)
				if only == "" {
					harness.Eval()
				}
				total++
				d := synth.Describe(s, present, listLen)
				if only != "" && d != only {
					continue
				}
				harness.NonTrivial([]byte(d), d)
				if m := compareWalk(n); m != "" {
					harness.Failf(t, "exhaustive-kinds", []byte(d), map[string]string{"node": d}, "%s: %s", d, m)
					return total, false
				}
				hasList := false
				for _, f := range slots {
					if s.Fields[f].Class == astx.FChildList && present(f) {
						hasList = true
					}
				}
				if !hasList {
					break // list length is irrelevant
				}
			}
		}
	}
	return total, true
}

// TestExhaustiveKinds: every kind x every subset of its child slots x list lengths {0,1,3}.
func TestExhaustiveKinds(t *testing.T) {
	if harness.Shard() != 0 {
		t.Skip("enumeration runs on shard 0")
	}
	if err := astx.SelfTest(); err != nil {
		t.Fatal(err)
	}
	if recvis.MethodCount != len(astx.Kinds()) {
		t.Fatalf("recorder has %d methods, ast.Visitor has %d kinds: regenerate recvis", recvis.MethodCount, len(astx.Kinds()))
	}
	total, ok := enumerateKinds(t, "")
	if !ok {
		return
	}
	harness.ClassN("synthetic-nodes", total)
	harness.Exhaustive(fmt.Sprintf("all %d node kinds x every subset of child slots x list lengths {0,1,3}", len(astx.Kinds())))
}

func traverserReuse(root ast.Vertex) string {
	nodes := astx.Nodes(root)
	sub := nodes[len(nodes)/2]
	rec := &recvis.Recorder{}
	tr := traverser.NewTraverser(rec)
	var counts []int
	if p := px.Guard(func() {
		for _, n := range []ast.Vertex{root, sub, root} {
			tr.Traverse(n)
			counts = append(counts, len(rec.Nodes))
		}
	}); p != "" {
		return "traverser panicked when used a second time: " + p
	}
	want := append(append(append([]ast.Vertex{}, nodes...), astx.Nodes(sub)...), nodes...)
	if len(rec.Nodes) != len(want) {
		return fmt.Sprintf("one Traverser used for three traversals (tree, a sub-tree, tree) presents %d nodes (after each: %v), fresh traversers present %d", len(rec.Nodes), counts, len(want))
	}
	for i := range want {
		if want[i] != rec.Nodes[i] {
			return fmt.Sprintf("one Traverser used for three traversals (tree, a sub-tree, tree): visit #%d presents %s, fresh traversers present %s", i, astx.KindName(rec.Nodes[i]), astx.KindName(want[i]))
		}
	}
	return ""
}

// checkParsed: the traversal clauses on a parsed tree, plus "no node reachable along two paths".
func checkParsed(root ast.Vertex) string {
	if m := compareWalk(root); m != "" {
		return m
	}
	// one Traverser object used for a second traversal (of a sub-tree, then of the whole tree again) presents
	// what fresh ones present
	if m := traverserReuse(root); m != "" {
		return m
	}
	// the tree a user holds after the library's own visitor went over it (name resolution, run through the
	// traverser the documented way) is still that parsed tree: the same clauses once more
	if p := px.Guard(func() { px.Resolve(root) }); p != "" {
		return "" // C13 / C14 look at the resolver itself
	}
	if m := compareWalk(root); m != "" {
		return "after a traversal with the name resolver as visitor: " + m
	}
	return ""
}

func TestParsedPrograms(t *testing.T) {
	harness.Check(t, "parsed-programs", 20000, 800000, func(rt *rapid.T) {
		v := rapid.SampledFrom(px.KeyVersions).Draw(rt, "version")
		c := progs.Draw(rt, v, progs.StructuralOptions(v), 1, 5)
		lay := c.G.Render(c.Root, progs.Policy(rt, phpgen.PolicySpace, nil))
		r := px.Parse(lay.Src, v, true)
		harness.Eval()
		if r.Root == nil || len(r.Errs) > 0 {
			harness.Fail(rt, "valid-rejected", lay.Src, nil, "[%s] generated program rejected: %s", v, px.ErrString(r.Errs))
		}
		if m := checkParsed(r.Root); m != "" {
			harness.Fail(rt, "parsed-tree", lay.Src, map[string]string{"version": v.String()}, "[%s] %s\nsource: %q", v, m, lay.Src)
		}
		nodes := astx.Nodes(r.Root)
		kinds := map[string]bool{}
		for _, n := range nodes {
			kinds[astx.KindName(n)] = true
			harness.Distinct("node kinds seen in parsed trees", astx.KindName(n))
		}
		if len(nodes) >= 20 && len(kinds) >= 10 {
			harness.NonTrivial(lay.Src, fmt.Sprintf("[%s nodes=%d kinds=%d] %q", v, len(nodes), len(kinds), trunc(lay.Src, 300)))
		}
		c.Report()
	})
}

// TestLargePrograms: programs of 120-200 generated statements, and programs that repeat a few
// statements up to some thousand times — more than one block of whatever the parser allocates in
// blocks. The traversal clauses and "no node object reachable along two paths" must hold there too.
func TestLargePrograms(t *testing.T) {
	harness.Check(t, "large-programs", 100, 4000, func(rt *rapid.T) {
		v := rapid.SampledFrom([]px.Ver{px.V56, px.V74}).Draw(rt, "version")
		var src []byte
		if rapid.Bool().Draw(rt, "repeated") {
			src = inputs.ManyStatements(rt)
			harness.Class("src=many-statements")
		} else {
			o := progs.StructuralOptions(v)
			o.NoHalt = true
			c := progs.Draw(rt, v, o, 120, 200)
			src = c.G.Render(c.Root, progs.Policy(rt, phpgen.PolicySpace, nil)).Src
			harness.Class("src=large-generated")
		}
		r := px.Parse(src, v, true)
		harness.Eval()
		if r.Root == nil || r.Panic != "" {
			return
		}
		if m := checkParsed(r.Root); m != "" {
			harness.Fail(rt, "parsed-tree", src, map[string]string{"version": v.String()}, "[%s errors=%d] large program: %s", v, len(r.Errs), m)
		}
		harness.NonTrivial(src, fmt.Sprintf("[%s] large program, %d nodes: %q...", v, len(astx.Nodes(r.Root)), trunc(src, 120)))
	})
}

func trunc(b []byte, n int) []byte {
	if len(b) > n {
		return b[:n]
	}
	return b
}

// TestByteLevel: any returned tree (also trees returned together with errors).
func TestByteLevel(t *testing.T) {
	harness.Check(t, "byte-level", 40000, 1500000, func(rt *rapid.T) {
		src, class := inputs.Any(rt)
		v := rapid.SampledFrom(px.KeyVersions).Draw(rt, "version")
		r := px.Parse(src, v, true)
		if r.Root == nil || r.Panic != "" {
			return
		}
		harness.Eval()
		harness.Class("src=" + class)
		if m := checkParsed(r.Root); m != "" {
			harness.Fail(rt, "parsed-tree", src, map[string]string{"version": v.String()}, "[%s errors=%d] %s", v, len(r.Errs), m)
		}
	})
}

func TestReplay(t *testing.T) {
	path := harness.ReplayPath()
	if path == "" {
		t.Skip("no VERIF_REPLAY")
	}
	vi, src, err := harness.LoadReplay(path)
	if err != nil {
		t.Fatal(err)
	}
	if vi.Meta["node"] != "" {
		harness.Eval()
		enumerateKinds(t, vi.Meta["node"]) // the recorded synthetic node only
		return
	}
	for _, v := range px.AllVersions {
		if vi.Meta["version"] != "" && vi.Meta["version"] != v.String() {
			continue
		}
		r := px.Parse(src, v, true)
		if r.Root == nil {
			continue
		}
		if m := checkParsed(r.Root); m != "" {
			harness.Failf(t, vi.Check, src, vi.Meta, "[%s] %s", v, m)
			return
		}
	}
}
