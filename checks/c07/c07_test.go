// C07 — A syntax error costs only the statement it is in.
package c07

import (
	"bytes"
	"fmt"
	"os"
	"reflect"
	"strings"
	"testing"

	"github.com/z7zmey/php-parser/pkg/ast"
	"github.com/z7zmey/php-parser/pkg/token"
	"pgregory.net/rapid"

	"verif/astx"
	"verif/harness"
	"verif/inputs"
	"verif/oracle"
	"verif/phpgen"
	"verif/progs"
	"verif/px"
)

func TestMain(m *testing.M) { harness.Main(m, "C07") }

func meta(v px.Ver) map[string]string { return map[string]string{"version": v.String()} }

// malformed statements: none can be accepted by any PHP grammar, none starts
// with a token that could continue the statement before it, braces are balanced.
var malformed = []string{"$v = ;", "1 +;", "$x $y;", "echo ,;", "=> 1;", "function ;", ")", "foo(;", "if (;", "class {}", "$a = = 1;", "]", "while ();", "$o-> ;", "new ;", "1 2;", ", 1;", "static function;"}

// malformedTop are closers with nothing to close; they are malformed only at a
// boundary of the top-level list (inside a block they would end the block).
var malformedTop = []string{"}", "} }", "endif;", "endwhile;", "endforeach;", "endfor;", "endswitch;", "enddeclare;", "case 1:", "default:"}

const tail = " $r1 = 1; $r2 = 2; $r3 = 3; sentinel_9f ( 1 ) ; "

// listRef locates a statement list in a tree.
type listRef struct {
	path  []step // from the root
	depth int
	where string
}

type step struct {
	field string
	index int // -1 for scalar child slots
}

// stmtLists enumerates the statement lists of the kinds the property names.
func stmtLists(root ast.Vertex) []listRef {
	var out []listRef
	var walk func(n ast.Vertex, path []step, depth int, inClassBody bool)
	walk = func(n ast.Vertex, path []step, depth int, inClassBody bool) {
		s := astx.SchemaOf(n)
		if s == nil {
			return
		}
		rv := reflect.ValueOf(n).Elem()
		isList := false
		switch n.(type) {
		case *ast.Root, *ast.StmtFunction, *ast.ExprClosure, *ast.StmtStmtList, *ast.StmtCase, *ast.StmtDefault, *ast.StmtNamespace, *ast.StmtTry, *ast.StmtCatch, *ast.StmtFinally:
			isList = true
		}
		if ns, ok := n.(*ast.StmtNamespace); ok && ns.OpenCurlyBracketTkn == nil {
			isList = false
		}
		if isList {
			out = append(out, listRef{path: append(append([]step{}, path...), step{"Stmts", -1}), depth: depth, where: s.Name})
		}
		classBody := false
		switch n.(type) {
		case *ast.StmtClass, *ast.StmtInterface, *ast.StmtTrait:
			classBody = true
		}
		for _, f := range s.Fields {
			switch f.Class {
			case astx.FChild:
				fv := rv.Field(f.Index)
				if !fv.IsNil() {
					walk(fv.Interface().(ast.Vertex), append(append([]step{}, path...), step{f.Name, -1}), depth+1, classBody)
				}
			case astx.FChildList:
				for i, c := range rv.Field(f.Index).Interface().([]ast.Vertex) {
					if !astx.IsNil(c) {
						walk(c, append(append([]step{}, path...), step{f.Name, i}), depth+1, classBody)
					}
				}
			}
		}
		_ = inClassBody
	}
	walk(root, nil, 0, false)
	return out
}

// follow resolves a path; the last step names the list field. It returns the list and its owner.
func follow(root ast.Vertex, path []step) ([]ast.Vertex, ast.Vertex, bool) {
	n := root
	for i, st := range path {
		if astx.IsNil(n) || astx.SchemaOf(n) == nil {
			return nil, nil, false
		}
		f := reflect.ValueOf(n).Elem().FieldByName(st.field)
		if !f.IsValid() {
			return nil, nil, false
		}
		if i == len(path)-1 {
			l, ok := f.Interface().([]ast.Vertex)
			return l, n, ok
		}
		if st.index >= 0 {
			l, ok := f.Interface().([]ast.Vertex)
			if !ok || st.index >= len(l) {
				return nil, nil, false
			}
			n = l[st.index]
		} else {
			if f.IsNil() {
				return nil, nil, false
			}
			n, _ = f.Interface().(ast.Vertex)
		}
	}
	return nil, nil, false
}

func isSentinel(n ast.Vertex) bool {
	se, ok := n.(*ast.StmtExpression)
	if !ok {
		return false
	}
	fc, ok := se.Expr.(*ast.ExprFunctionCall)
	if !ok {
		return false
	}
	nm, ok := fc.Function.(*ast.Name)
	return ok && len(nm.Parts) == 1 && string(nm.Parts[0].(*ast.NamePart).Value) == "sentinel_9f"
}

// insertion is one case of the inserted-statement check: which list of the error-free tree, which
// boundary in it, which malformed statement. It is recorded in the replay file (meta) so that the
// case can be re-evaluated from the clean source alone.
type insertion struct {
	list     int // index into stmtLists(error-free tree)
	boundary int
	m        string
}

type insertionResult struct {
	clause, msg string
	edited      []byte
	where       string
	depth       int
	skipped     bool // no insertion point / parser did not recover / panic (C01's business)
	recovered   bool
}

// checkInsertion evaluates every clause of the inserted-statement check (plain function, no rapid).
func checkInsertion(src []byte, v px.Ver, in insertion) insertionResult {
	res := insertionResult{}
	good := px.Parse(src, v, true)
	if len(good.Errs) > 0 || good.Root == nil {
		res.clause, res.msg, res.edited = "valid-rejected", fmt.Sprintf("[%s] generated valid program rejected: %s\nsource: %q", v, px.ErrString(good.Errs), src), src
		return res
	}
	lists := stmtLists(good.Root)
	if in.list >= len(lists) {
		res.skipped = true
		return res
	}
	lr := lists[in.list]
	res.where, res.depth = lr.where, lr.depth
	stmts, owner, ok := follow(good.Root, lr.path)
	if !ok {
		res.clause, res.msg = "internal", "path does not resolve in the error-free tree"
		return res
	}
	k := in.boundary
	if k > len(stmts) {
		k = len(stmts)
	}
	// insertion offset: directly before the first token of statement k, or before the token that closes the list
	at := -1
	if k < len(stmts) {
		if ts := astx.Tokens(stmts[k]); len(ts) > 0 && ts[0].Position != nil {
			at = ts[0].Position.StartPos
		}
	} else {
		at = endOfList(owner, good.Root, src)
	}
	if at < 0 || !phpModeAt(good.Root, at) {
		res.skipped = true
		return res
	}
	m := in.m
	edited := append(append(append([]byte{}, src[:at]...), []byte(" "+m+tail)...), src[at:]...)
	res.edited = edited
	bad := px.Parse(edited, v, true)
	harness.Eval()
	if bad.Panic != "" {
		res.skipped = true
		return res
	}
	fail := func(clause, format string, a ...interface{}) insertionResult {
		res.clause, res.msg = clause, fmt.Sprintf(format, a...)
		return res
	}
	if len(bad.Errs) == 0 {
		return fail("malformed-silent", "[%s] malformed statement %q inserted and no error reported\nedited: %q", v, m, edited)
	}
	if astx.IsNil(bad.Root) {
		res.skipped = true
		return res
	}
	res.recovered = true
	got, _, ok := follow(bad.Root, lr.path)
	if !ok {
		return fail("list-lost", "[%s] after inserting %q into the statement list of %s (boundary %d) the parser recovered, but that list no longer exists in the returned tree\nedited: %q", v, m, lr.where, k, edited)
	}
	if len(got) < k {
		return fail("prefix-lost", "[%s] %d well-formed statements precede the malformed %q in the list of %s, the returned tree keeps only %d\nedited: %q", v, k, m, lr.where, len(got), edited)
	}
	for i := 0; i < k; i++ {
		if d := astx.Equal(got[i], stmts[i], astx.WithTokens|astx.WithPositions); d != "" {
			return fail("prefix-changed", "[%s] statement #%d before the malformed %q differs from its error-free parse: %s\nedited: %q", v, i, m, d, edited)
		}
	}
	found := false
	for _, s := range got[k:] {
		if isSentinel(s) {
			found = true
		}
	}
	if !found {
		return fail("no-resume", "[%s] parsing did not continue after the malformed %q: the statement sentinel_9f(1); written after it is not in the list of %s\nedited: %q", v, m, lr.where, edited)
	}
	if cl, msg := printClause(edited, bad.Root); cl != "" {
		return fail(cl, "[%s] %s\nedited: %q", v, msg, edited)
	}
	return res
}

func TestInsertedMalformedStatement(t *testing.T) {
	harness.Check(t, "inserted-statement", 25000, 800000, func(rt *rapid.T) {
		v := rapid.SampledFrom(px.KeyVersions).Draw(rt, "version")
		o := progs.StructuralOptions(v)
		o.NoHalt = true
		c := progs.Draw(rt, v, o, 1, 5)
		lay := c.G.Render(c.Root, progs.Policy(rt, phpgen.PolicySpace, nil))
		src := append([]byte{}, lay.Src...)
		good := px.Parse(src, v, true)
		if len(good.Errs) > 0 || good.Root == nil {
			harness.Fail(rt, "valid-rejected", src, meta(v), "[%s] generated valid program rejected: %s\nsource: %q", v, px.ErrString(good.Errs), src)
		}
		lists := stmtLists(good.Root)
		li := rapid.IntRange(0, len(lists)-1).Draw(rt, "list")
		lr := lists[li]
		stmts, _, ok := follow(good.Root, lr.path)
		if !ok {
			rt.Fatalf("internal: path does not resolve in the error-free tree")
		}
		k := rapid.IntRange(0, len(stmts)).Draw(rt, "boundary")
		pool := malformed
		if lr.where == "Root" && lr.depth == 0 {
			pool = append(append([]string{}, malformed...), malformedTop...)
		}
		m := rapid.SampledFrom(pool).Draw(rt, "malformed")
		res := checkInsertion(src, v, insertion{li, k, m})
		if res.clause != "" {
			// the replay file holds the clean source; the case is rebuilt from the meta data
			mt := map[string]string{"version": v.String(), "malformed": m, "list": lr.where, "list_index": fmt.Sprint(li), "boundary": fmt.Sprint(k), "input_is": "clean source (the malformed statement is inserted by the replay)"}
			harness.Fail(rt, res.clause, src, mt, "%s", res.msg)
		}
		if res.skipped {
			if res.edited != nil {
				harness.Class("no-recovery(root nil)")
			}
			return
		}
		harness.Class("recovered in " + lr.where)
		if k >= 1 && lr.depth >= 1 {
			harness.NonTrivial(res.edited, fmt.Sprintf("[%s %q into %s at boundary %d, depth %d] %q", v, m, lr.where, k, lr.depth, trunc(res.edited, 240)))
		}
		harness.Class("malformed=" + m)
	})
}

// phpModeAt reports whether text inserted at offset at of the error-free source is read as PHP code: the
// last token (free-floating tokens included) that ends at or before the offset must exist and be neither
// inline HTML nor a token that carries a close tag ("?>" standing for ';', a line comment ended by "?>").
func phpModeAt(root ast.Vertex, at int) bool {
	var last *token.Token
	for _, t := range astx.FlatTokens(root) {
		if t.Position == nil || len(t.Value) == 0 {
			continue
		}
		if t.Position.EndPos <= at {
			last = t
		}
	}
	if last == nil || last.ID == token.T_INLINE_HTML {
		return false
	}
	if last.ID == token.T_COMMENT && last.Position.StartPos == 0 && bytes.HasPrefix(last.Value, []byte("#!")) {
		return false // the shebang line: HTML follows
	}
	v := bytes.TrimRight(last.Value, "\r\n")
	return !bytes.HasSuffix(v, []byte("?>"))
}

// endOfList returns the offset of the token that closes the list owned by n (or the end of input for the root).
func endOfList(owner, root ast.Vertex, src []byte) int {
	switch v := owner.(type) {
	case *ast.Root:
		_ = v
		return len(src) // after the trailing trivia (a heredoc terminator may need its newline)
	case *ast.StmtCase, *ast.StmtDefault:
		return -1 // the list ends where the next case starts; boundaries inside are enough
	}
	f := reflect.ValueOf(owner).Elem().FieldByName("CloseCurlyBracketTkn")
	if f.IsValid() {
		if t, _ := f.Interface().(*token.Token); t != nil && t.Position != nil {
			return t.Position.StartPos
		}
	}
	return -1
}

// printClause: printing a tree returned despite errors yields only tokens of
// the source, each at most once and in source order.
func printClause(src []byte, root ast.Vertex) (string, string) {
	src = harness.Pristine(src) // the source as it was before the parse
	tr := oracle.CheckTokens(src, root, false, false)
	if tr.Clause != "" {
		return "recovered-tokens/" + tr.Clause, "tokens of the recovered tree: " + tr.Msg
	}
	var out []byte
	if p := px.Guard(func() { out = px.Print(root) }); p != "" {
		return "print-panic", "printing the recovered tree panicked: " + p
	}
	// the output must be the concatenation of the tree's tokens, up to the printer's documented glue
	rest := out
	toks := astx.FlatTokens(root)
	for i, t := range toks {
		if len(t.Value) == 0 {
			continue
		}
		for _, glue := range []string{"", " ", "<?php ", "?>", "<?php  ", " ?>"} {
			if bytes.HasPrefix(rest, []byte(glue)) && bytes.HasPrefix(rest[len(glue):], t.Value) {
				if glue == "<?php " && i > 0 && !afterHTML(toks, i) {
					continue
				}
				rest = rest[len(glue)+len(t.Value):]
				goto next
			}
		}
		return "print-invents", fmt.Sprintf("printed text departs from the source tokens at %q; next source token is %s; printed so far %d of %d bytes", trunc(rest, 40), astx.TokString(t), len(out)-len(rest), len(out))
	next:
	}
	if len(bytes.TrimSpace(rest)) != 0 {
		return "print-invents", fmt.Sprintf("printed text has %q left over after all tokens of the tree", trunc(rest, 60))
	}
	return "", ""
}

func afterHTML(toks []*token.Token, i int) bool {
	for j := i - 1; j >= 0; j-- {
		if len(toks[j].Value) == 0 {
			continue
		}
		return toks[j].ID == token.T_INLINE_HTML || bytes.HasSuffix(bytes.TrimRight(toks[j].Value, "\r\n"), []byte("?>"))
	}
	return true
}

func trunc(b []byte, n int) []byte {
	if len(b) > n {
		return b[:n]
	}
	return b
}

// TestPrintClauseByteLevel: every tree returned together with errors.
func TestPrintClauseByteLevel(t *testing.T) {
	harness.Check(t, "print-clause", 60000, 2000000, func(rt *rapid.T) {
		src, class := inputs.Any(rt)
		v := rapid.SampledFrom(px.KeyVersions).Draw(rt, "version")
		r := px.Parse(src, v, true)
		if r.Panic != "" || astx.IsNil(r.Root) || len(r.Errs) == 0 {
			return
		}
		harness.Eval()
		harness.Class("src=" + class)
		if cl, msg := printClause(src, r.Root); cl != "" {
			harness.Fail(rt, cl, src, meta(v), "[%s errors=%d] %s", v, len(r.Errs), msg)
		}
		if rt2, ok := r.Root.(*ast.Root); ok && len(rt2.Stmts) >= 2 {
			harness.NonTrivial(append([]byte(v.String()), src...), fmt.Sprintf("[%s errors=%d stmts=%d] %q", v, len(r.Errs), len(rt2.Stmts), trunc(src, 200)))
		}
	})
}

// TestPrintClauseSemanticErrors: trees returned together with the grammars' own (semantic) error reports.
func TestPrintClauseSemanticErrors(t *testing.T) {
	harness.Check(t, "print-clause-semantic", 8000, 300000, func(rt *rapid.T) {
		src := inputs.SemanticErrorProgram(rt)
		v := rapid.SampledFrom(px.KeyVersions).Draw(rt, "version")
		r := px.Parse(src, v, true)
		if r.Panic != "" || astx.IsNil(r.Root) || len(r.Errs) == 0 {
			return
		}
		harness.Eval()
		harness.Class("src=semantic-error-program")
		if cl, msg := printClause(src, r.Root); cl != "" {
			harness.Fail(rt, cl, src, meta(v), "[%s errors=%d] %s\nsource: %q", v, len(r.Errs), msg, src)
		}
		harness.NonTrivial(append([]byte(v.String()), src...), fmt.Sprintf("[%s errors=%d] %q", v, len(r.Errs), trunc(src, 200)))
	})
}

func TestCorpusReplay(t *testing.T) {
	if harness.Shard() != 0 {
		t.Skip("shard 0 only")
	}
	for _, f := range harness.CorpusFiles("C07") {
		src, _ := os.ReadFile(f)
		for _, v := range px.KeyVersions {
			r := px.Parse(src, v, true)
			if astx.IsNil(r.Root) || len(r.Errs) == 0 {
				continue
			}
			if cl, msg := printClause(src, r.Root); cl != "" {
				harness.Failf(t, cl, src, meta(v), "[%s] %s [corpus file %s]", v, msg, f)
			}
			// regression inputs carry the sentinel statement after their malformed one
			if bytes.Contains(src, []byte("sentinel_9f")) {
				found := false
				astx.Walk(r.Root, func(n ast.Vertex, _ string) bool {
					found = found || isSentinel(n)
					return !found
				})
				if !found {
					harness.Failf(t, "no-resume", src, meta(v), "[%s] the sentinel statement after the malformed one is not in the returned tree [corpus file %s]", v, f)
				}
			}
		}
	}
}

func TestReplay(t *testing.T) {
	path := harness.ReplayPath()
	if path == "" {
		t.Skip("no VERIF_REPLAY")
	}
	vi, src, err := harness.LoadReplay(path)
	if err != nil {
		t.Fatal(err)
	}
	for _, v := range px.AllVersions {
		if vi.Meta["version"] != "" && vi.Meta["version"] != v.String() {
			continue
		}
		if vi.Meta["many"] != "" {
			var li, k int
			fmt.Sscan(vi.Meta["many_list"], &li)
			fmt.Sscan(vi.Meta["boundary"], &k)
			if res := checkMany(src, v, li, k, strings.Split(vi.Meta["many"], "\x00")); res.clause != "" {
				harness.Failf(t, "many-malformed/"+res.clause, src, vi.Meta, "%s", res.msg)
				return
			}
			continue
		}
		if vi.Meta["list_index"] != "" {
			// an inserted-statement case: src is the clean program, the insertion is in the meta data
			var in insertion
			fmt.Sscan(vi.Meta["list_index"], &in.list)
			fmt.Sscan(vi.Meta["boundary"], &in.boundary)
			in.m = vi.Meta["malformed"]
			if res := checkInsertion(src, v, in); res.clause != "" {
				harness.Failf(t, "inserted-statement/"+res.clause, src, vi.Meta, "%s", res.msg)
				return
			}
			continue
		}
		r := px.Parse(src, v, true)
		if astx.IsNil(r.Root) {
			continue
		}
		if strings.Contains(vi.Check, "no-resume") || strings.Contains(vi.Check, "prefix") || strings.Contains(vi.Check, "list-lost") {
			found := false
			astx.Walk(r.Root, func(n ast.Vertex, _ string) bool {
				if isSentinel(n) {
					found = true
				}
				return !found
			})
			if !found {
				harness.Failf(t, vi.Check, src, vi.Meta, "[%s] the sentinel statement after the malformed one is not in the returned tree", v)
				return
			}
		}
		if cl, msg := printClause(src, r.Root); cl != "" {
			harness.Failf(t, cl, src, vi.Meta, "[%s] %s", v, msg)
			return
		}
	}
}
