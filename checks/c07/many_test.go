package c07

import (
	"fmt"
	"strings"
	"testing"

	"github.com/z7zmey/php-parser/pkg/ast"
	"pgregory.net/rapid"

	"verif/astx"
	"verif/harness"
	"verif/phpgen"
	"verif/progs"
	"verif/px"
)

// TestManyMalformedStatements: the property holds for *each* malformed statement of a file, however many
// there are. Into one statement list of a generated program a run of n units is inserted, each unit a
// malformed statement followed by three simple statements and a numbered sentinel call; n is drawn from
// small numbers and from the neighbourhood of powers of two and of ten (error limits, stack and buffer
// sizes live there). When the parser recovers: the statements before the first unit equal their
// error-free parse, every one of the n sentinels is in the list, in order, and the print clause holds.
var unitCounts = []int{1, 2, 3, 4, 5, 7, 8, 9, 10, 11, 12, 15, 16, 17, 20, 31, 32, 33, 50, 64, 65, 100, 101}

var witnesses = []string{";", "{ }", "$w = 1 ;", "echo 2 ;", "; ;", "if ( $c ) { }", "w ( ) ;", "{ ; }", "$w = 1 ; ; echo 2 ;", "while ( 0 ) ;", "; { } ;"}

func witnessText(i int) string { return witnesses[(i*7+3)%len(witnesses)] }

var witnessCache = map[string][]ast.Vertex{}

// witnessStmts parses the witness statements of unit i alone.
func witnessStmts(v px.Ver, i int) []ast.Vertex {
	key := v.String() + witnessText(i)
	if w, ok := witnessCache[key]; ok {
		return w
	}
	r := px.Parse([]byte("<?php "+witnessText(i)+" "), v, true)
	var out []ast.Vertex
	if r.Root != nil && len(r.Errs) == 0 {
		out = r.Root.(*ast.Root).Stmts
	}
	witnessCache[key] = out
	return out
}

func sentinelNumber(n ast.Vertex) int {
	if !isSentinel(n) {
		return -1
	}
	fc := n.(*ast.StmtExpression).Expr.(*ast.ExprFunctionCall)
	if len(fc.Args) != 1 {
		return -1
	}
	a, ok := fc.Args[0].(*ast.Argument)
	if !ok {
		return -1
	}
	ln, ok := a.Expr.(*ast.ScalarLnumber)
	if !ok {
		return -1
	}
	k := -1
	fmt.Sscan(string(ln.Value), &k)
	return k
}

// checkMany evaluates the case (plain function, also used by the replay). ms = the malformed statements.
func checkMany(src []byte, v px.Ver, list, boundary int, ms []string) insertionResult {
	res := insertionResult{}
	good := px.Parse(src, v, true)
	if len(good.Errs) > 0 || good.Root == nil {
		res.clause, res.msg, res.edited = "valid-rejected", fmt.Sprintf("[%s] generated valid program rejected: %s\nsource: %q", v, px.ErrString(good.Errs), src), src
		return res
	}
	lists := stmtLists(good.Root)
	if list >= len(lists) {
		res.skipped = true
		return res
	}
	lr := lists[list]
	res.where, res.depth = lr.where, lr.depth
	stmts, owner, ok := follow(good.Root, lr.path)
	if !ok {
		res.clause, res.msg = "internal", "path does not resolve in the error-free tree"
		return res
	}
	k := boundary
	if k > len(stmts) {
		k = len(stmts)
	}
	at := -1
	if k < len(stmts) {
		if ts := astx.Tokens(stmts[k]); len(ts) > 0 && ts[0].Position != nil {
			at = ts[0].Position.StartPos
		}
	} else {
		at = endOfList(owner, good.Root, src)
	}
	if at < 0 || !phpModeAt(good.Root, at) {
		res.skipped = true
		return res
	}
	// after each sentinel stand one to three witness statements (chosen by the unit's number): well-formed
	// statements that precede the next malformed one, read outside recovery mode (the sentinel call before
	// them shifted more than three tokens) — they must be in the list exactly as they parse alone
	var ins strings.Builder
	for i, m := range ms {
		fmt.Fprintf(&ins, " %s $r1 = 1; $r2 = 2; $r3 = 3; sentinel_9f ( %d ) ; %s ", m, i+1, witnessText(i))
	}
	edited := append(append(append([]byte{}, src[:at]...), ins.String()...), src[at:]...)
	res.edited = edited
	bad := px.Parse(edited, v, true)
	harness.Eval()
	if bad.Panic != "" {
		res.skipped = true
		return res
	}
	fail := func(clause, format string, a ...interface{}) insertionResult {
		res.clause, res.msg = clause, fmt.Sprintf(format, a...)
		return res
	}
	if len(bad.Errs) == 0 {
		return fail("malformed-silent", "[%s] %d malformed statements inserted and no error reported\nedited: %q", v, len(ms), edited)
	}
	if astx.IsNil(bad.Root) {
		res.skipped = true
		return res
	}
	res.recovered = true
	got, _, ok := follow(bad.Root, lr.path)
	if !ok {
		return fail("list-lost", "[%s] after inserting %d malformed statements into the statement list of %s (boundary %d) the parser recovered, but that list no longer exists in the returned tree\nedited: %q", v, len(ms), lr.where, k, edited)
	}
	if len(got) < k {
		return fail("prefix-lost", "[%s] %d well-formed statements precede the first malformed statement in the list of %s, the returned tree keeps only %d\nedited: %q", v, k, lr.where, len(got), edited)
	}
	for i := 0; i < k; i++ {
		if d := astx.Equal(got[i], stmts[i], astx.WithTokens|astx.WithPositions); d != "" {
			return fail("prefix-changed", "[%s] statement #%d before the first malformed statement differs from its error-free parse: %s\nedited: %q", v, i, d, edited)
		}
	}
	next := 1
	for p, s := range got[k:] {
		if n := sentinelNumber(s); n == next {
			want := witnessStmts(v, next-1)
			rest := got[k+p+1:]
			if len(rest) < len(want) {
				return fail("witness-lost", "[%s] the %d well-formed statements %q behind sentinel_9f(%d) precede the next malformed statement; the list ends after %d more statements\nedited: %q", v, len(want), witnessText(next-1), next, len(rest), trunc(edited, 1500))
			}
			for j, w := range want {
				if d := astx.Equal(rest[j], w, 0); d != "" {
					return fail("witness-changed", "[%s] well-formed statement #%d of %q behind sentinel_9f(%d) (it precedes the next malformed statement and follows a statement that parsed normally) is not in the list as it parses alone: %s\nedited: %q", v, j, witnessText(next-1), next, d, trunc(edited, 1500))
				}
			}
			next++
		}
	}
	if next <= len(ms) {
		return fail("no-resume", "[%s] %d malformed statements (%q ...) in the list of %s, each followed by three simple statements and sentinel_9f(i): parsing did not continue after malformed statement #%d — sentinel_9f(%d) is not in the list (the ones before it are)\nedited: %q", v, len(ms), ms[0], lr.where, next, next, trunc(edited, 1500))
	}
	if cl, msg := printClause(edited, bad.Root); cl != "" {
		return fail(cl, "[%s] %s\nedited: %q", v, msg, trunc(edited, 1500))
	}
	return res
}

func TestManyMalformedStatements(t *testing.T) {
	harness.Check(t, "many-malformed", 4000, 150000, func(rt *rapid.T) {
		v := rapid.SampledFrom(px.KeyVersions).Draw(rt, "version")
		o := progs.StructuralOptions(v)
		o.NoHalt = true
		c := progs.Draw(rt, v, o, 1, 4)
		src := append([]byte{}, c.G.Render(c.Root, progs.Policy(rt, phpgen.PolicySpace, nil)).Src...)
		good := px.Parse(src, v, true)
		if len(good.Errs) > 0 || good.Root == nil {
			harness.Fail(rt, "valid-rejected", src, meta(v), "[%s] generated valid program rejected: %s\nsource: %q", v, px.ErrString(good.Errs), src)
		}
		lists := stmtLists(good.Root)
		li := 0
		if rapid.IntRange(0, 2).Draw(rt, "nested") == 0 {
			li = rapid.IntRange(0, len(lists)-1).Draw(rt, "list")
		}
		lr := lists[li]
		stmts, _, _ := follow(good.Root, lr.path)
		k := rapid.IntRange(0, len(stmts)).Draw(rt, "boundary")
		n := rapid.SampledFrom(unitCounts).Draw(rt, "units")
		pool := malformed
		if lr.where == "Root" && lr.depth == 0 {
			pool = append(append([]string{}, malformed...), malformedTop...)
		}
		var ms []string
		if rapid.Bool().Draw(rt, "same") {
			m := rapid.SampledFrom(pool).Draw(rt, "malformed")
			for i := 0; i < n; i++ {
				ms = append(ms, m)
			}
		} else {
			for i := 0; i < n; i++ {
				ms = append(ms, rapid.SampledFrom(pool).Draw(rt, "malformed"))
			}
		}
		res := checkMany(src, v, li, k, ms)
		if res.clause != "" {
			mt := map[string]string{"version": v.String(), "many": strings.Join(ms, "\x00"), "many_list": fmt.Sprint(li), "boundary": fmt.Sprint(k), "input_is": "clean source (the malformed statements are inserted by the replay)"}
			harness.Fail(rt, res.clause, src, mt, "%s", res.msg)
		}
		if res.skipped {
			if res.edited != nil {
				harness.Class("many: no-recovery(root nil)")
			}
			return
		}
		harness.Class(fmt.Sprintf("many: recovered, units=%d", n))
		if n >= 8 {
			harness.NonTrivial(res.edited, fmt.Sprintf("[%s %d units into %s at boundary %d] %q", v, n, lr.where, k, trunc(res.edited, 200)))
		}
	})
}
