package c07

import (
	"fmt"
	"os"
	"testing"

	"verif/astx"
	"verif/harness"
	"verif/inputs"
	"verif/px"
)

// FuzzRecovered is the native coverage-guided target of the thorough tier (bounded by the driver):
// the print clause — only tokens of the source, each at most once, in source order — on every tree
// that is returned together with errors. The saved input is the reproducible unit.
func FuzzRecovered(f *testing.F) {
	if os.Getenv("VERIF_FUZZ_EMPTY_CORPUS") == "" {
		for i, s := range inputs.Corpus() {
			if len(s) < 300 {
				f.Add([]byte(s), byte(i))
			}
		}
		for i, m := range malformed {
			f.Add([]byte("<?php $a = 1; "+m+" $b = 2; function f() { $c; "+m+" $d; }"), byte(i))
		}
		for i, d := range inputs.Dict {
			f.Add([]byte("<?php $a = 1; "+d+" ; $b = 2; if ($c) { "+d+" }"), byte(i))
		}
	} else {
		f.Add([]byte("<?php "), byte(0))
	}
	f.Fuzz(func(t *testing.T, data []byte, ver byte) {
		if len(data) > 1<<12 {
			return
		}
		// the fuzzing engine re-uses one buffer for every input; the harness identifies a buffer (and its
		// pristine copy) by address and length, so each iteration works on a copy of its own
		data = append([]byte{}, data...)
		v := px.AllVersions[int(ver)%len(px.AllVersions)]
		r := px.Parse(data, v, true)
		if r.Panic != "" || astx.IsNil(r.Root) || len(r.Errs) == 0 {
			return
		}
		harness.SetProperty("C07")
		if cl, msg := printClause(data, r.Root); cl != "" {
			m := fmt.Sprintf("[%s errors=%d] %s", v, len(r.Errs), msg)
			harness.Report("fuzz/"+cl, m, data, meta(v))
			t.Fatalf("%s", m)
		}
	})
}
