package c04

import (
	"bytes"
	"os"
	"testing"

	"verif/harness"
	"verif/inputs"
	"verif/px"
)

// FuzzTokens is the native coverage-guided target of the thorough tier (bounded by the driver).
// The oracle sits inside the target: every token clause of C04 on whatever tree comes back, and, for
// inputs parsed without errors, the byte-exact round trip of C02 (the two share the parse). Coverage
// guidance reaches scanner states that neither the grammar-based generator nor dictionary soup
// assembles. Go's fuzzer cannot be seeded reproducibly: the saved input (written as a replay file at
// once, because fuzz workers are separate processes) is the reproducible unit.
func FuzzTokens(f *testing.F) {
	if os.Getenv("VERIF_FUZZ_EMPTY_CORPUS") == "" {
		for i, s := range inputs.Corpus() {
			if len(s) < 400 {
				f.Add([]byte(s), byte(i))
			}
		}
		for i, d := range inputs.Dict {
			f.Add([]byte("<?php "+d+" $a;"), byte(i))
			f.Add([]byte("<?php echo \"x"+d+"\";\r\n"), byte(i))
			f.Add([]byte("<?php $x = <<<A\n"+d+"\nA;\n"), byte(i))
		}
	} else {
		f.Add([]byte("<?php "), byte(0))
	}
	f.Fuzz(func(t *testing.T, data []byte, ver byte) {
		if len(data) > 1<<13 {
			return
		}
		// the fuzzing engine re-uses one buffer for every input; the harness identifies a buffer (and its
		// pristine copy) by address and length, so each iteration works on a copy of its own
		data = append([]byte{}, data...)
		v := px.AllVersions[int(ver)%len(px.AllVersions)]
		harness.SetProperty("C04")
		if c, m := checkOne(data, v, "fuzz"); c != "" {
			harness.Report("fuzz/"+c, m, data, meta(v))
			t.Fatalf("%s", m)
		}
		r := px.Parse(data, v, true)
		if r.Panic == "" && r.Root != nil && len(r.Errs) == 0 {
			if out := px.Print(r.Root); !bytes.Equal(out, data) && !knownRoundTrip(data, v) {
				m := "[version " + v.String() + "] parsed without errors, but printing the tree does not reproduce the source"
				harness.Report("fuzz/roundtrip", m, data, meta(v))
				t.Fatalf("%s: %q -> %q", m, data, out)
			}
		}
	})
}

// knownRoundTrip: the open finding that also breaks the round trip (the closing label of an empty
// heredoc loses its first byte under >= 7.3).
func knownRoundTrip(src []byte, v px.Ver) bool {
	return v.Flexible() && harness.FindingOpen("empty-heredoc-73") && bytes.Contains(src, []byte("<<<"))
}
