// C04 — Tokens carry exact source text, offsets and lines, and tile the source.
package c04

import (
	"fmt"
	"os"
	"testing"

	"pgregory.net/rapid"

	"verif/astx"
	"verif/harness"
	"verif/inputs"
	"verif/oracle"
	"verif/phpgen"
	"verif/progs"
	"verif/px"
)

func TestMain(m *testing.M) { harness.Main(m, "C04") }

func meta(v px.Ver) map[string]string { return map[string]string{"version": v.String()} }

// checkOne parses src and evaluates the token clauses. Returns clause, message.
func checkOne(src []byte, v px.Ver, class string) (string, string) {
	r := px.Parse(src, v, true)
	if r.Panic != "" || r.Root == nil {
		return "", "" // C01/C06 territory
	}
	harness.Eval()
	errFree := len(r.Errs) == 0
	rep := oracle.CheckTokens(src, r.Root, errFree, v.Flexible())
	if rep.Clause != "" {
		return rep.Clause, fmt.Sprintf("[version %s, errors=%d] %s", v, len(r.Errs), rep.Msg)
	}
	for _, k := range rep.Known {
		if !harness.KnownSeen(k) {
			return "unlisted-" + k, fmt.Sprintf("[version %s] signature of finding %s met but it is not listed as open in known_findings.json", v, k)
		}
		harness.Excluded("tolerated:" + k)
	}
	if errFree {
		harness.Class("error-free")
	} else {
		harness.Class("with-errors")
	}
	if (rep.Lines >= 1 && rep.NonLF) || rep.Tokens > 1024 || rep.Multi {
		harness.NonTrivial(append([]byte(v.String()), src...), fmt.Sprintf("[%s %s tokens=%d lines=%d nonLF=%v multiline-token=%v] %q", v, class, rep.Tokens, rep.Lines+1, rep.NonLF, rep.Multi, trunc(src, 160)))
	}
	if rep.Tokens > 1024 {
		harness.Class("tokens>1024")
	}
	return "", ""
}

func trunc(b []byte, n int) []byte {
	if len(b) > n {
		return b[:n]
	}
	return b
}

func TestCorpusReplay(t *testing.T) {
	if harness.Shard() != 0 {
		t.Skip("shard 0 only")
	}
	for _, f := range harness.CorpusFiles("C04") {
		src, _ := os.ReadFile(f)
		for _, v := range px.KeyVersions {
			if c, m := checkOne(src, v, "corpus"); c != "" {
				harness.Failf(t, c, src, meta(v), "%s [corpus file %s]", m, f)
			}
		}
	}
}

// newlineVariants rewrites the LF terminators of s.
func newlineVariant(rt *rapid.T, s []byte) []byte {
	style := rapid.IntRange(0, 4).Draw(rt, "nlstyle")
	if style == 0 {
		return s
	}
	var out []byte
	for _, c := range s {
		if c != '\n' {
			out = append(out, c)
			continue
		}
		k := style
		if style == 4 {
			k = rapid.IntRange(1, 3).Draw(rt, "nl")
		}
		switch k {
		case 1:
			out = append(out, '\r', '\n')
		case 2:
			out = append(out, '\r')
		default:
			out = append(out, '\n')
		}
	}
	return out
}

func TestByteLevel(t *testing.T) {
	harness.Check(t, "byte-level", 120000, 3000000, func(rt *rapid.T) {
		src, class := inputs.Any(rt)
		src = newlineVariant(rt, src)
		v := rapid.SampledFrom(px.KeyVersions).Draw(rt, "version")
		harness.Class("src=" + class)
		if c, m := checkOne(src, v, class); c != "" {
			harness.Fail(rt, c, src, meta(v), "%s", m)
		}
	})
}

// TestLarge: repository test files concatenated so that more than two
// 1024-entry pool blocks of tokens and positions are used.
func TestLarge(t *testing.T) {
	harness.Check(t, "large", 60, 1500, func(rt *rapid.T) {
		n := rapid.IntRange(40, 160).Draw(rt, "n")
		var src []byte
		src = append(src, "<?php\n"...)
		for i := 0; i < n; i++ {
			s := inputs.Seed(rt)
			if len(s) > 400 || len(s) < 6 || string(s[:5]) != "<?php" {
				continue
			}
			src = append(src, s[5:]...)
			src = append(src, "\n?><?php\n"...)
		}
		src = newlineVariant(rt, src)
		v := rapid.SampledFrom([]px.Ver{px.V56, px.V74}).Draw(rt, "version")
		harness.Class("src=large")
		if c, m := checkOne(src, v, "large"); c != "" {
			harness.Fail(rt, c, src, meta(v), "%s", m)
		}
	})
}

func TestReplay(t *testing.T) {
	path := harness.ReplayPath()
	if path == "" {
		t.Skip("no VERIF_REPLAY")
	}
	vi, src, err := harness.LoadReplay(path)
	if err != nil {
		t.Fatal(err)
	}
	for _, v := range px.AllVersions {
		if vi.Meta["version"] != "" && vi.Meta["version"] != v.String() {
			continue
		}
		if c, m := checkOne(src, v, "replay"); c != "" {
			harness.Failf(t, c, src, meta(v), "%s", m)
			return
		}
	}
}

// TestGeneratedPrograms: generated programs under full trivia policies. The
// expected token sequence (ids, values, which trivia hangs on which token) and
// all offsets/lines come from the generator's own layout.
func TestGeneratedPrograms(t *testing.T) {
	harness.Check(t, "programs", 30000, 1000000, func(rt *rapid.T) {
		v := rapid.SampledFrom(px.KeyVersions).Draw(rt, "version")
		o := progs.Options(v)
		o.LeadHTML = progs.Padding(rt)
		c := progs.Draw(rt, v, o, 1, 4)
		excl := 0
		lay := c.G.Render(c.Root, progs.Policy(rt, phpgen.PolicyFull, &excl))
		src := lay.Src
		for i := 0; i < excl; i++ {
			harness.Excluded("lone-cr-newline")
		}
		r := px.Parse(src, v, true)
		if r.Panic != "" || r.Root == nil {
			harness.Fail(rt, "no-tree", src, meta(v), "[%s] generated program gave no tree: panic=%q", v, r.Panic)
		}
		if len(r.Errs) > 0 {
			harness.Fail(rt, "valid-rejected", src, meta(v), "[%s] generated valid program rejected: %s\nsource: %q", v, px.ErrString(r.Errs), src)
		}
		harness.Class("src=generated")
		if cl, m := checkOne(src, v, "generated"); cl != "" {
			harness.Fail(rt, cl, src, meta(v), "%s\nsource: %q", m, src)
		}
		if d := astx.Equal(r.Root, c.Root, astx.WithTokens|astx.WithPositions); d != "" {
			harness.Fail(rt, "model", src, meta(v), "[%s] tokens of the parsed tree differ from the generator's layout (parsed vs expected): %s\nsource: %q", v, d, src)
		}
		c.Report()
		for k := range lay.Classes {
			harness.Class("trivia:" + k)
		}
	})
}
