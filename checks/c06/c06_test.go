// C06 — Malformed input is always reported; a silent parse is a complete parse.
package c06

import (
	"bytes"
	"fmt"
	"os"
	"reflect"
	"regexp"
	"testing"

	"github.com/z7zmey/php-parser/pkg/ast"
	"github.com/z7zmey/php-parser/pkg/errors"
	"github.com/z7zmey/php-parser/pkg/token"
	"pgregory.net/rapid"

	"verif/astx"
	"verif/harness"
	"verif/inputs"
	"verif/oracle"
	"verif/phpgen"
	"verif/progs"
	"verif/px"
)

func TestMain(m *testing.M) { harness.Main(m, "C06") }

func meta(v px.Ver) map[string]string { return map[string]string{"version": v.String()} }

var semanticMsg = map[string]bool{
	"Key element cannot be a reference": true,
	"A trait cannot extend a class. Traits can only be composed from other traits with the 'use' keyword": true,
	"A trait cannot implement an interface": true,
}

var unexpectedRe = regexp.MustCompile(`unexpected ('.'|[A-Z_$a-z]+)`)

// errorShape checks one delivered error against the source.
func errorShape(src []byte, lm *oracle.Lines, e *errors.Error) string {
	if e == nil {
		return "nil error delivered to the callback"
	}
	if e.Msg == "" {
		return "error with an empty message"
	}
	p := e.Pos
	if p == nil {
		return ""
	}
	if p.StartPos < 0 || p.StartPos > p.EndPos || p.EndPos > len(src) {
		return fmt.Sprintf("error %q has offsets %d-%d outside 0..%d", e.Msg, p.StartPos, p.EndPos, len(src))
	}
	if p.StartLine != lm.Line(p.StartPos) {
		return fmt.Sprintf("error %q at offset %d has line %d, the offset is on line %d", e.Msg, p.StartPos, p.StartLine, lm.Line(p.StartPos))
	}
	if p.EndPos > p.StartPos && p.EndLine != lm.Line(p.EndPos-1) {
		return fmt.Sprintf("error %q at %d-%d has end line %d, its last byte is on line %d", e.Msg, p.StartPos, p.EndPos, p.EndLine, lm.Line(p.EndPos-1))
	}
	text := src[p.StartPos:p.EndPos]
	if m := unexpectedRe.FindStringSubmatch(e.Msg); m != nil && bytes.HasPrefix([]byte(e.Msg), []byte("syntax error")) {
		tok := m[1]
		switch {
		case len(tok) == 3 && tok[0] == '\'':
			c := tok[1]
			ok := len(text) == 1 && text[0] == c
			if c == ';' {
				ok = bytes.Contains(text, []byte(";")) || bytes.Contains(text, []byte("?>"))
			}
			if c == '"' || c == '`' {
				ok = bytes.Contains(text, []byte{c})
			}
			if !ok {
				return fmt.Sprintf("error %q selects the source text %q at %d-%d, not the character it names", e.Msg, text, p.StartPos, p.EndPos)
			}
		case tok == "T_VARIABLE":
			if len(text) < 2 || text[0] != '$' {
				return fmt.Sprintf("error %q selects %q at %d-%d, which is not a variable", e.Msg, text, p.StartPos, p.EndPos)
			}
		case tok == "T_STRING":
			if len(text) == 0 || !(text[0] == '_' || text[0] >= 0x80 || (text[0]|0x20 >= 'a' && text[0]|0x20 <= 'z')) {
				return fmt.Sprintf("error %q selects %q at %d-%d, which is not a name", e.Msg, text, p.StartPos, p.EndPos)
			}
		case tok == "T_LNUMBER" || tok == "T_DNUMBER":
			if len(text) == 0 || !((text[0] >= '0' && text[0] <= '9') || text[0] == '.') {
				return fmt.Sprintf("error %q selects %q at %d-%d, which is not a number", e.Msg, text, p.StartPos, p.EndPos)
			}
		case tok == "$end":
			return fmt.Sprintf("error %q (end of input) carries a position %d-%d", e.Msg, p.StartPos, p.EndPos)
		}
	}
	if bytes.HasPrefix([]byte(e.Msg), []byte("WARNING: Unexpected character")) {
		if p.EndPos-p.StartPos != 1 {
			return fmt.Sprintf("lexer warning %q selects %d bytes (%d-%d), expected exactly the offending byte", e.Msg, p.EndPos-p.StartPos, p.StartPos, p.EndPos)
		}
		want := fmt.Sprintf("(ASCII=%d)", text[0])
		if !bytes.Contains([]byte(e.Msg), []byte(want)) {
			return fmt.Sprintf("lexer warning %q selects byte %d at offset %d", e.Msg, text[0], p.StartPos)
		}
	}
	return ""
}

// checkAll evaluates the error-shape, silent-parse and callback-independence clauses.
func checkAll(src []byte, v px.Ver) (string, string) {
	r := px.Parse(src, v, true)
	if r.Panic != "" || r.Err != nil {
		return "", "" // C01
	}
	harness.Eval()
	lm := oracle.NewLines(src)
	prev := -1
	sawNil := false
	for i, e := range r.Errs {
		if m := errorShape(src, lm, e); m != "" {
			return "error-shape", fmt.Sprintf("[%s] error #%d: %s", v, i, m)
		}
		if e.Pos == nil {
			sawNil = true
			continue
		}
		if sawNil {
			return "error-order", fmt.Sprintf("[%s] error #%d %q at offset %d arrives after an end-of-input error", v, i, e.Msg, e.Pos.StartPos)
		}
		if e.Pos.StartPos < prev && v.IsPHP5() && semanticMsg[e.Msg] {
			// known finding: the PHP 5 grammar reports its own (semantic) errors when the
			// enclosing statement is reduced, i.e. after the errors of nested statements
			if harness.KnownSeen("php5-semantic-error-order") {
				harness.Excluded("tolerated:php5-semantic-error-order")
				continue
			}
		}
		if e.Pos.StartPos < prev {
			return "error-order", fmt.Sprintf("[%s] error #%d %q at offset %d arrives after an error at offset %d", v, i, e.Msg, e.Pos.StartPos, prev)
		}
		prev = e.Pos.StartPos
	}
	if len(r.Errs) == 0 {
		if astx.IsNil(r.Root) {
			return "silent-nil-root", fmt.Sprintf("[%s] no error was delivered but the returned tree is nil", v)
		}
		tr := oracle.CheckTokens(src, r.Root, true, v.Flexible())
		if tr.Clause == "tiling-gap" || tr.Clause == "tiling-end" {
			return "silent-incomplete", fmt.Sprintf("[%s] no error was delivered but the tree does not cover the input: %s", v, tr.Msg)
		}
		for _, k := range tr.Known {
			if harness.KnownSeen(k) {
				harness.Excluded("tolerated:" + k)
			}
		}
		if bad := internalNode(r.Root); bad != "" {
			return "silent-incomplete", fmt.Sprintf("[%s] no error was delivered but the tree contains a parser-internal node: %s", v, bad)
		}
	}
	// callback independence
	n := px.Parse(src, v, false)
	harness.Eval()
	if n.Panic != "" {
		return "", ""
	}
	if astx.IsNil(r.Root) != astx.IsNil(n.Root) {
		return "callback-dependence", fmt.Sprintf("[%s] with a callback the tree is nil=%v, without it nil=%v", v, astx.IsNil(r.Root), astx.IsNil(n.Root))
	}
	if !astx.IsNil(r.Root) {
		if bad := internalNode(n.Root); bad != "" && len(r.Errs) == 0 {
			return "callback-dependence", fmt.Sprintf("[%s] without a callback the tree contains a parser-internal node: %s", v, bad)
		}
		if d := astx.Equal(r.Root, n.Root, astx.WithTokens|astx.WithPositions); d != "" {
			return "callback-dependence", fmt.Sprintf("[%s] the tree differs when the callback is omitted (with vs without): %s", v, d)
		}
	}
	if len(r.Errs) > 0 {
		harness.NonTrivial(append([]byte(v.String()), src...), fmt.Sprintf("[%s errors=%d first=%q] %q", v, len(r.Errs), r.Errs[0].Msg, trunc(src, 200)))
	}
	return "", ""
}

// internalNode reports a node whose type is not one of the public ast kinds.
func internalNode(root ast.Vertex) string {
	bad := ""
	astx.Walk(root, func(n ast.Vertex, path string) bool {
		if astx.SchemaOf(n) == nil {
			bad = fmt.Sprintf("%s (%T)", path, n)
			return false
		}
		for _, c := range childrenRaw(n) {
			if astx.SchemaOf(c) == nil && !astx.IsNil(c) {
				bad = fmt.Sprintf("%s holds a %T", path, c)
				return false
			}
		}
		return bad == ""
	})
	return bad
}

func childrenRaw(n ast.Vertex) []ast.Vertex {
	var out []ast.Vertex
	for _, c := range astx.Children(n) {
		out = append(out, c.Child)
	}
	return out
}

func trunc(b []byte, n int) []byte {
	if len(b) > n {
		return b[:n]
	}
	return b
}

func TestCorpusReplay(t *testing.T) {
	if harness.Shard() != 0 {
		t.Skip("shard 0 only")
	}
	for _, dir := range []string{"C06", "C01"} {
		for _, f := range harness.CorpusFiles(dir) {
			src, _ := os.ReadFile(f)
			for _, v := range px.KeyVersions {
				if c, m := checkAll(src, v); c != "" {
					harness.Failf(t, c, src, meta(v), "%s [corpus file %s]", m, f)
				}
			}
		}
	}
}

func TestErrorShapeByteLevel(t *testing.T) {
	harness.Check(t, "byte-level", 60000, 1200000, func(rt *rapid.T) {
		src, class := inputs.Any(rt)
		v := rapid.SampledFrom(px.KeyVersions).Draw(rt, "version")
		harness.Class("src=" + class)
		if c, m := checkAll(src, v); c != "" {
			harness.Fail(rt, c, src, meta(v), "%s", m)
		}
	})
}

// stringTokens collects the tokens that lie inside string-like constructs.
func stringTokens(root ast.Vertex) map[*token.Token]bool {
	in := map[*token.Token]bool{}
	astx.Walk(root, func(n ast.Vertex, _ string) bool {
		switch n.(type) {
		case *ast.ScalarEncapsed, *ast.ScalarHeredoc, *ast.ExprShellExec:
			for _, t := range astx.Tokens(n) {
				in[t] = true
			}
			return false
		}
		return true
	})
	return in
}

func lastPositioned(toks []*token.Token) int {
	for i := len(toks) - 1; i >= 0; i-- {
		if toks[i].Position != nil {
			return i
		}
	}
	return -1
}

var brackets = map[byte]int{'(': 0, ')': 0, '[': 1, ']': 1, '{': 2, '}': 2}

// TestGuaranteedInvalidEdits: a valid generated program plus one edit that no
// PHP grammar can accept must produce at least one error.
func TestGuaranteedInvalidEdits(t *testing.T) {
	harness.Check(t, "invalid-edits", 24000, 480000, func(rt *rapid.T) {
		v := rapid.SampledFrom(px.KeyVersions).Draw(rt, "version")
		o := progs.StructuralOptions(v)
		o.NoHalt = true // after __halt_compiler(); everything is data
		o.LeadHTML = progs.Padding(rt)
		c := progs.Draw(rt, v, o, 1, 4)
		lay := c.G.Render(c.Root, progs.Policy(rt, phpgen.PolicySpace, nil))
		src := lay.Src
		if r := px.Parse(src, v, true); len(r.Errs) > 0 || r.Root == nil {
			harness.Fail(rt, "valid-rejected", src, meta(v), "[%s] generated valid program rejected: %s\nsource: %q", v, px.ErrString(r.Errs), src)
		}
		inStr := stringTokens(c.Root)
		toks := astx.Tokens(c.Root)
		// PHP-mode tokens outside string-like constructs
		var sites, insertSites []int // insertSites: where an insertion cannot change how a neighbouring token is lexed
		html := true
		for i, tk := range toks {
			if tk.Position == nil {
				continue
			}
			isHTML := tk.ID == token.T_INLINE_HTML
			// the gap right after a heredoc's closing label is not a free PHP-mode gap: before 7.3 the
			// label must be followed directly by ";" or a newline, so an edit there un-terminates the
			// heredoc and everything up to a later line with the same label becomes body text
			afterHeredocEnd := i > 0 && toks[i-1].ID == token.T_END_HEREDOC
			if !isHTML && !inStr[tk] && !(html && tk.ID == token.T_ECHO && string(tk.Value) == "<?=") {
				sites = append(sites, i)
				if !afterHeredocEnd {
					insertSites = append(insertSites, i)
				}
			}
			html = isHTML || (tk.ID == token.ID(';') && bytes.Contains(tk.Value, []byte("?>")))
			_ = html
		}
		if len(sites) == 0 || len(insertSites) == 0 {
			return
		}
		kind := rapid.SampledFrom([]string{"E1-insert-bracket", "E2-delete-bracket", "E3-truncate-open", "E4-control-byte", "E4-control-byte-at-end", "E5-delete-semicolon", "E6-nested-halt-compiler"}).Draw(rt, "edit")
		var edited []byte
		desc := ""
		switch kind {
		case "E1-insert-bracket":
			i := insertSites[rapid.IntRange(0, len(insertSites)-1).Draw(rt, "site")]
			b := rapid.SampledFrom([]string{"(", ")", "[", "]", "{", "}"}).Draw(rt, "bracket")
			at := toks[i].Position.StartPos
			edited = append(append(append([]byte{}, src[:at]...), []byte(" "+b+" ")...), src[at:]...)
			desc = fmt.Sprintf("inserted %q at offset %d", b, at)
		case "E2-delete-bracket":
			var bs []int
			for _, i := range sites {
				if len(toks[i].Value) == 1 {
					if _, ok := brackets[toks[i].Value[0]]; ok {
						bs = append(bs, i)
					}
				}
			}
			if len(bs) == 0 {
				return
			}
			i := bs[rapid.IntRange(0, len(bs)-1).Draw(rt, "site")]
			p := toks[i].Position
			edited = append(append(append([]byte{}, src[:p.StartPos]...), ' '), src[p.EndPos:]...)
			desc = fmt.Sprintf("deleted %q at offset %d", toks[i].Value, p.StartPos)
		case "E3-truncate-open":
			depth := 0
			var cuts []int
			for _, i := range sites {
				if depth > 0 {
					cuts = append(cuts, toks[i].Position.StartPos)
				}
				if len(toks[i].Value) == 1 {
					switch toks[i].Value[0] {
					case '(', '[', '{':
						depth++
					case ')', ']', '}':
						depth--
					}
				}
			}
			if len(cuts) == 0 {
				return
			}
			at := cuts[rapid.IntRange(0, len(cuts)-1).Draw(rt, "cut")]
			edited = append([]byte{}, src[:at]...)
			desc = fmt.Sprintf("truncated at offset %d inside an open bracket", at)
		case "E5-delete-semicolon":
			// a deleted mandatory token: the ";" between two expression statements where the first ends
			// in an operand (variable, number, constant string) and the second starts with one. Two
			// operands side by side with nothing between them are not an expression in any PHP grammar
			// (no juxtaposition operator), and nothing else can take two operands in a row
			operand := func(t *token.Token) bool {
				if t == nil || t.Position == nil {
					return false
				}
				switch t.ID {
				case token.T_VARIABLE, token.T_LNUMBER, token.T_DNUMBER, token.T_CONSTANT_ENCAPSED_STRING:
					return true
				}
				return false
			}
			var semis []*token.Token
			astx.Walk(c.Root, func(n ast.Vertex, _ string) bool {
				for _, ch := range astx.Children(n) {
					_ = ch
				}
				sc := astx.SchemaOf(n)
				if sc == nil {
					return true
				}
				rv := reflect.ValueOf(n).Elem()
				for _, f := range sc.Fields {
					if f.Class != astx.FChildList {
						continue
					}
					list := rv.Field(f.Index).Interface().([]ast.Vertex)
					for i := 0; i+1 < len(list); i++ {
						a, ok1 := list[i].(*ast.StmtExpression)
						b, ok2 := list[i+1].(*ast.StmtExpression)
						if !ok1 || !ok2 || a.SemiColonTkn == nil || string(a.SemiColonTkn.Value) != ";" || inStr[a.SemiColonTkn] {
							continue
						}
						at, bt := astx.Tokens(a.Expr), astx.Tokens(b)
						if len(at) == 0 || len(bt) == 0 || !operand(at[len(at)-1]) || !operand(bt[0]) || inStr[at[len(at)-1]] || inStr[bt[0]] {
							continue
						}
						semis = append(semis, a.SemiColonTkn)
					}
				}
				return true
			})
			if len(semis) == 0 {
				return
			}
			sc := semis[rapid.IntRange(0, len(semis)-1).Draw(rt, "semicolon")]
			p := sc.Position
			edited = append(append(append([]byte{}, src[:p.StartPos]...), ' '), src[p.EndPos:]...)
			desc = fmt.Sprintf("deleted the ';' at offset %d between two expression statements (operand next to operand)", p.StartPos)
		case "E6-nested-halt-compiler":
			// "__halt_compiler();" as the first statement of a braced statement list (block, function / method /
			// closure body, try / catch / finally, braced namespace). PHP's own grammar accepts the tokens there
			// only to reject them ("__HALT_COMPILER() can only be used from the outermost scope"), and the text
			// after it — the closing brace included — is never parsed: not a valid program under any reading.
			var opens []*token.Token
			astx.Walk(c.Root, func(n ast.Vertex, _ string) bool {
				switch b := n.(type) {
				case *ast.StmtStmtList:
					opens = append(opens, b.OpenCurlyBracketTkn)
				case *ast.StmtFunction:
					opens = append(opens, b.OpenCurlyBracketTkn)
				case *ast.ExprClosure:
					opens = append(opens, b.OpenCurlyBracketTkn)
				case *ast.StmtTry:
					opens = append(opens, b.OpenCurlyBracketTkn)
				case *ast.StmtCatch:
					opens = append(opens, b.OpenCurlyBracketTkn)
				case *ast.StmtFinally:
					opens = append(opens, b.OpenCurlyBracketTkn)
				case *ast.StmtNamespace:
					opens = append(opens, b.OpenCurlyBracketTkn)
				}
				return true
			})
			var cands []*token.Token
			for _, t := range opens {
				if t != nil && t.Position != nil && !inStr[t] {
					cands = append(cands, t)
				}
			}
			if len(cands) == 0 {
				return
			}
			t := cands[rapid.IntRange(0, len(cands)-1).Draw(rt, "block")]
			at := t.Position.EndPos
			hc := rapid.SampledFrom([]string{"__halt_compiler ( ) ;", "__HALT_COMPILER();", "__halt_compiler();"}).Draw(rt, "spelling")
			edited = append(append(append([]byte{}, src[:at]...), []byte(" "+hc+" ")...), src[at:]...)
			desc = fmt.Sprintf("inserted %q as the first statement of the braced statement list opened at offset %d", hc, t.Position.StartPos)
		case "E4-control-byte-at-end":
			// only when the file ends in PHP mode (not after a close tag / inline HTML / __halt_compiler data)
			last := toks[sites[len(sites)-1]]
			if sites[len(sites)-1] != lastPositioned(toks) || bytes.Contains(last.Value, []byte("?>")) {
				return
			}
			cb := rapid.SampledFrom([]byte{1, 2, 0x1a, 0x1b, 0x7f, 0}).Draw(rt, "byte")
			sep := rapid.SampledFrom([]string{"", " ", "\n"}).Draw(rt, "sep")
			edited = append(append(append([]byte{}, bytes.TrimRight(src, " \t\r\n")...), sep...), cb)
			desc = fmt.Sprintf("appended control byte 0x%02x as the last byte", cb)
		case "E4-control-byte":
			i := insertSites[rapid.IntRange(0, len(insertSites)-1).Draw(rt, "site")]
			cb := rapid.SampledFrom([]byte{1, 2, 3, 4, 5, 6, 7, 8, 0x0e, 0x0f, 0x10, 0x1b, 0x1f, 0x7f}).Draw(rt, "byte")
			at := toks[i].Position.StartPos
			edited = append(append(append([]byte{}, src[:at]...), ' ', cb, ' '), src[at:]...)
			desc = fmt.Sprintf("inserted control byte 0x%02x at offset %d", cb, at)
		}
		harness.Class(kind)
		r := px.Parse(edited, v, true)
		harness.Eval()
		if r.Panic != "" {
			return
		}
		if len(r.Errs) == 0 {
			harness.Fail(rt, "malformed-silent", edited, meta(v), "[%s] %s in a valid program, and no error is delivered\nedited: %q\noriginal: %q", v, desc, edited, src)
		}
		harness.NonTrivial(edited, fmt.Sprintf("[%s %s] %q", v, desc, trunc(edited, 200)))
		if cl, m := checkAll(edited, v); cl != "" {
			harness.Fail(rt, cl, edited, meta(v), "%s", m)
		}
	})
}

func TestReplay(t *testing.T) {
	path := harness.ReplayPath()
	if path == "" {
		t.Skip("no VERIF_REPLAY")
	}
	vi, src, err := harness.LoadReplay(path)
	if err != nil {
		t.Fatal(err)
	}
	for _, v := range px.AllVersions {
		if vi.Meta["version"] != "" && vi.Meta["version"] != v.String() {
			continue
		}
		if vi.Check == "invalid-edits/malformed-silent" {
			if r := px.Parse(src, v, true); len(r.Errs) == 0 {
				harness.Failf(t, vi.Check, src, meta(v), "[%s] malformed input, no error delivered", v)
				return
			}
		}
		if c, m := checkAll(src, v); c != "" {
			harness.Failf(t, c, src, meta(v), "%s", m)
			return
		}
	}
}

// TestSemanticErrorPrograms: programs that are syntactically well-formed but
// that the grammars reject with their own reports (by-reference foreach key,
// trait with extends/implements): errors must be delivered, shaped correctly,
// and the tree must not depend on the callback.
func TestSemanticErrorPrograms(t *testing.T) {
	harness.Check(t, "semantic-errors", 6000, 120000, func(rt *rapid.T) {
		v := rapid.SampledFrom(px.KeyVersions).Draw(rt, "version")
		subjects := []string{"$a", "$a->b", "[1, 2]", "array(1)", "f()", "$a + $b", "A::b()", "(array) $x", "new ArrayObject", "$a[0]", "clone $a", "\"s\"", "$a ?: $b"}
		values := []string{"$v", "&$v", "list($x, $y)", "$o->p", "$v[0]"}
		bodies := []string{"{}", ";", "echo 1;", ": endforeach;", "{ foreach ($q as &$kk => $vv) {} }", "{ $a = 1; }"}
		var b bytes.Buffer
		b.WriteString("<?php ")
		n := rapid.IntRange(1, 3).Draw(rt, "n")
		for i := 0; i < n; i++ {
			switch rapid.IntRange(0, 5).Draw(rt, "kind") {
			case 0, 1, 2:
				fmt.Fprintf(&b, "foreach (%s as &$k => %s) %s ", rapid.SampledFrom(subjects).Draw(rt, "subject"), rapid.SampledFrom(values).Draw(rt, "value"), rapid.SampledFrom(bodies).Draw(rt, "body"))
			case 3:
				fmt.Fprintf(&b, "trait T%d extends A { } ", i)
			case 4:
				fmt.Fprintf(&b, "trait T%d implements I, J { function f() {} } ", i)
			default:
				fmt.Fprintf(&b, "$x%d = %s; ", i, rapid.SampledFrom(subjects).Draw(rt, "subject"))
			}
		}
		src := b.Bytes()
		harness.Class("src=semantic-error-program")
		r := px.Parse(src, v, true)
		if bytes.Contains(src, []byte("as &$k")) || bytes.Contains(src, []byte("extends A")) || bytes.Contains(src, []byte("implements I")) {
			if r.Panic == "" && len(r.Errs) == 0 {
				harness.Fail(rt, "malformed-silent", src, meta(v), "[%s] a by-reference foreach key / trait with extends or implements is accepted silently: %q", v, src)
			}
		}
		if c, m := checkAll(src, v); c != "" {
			harness.Fail(rt, c, src, meta(v), "%s\nsource: %q", m, src)
		}
	})
}
