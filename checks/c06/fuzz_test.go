package c06

import (
	"os"
	"testing"

	"verif/harness"
	"verif/inputs"
	"verif/px"
)

// FuzzErrors is the native coverage-guided target of the thorough tier (bounded by the driver): the
// error-shape, error-order, silent-parse-is-complete and callback-independence clauses on whatever the
// fuzzer reaches. Coverage guidance finds its way into recovery paths and scanner states that the
// dictionary soup assembles only by luck. The saved input is the reproducible unit.
func FuzzErrors(f *testing.F) {
	if os.Getenv("VERIF_FUZZ_EMPTY_CORPUS") == "" {
		for i, s := range inputs.Corpus() {
			if len(s) < 300 {
				f.Add([]byte(s), byte(i))
			}
		}
		for i, d := range inputs.Dict {
			f.Add([]byte("<?php $a = 1; "+d+" ; $b = 2;"), byte(i))
			f.Add([]byte("<?php function f() { "+d+" }"), byte(i))
		}
	} else {
		f.Add([]byte("<?php "), byte(0))
	}
	f.Fuzz(func(t *testing.T, data []byte, ver byte) {
		if len(data) > 1<<12 {
			return
		}
		// the fuzzing engine re-uses one buffer for every input; the harness identifies a buffer (and its
		// pristine copy) by address and length, so each iteration works on a copy of its own
		data = append([]byte{}, data...)
		v := px.AllVersions[int(ver)%len(px.AllVersions)]
		harness.SetProperty("C06")
		if c, m := checkAll(data, v); c != "" {
			harness.Report("fuzz/"+c, m, data, meta(v))
			t.Fatalf("%s", m)
		}
	})
}
