// C13 — Printing, dumping, traversing and resolving never modify the tree.
package c13

import (
	"bytes"
	"fmt"
	"reflect"
	"sort"
	"strings"
	"testing"

	"github.com/z7zmey/php-parser/pkg/ast"
	"github.com/z7zmey/php-parser/pkg/token"
	"pgregory.net/rapid"

	"verif/astx"
	"verif/harness"
	"verif/inputs"
	"verif/phpgen"
	"verif/progs"
	"verif/px"
	"verif/recvis"
)

func TestMain(m *testing.M) { harness.Main(m, "C13") }

// resolvedString renders the resolver's result independent of map order and pointer values.
func resolvedString(root ast.Vertex, m map[ast.Vertex]string) string {
	idx := map[ast.Vertex]int{}
	for i, n := range astx.Nodes(root) {
		idx[n] = i
	}
	var out []string
	for n, s := range m {
		i, ok := idx[n]
		if !ok {
			out = append(out, fmt.Sprintf("(foreign %s)=%s", astx.KindName(n), s))
			continue
		}
		out = append(out, fmt.Sprintf("%06d %s=%s", i, astx.KindName(n), s))
	}
	sort.Strings(out)
	return strings.Join(out, "\n")
}

// capFingerprint adds what a content fingerprint cannot see: length and
// capacity of every list, token list and free-floating list (an append
// through a shared slice shows up here).
func capFingerprint(root ast.Vertex) string {
	var b strings.Builder
	astx.Walk(root, func(n ast.Vertex, _ string) bool {
		s := astx.SchemaOf(n)
		if s == nil {
			return true
		}
		rv := reflect.ValueOf(n).Elem()
		for _, f := range s.Fields {
			switch f.Class {
			case astx.FChildList, astx.FTokenList, astx.FValue:
				fv := rv.Field(f.Index)
				fmt.Fprintf(&b, "%d/%d,", fv.Len(), fv.Cap())
			case astx.FToken:
				if t := rv.Field(f.Index).Interface().(*token.Token); t != nil {
					fmt.Fprintf(&b, "%d/%d/%d,", len(t.FreeFloating), cap(t.FreeFloating), len(t.Value))
				}
			}
		}
		return true
	})
	return b.String()
}

type op struct {
	name string
	run  func(root ast.Vertex) string
}

var ops = []op{
	{"print", func(r ast.Vertex) string { return string(px.Print(r)) }},
	{"dump", func(r ast.Vertex) string { return string(px.Dump(r, false, false)) }},
	{"dump+tokens", func(r ast.Vertex) string { return string(px.Dump(r, true, false)) }},
	{"dump+positions", func(r ast.Vertex) string { return string(px.Dump(r, false, true)) }},
	{"dump+tokens+positions", func(r ast.Vertex) string { return string(px.Dump(r, true, true)) }},
	{"traverse", func(r ast.Vertex) string {
		rec := &recvis.Recorder{}
		px.Traverse(r, rec)
		return strings.Join(rec.Methods, ",")
	}},
	{"resolve", func(r ast.Vertex) string { return resolvedString(r, px.Resolve(r)) }},
	// the same observers applied to a sub-tree (the first / last top-level statement): a visitor
	// started below the root must not touch the rest of the tree either
	{"print-first-stmt", func(r ast.Vertex) string { return string(px.Print(stmtOf(r, 0))) }},
	{"print-last-stmt", func(r ast.Vertex) string { return string(px.Print(stmtOf(r, -1))) }},
	{"dump-last-stmt+tokens+positions", func(r ast.Vertex) string { return string(px.Dump(stmtOf(r, -1), true, true)) }},
	{"resolve-last-stmt", func(r ast.Vertex) string { n := stmtOf(r, -1); return resolvedString(n, px.Resolve(n)) }},
}

// stmtOf returns the i-th top-level statement (negative: from the end), or the root itself.
func stmtOf(r ast.Vertex, i int) ast.Vertex {
	root, ok := r.(*ast.Root)
	if !ok || len(root.Stmts) == 0 {
		return r
	}
	if i < 0 {
		i += len(root.Stmts)
	}
	return root.Stmts[i]
}

func opByName(name string) *op {
	for i := range ops {
		if ops[i].name == name {
			return &ops[i]
		}
	}
	return nil
}

func runHistory(rt *rapid.T, src []byte, v px.Ver, class string) {
	keep := append([]byte{}, src...)
	first := px.Parse(src, v, true)
	if first.Panic != "" || astx.IsNil(first.Root) {
		return
	}
	tree := first.Root
	freshFP := astx.Fingerprint(tree)
	freshCap := capFingerprint(tree)
	// reference outputs, each from its own fresh parse of a private copy of the source
	ref := map[string]string{}
	for _, o := range ops {
		f := px.Parse(append([]byte{}, keep...), v, true)
		var out string
		if p := px.Guard(func() { out = o.run(f.Root) }); p != "" {
			return // a panicking observer on a fresh tree is not this property's business
		}
		ref[o.name] = out
	}
	n := rapid.IntRange(1, 16).Draw(rt, "steps")
	hist := ""
	used := map[string]int{}
	for i := 0; i < n; i++ {
		o := ops[rapid.IntRange(0, len(ops)-1).Draw(rt, "op")]
		hist += " " + o.name
		used[o.name]++
		var out string
		if p := px.Guard(func() { out = o.run(tree) }); p != "" {
			harness.Fail(rt, "observer-panic", keep, map[string]string{"version": v.String(), "history": hist}, "[%s] after history%s: %s panicked: %s", v, hist, o.name, p)
		}
		harness.Eval()
		mt := map[string]string{"version": v.String(), "history": hist}
		if out != ref[o.name] {
			harness.Fail(rt, "output-changed", keep, mt, "[%s] after history%s the output of %s differs from its output on a freshly parsed tree\nsource: %q", v, hist, o.name, trunc(keep, 300))
		}
		if fp := astx.Fingerprint(tree); fp != freshFP {
			harness.Fail(rt, "tree-modified", keep, mt, "[%s] history%s modified the tree (first differing line: %s)\nsource: %q", v, hist, firstDiffLine(freshFP, fp), trunc(src, 300))
		}
		if cf := capFingerprint(tree); cf != freshCap {
			harness.Fail(rt, "slice-modified", keep, mt, "[%s] history%s changed the length or capacity of a list in the tree\nsource: %q", v, hist, trunc(src, 300))
		}
		if !bytes.Equal(src, keep) {
			harness.Fail(rt, "source-modified", keep, mt, "[%s] history%s wrote into the source buffer (token values alias it): now %q", v, hist, trunc(src, 300))
		}
	}
	rep := false
	for _, c := range used {
		if c > 1 {
			rep = true
		}
	}
	if len(used) >= 3 && rep {
		harness.NonTrivial(append([]byte(hist), src...), fmt.Sprintf("[%s %s]%s on %q", v, class, hist, trunc(src, 160)))
	}
	harness.Class("src=" + class)
}

func firstDiffLine(a, b string) string {
	la, lb := strings.Split(a, "\n"), strings.Split(b, "\n")
	for i := 0; i < len(la) && i < len(lb); i++ {
		if la[i] != lb[i] {
			return fmt.Sprintf("line %d: %q vs %q", i, strings.TrimSpace(la[i]), strings.TrimSpace(lb[i]))
		}
	}
	return fmt.Sprintf("length %d vs %d lines", len(la), len(lb))
}

func trunc(b []byte, n int) []byte {
	if len(b) > n {
		return b[:n]
	}
	return b
}

func TestHistoriesGenerated(t *testing.T) {
	harness.Check(t, "histories-generated", 4000, 100000, func(rt *rapid.T) {
		v := rapid.SampledFrom(px.KeyVersions).Draw(rt, "version")
		c := progs.Draw(rt, v, progs.StructuralOptions(v), 1, 4)
		pol := progs.Policy(rt, phpgen.PolicyFull, nil)
		pol.Shebang = rapid.IntRange(0, 3).Draw(rt, "shebang") == 0
		lay := c.G.Render(c.Root, pol)
		runHistory(rt, lay.Src, v, "generated")
		c.Report()
	})
}

// namespaceHeavy programs give the resolver real work: names written with
// spaces around separators, group use, aliases.
var nsPieces = []string{
	"namespace Vendor \\ Pkg;", "namespace A\\B;", "use Foo\\{Bar, Baz as Qux};", "use function Foo \\ {a, b as c};", "use X\\Y as Z, P\\Q;", "use const K\\L;",
	"class C extends Bar implements Qux, Z { use T1, T2 { T1::f insteadof T2; g as protected h; } function m(Bar $a, ?Z $b): Qux { return new Baz; } }",
	"function f(Qux ...$x) { try { a(); c(); } catch (Bar | \\E $e) { echo L; } return Z::k; }", "$x = new Bar; $y instanceof Z; Qux::$p; namespace\\g();",
	"interface I extends Bar, Z {}", "trait TT { public ?Bar $p; }", "$f = fn(Bar $a): Z => a($a);", "$g = function (Qux $q) use ($x): Bar {};", "const D = 1; echo D, \\D, namespace\\D;",
	"namespace N { use A \\ B \\ {C}; new C; }", "namespace { new C; }",
}

func TestHistoriesNamespaces(t *testing.T) {
	harness.Check(t, "histories-namespaces", 3000, 70000, func(rt *rapid.T) {
		v := rapid.SampledFrom([]px.Ver{px.V74, px.V74, {7, 2}, px.V56}).Draw(rt, "version")
		var b strings.Builder
		b.WriteString("<?php ")
		n := rapid.IntRange(1, 6).Draw(rt, "n")
		for i := 0; i < n; i++ {
			b.WriteString(rapid.SampledFrom(nsPieces).Draw(rt, "piece"))
			b.WriteString(rapid.SampledFrom([]string{" ", "\n", " /*c*/ "}).Draw(rt, "gap"))
		}
		runHistory(rt, []byte(b.String()), v, "namespace-program")
	})
}

func TestHistoriesByteLevel(t *testing.T) {
	harness.Check(t, "histories-byte-level", 4000, 100000, func(rt *rapid.T) {
		src, class := inputs.Any(rt)
		v := rapid.SampledFrom(px.KeyVersions).Draw(rt, "version")
		runHistory(rt, src, v, class)
	})
}

// TestHistoriesLongLexemes: valid programs whose tokens carry very long values
// (an observer that abbreviates, copies or re-slices a long value is where an
// in-place write into the shared source buffer would come from).
func TestHistoriesLongLexemes(t *testing.T) {
	harness.Check(t, "histories-long-lexemes", 1500, 40000, func(rt *rapid.T) {
		src := inputs.LongLexemes(rt)
		v := rapid.SampledFrom(px.KeyVersions).Draw(rt, "version")
		if r := px.Parse(append([]byte{}, src...), v, true); len(r.Errs) > 0 || r.Panic != "" {
			harness.Fail(rt, "valid-rejected", src, map[string]string{"version": v.String()}, "[%s] long-lexeme program rejected: %s%s", v, px.ErrString(r.Errs), r.Panic)
		}
		runHistory(rt, src, v, "long-lexemes")
	})
}

// TestTreesAreIndependent: two parses share no node or token object, so that
// modifying one tree (here: formatting it) cannot change another.
func TestTreesAreIndependent(t *testing.T) {
	harness.Check(t, "independent-trees", 4000, 100000, func(rt *rapid.T) {
		v := rapid.SampledFrom(px.KeyVersions).Draw(rt, "version")
		c := progs.Draw(rt, v, progs.StructuralOptions(v), 1, 4)
		src := c.G.Render(c.Root, progs.Policy(rt, phpgen.PolicySpace, nil)).Src
		a := px.Parse(src, v, true)
		b := px.Parse(append([]byte{}, src...), v, true)
		harness.Eval()
		if astx.IsNil(a.Root) || astx.IsNil(b.Root) {
			return
		}
		seen := map[interface{}]string{}
		astx.Walk(a.Root, func(n ast.Vertex, path string) bool {
			seen[n] = path
			return true
		})
		for _, tk := range astx.FlatTokens(a.Root) {
			seen[tk] = "token " + astx.TokString(tk)
		}
		shared := ""
		astx.Walk(b.Root, func(n ast.Vertex, path string) bool {
			if p, ok := seen[n]; ok {
				shared = fmt.Sprintf("node object %s of the second parse is %s of the first", path, p)
				return false
			}
			return true
		})
		for _, tk := range astx.FlatTokens(b.Root) {
			if p, ok := seen[tk]; ok && shared == "" {
				shared = "token object shared between two parses: " + p
			}
		}
		if shared != "" {
			harness.Fail(rt, "shared-object", src, map[string]string{"version": v.String()}, "[%s] two parses share an object, so operations on one tree can affect the other: %s\nsource: %q", v, shared, src)
		}
		harness.Class("src=generated-pair")
	})
}

// TestReplay re-executes a recorded history: the replay file holds the source, the version and the
// operation names (meta.history); the oracle is the same as in the generated runs.
func TestReplay(t *testing.T) {
	path := harness.ReplayPath()
	if path == "" {
		t.Skip("no VERIF_REPLAY")
	}
	vi, src, err := harness.LoadReplay(path)
	if err != nil {
		t.Fatal(err)
	}
	var v px.Ver
	fmt.Sscanf(vi.Meta["version"], "%d.%d", &v.Major, &v.Minor)
	names := strings.Fields(vi.Meta["history"])
	if len(names) == 0 {
		names = []string{"print", "dump+tokens+positions", "traverse", "resolve", "print"}
	}
	if clause, msg := execHistory(src, v, names); clause != "" {
		harness.Failf(t, clause, src, vi.Meta, "%s", msg)
	}
}

// execHistory applies the named operations to one parsed tree and checks every clause after each
// step (plain function: no rapid, used by the replay).
func execHistory(src []byte, v px.Ver, names []string) (string, string) {
	keep := append([]byte{}, src...)
	first := px.Parse(src, v, true)
	if first.Panic != "" || astx.IsNil(first.Root) {
		return "", ""
	}
	tree := first.Root
	freshFP, freshCap := astx.Fingerprint(tree), capFingerprint(tree)
	hist := ""
	for _, nm := range names {
		o := opByName(nm)
		if o == nil {
			continue
		}
		f := px.Parse(append([]byte{}, keep...), v, true)
		var want, out string
		if p := px.Guard(func() { want = o.run(f.Root) }); p != "" {
			return "", ""
		}
		hist += " " + nm
		if p := px.Guard(func() { out = o.run(tree) }); p != "" {
			return "observer-panic", fmt.Sprintf("[%s] after history%s: %s panicked: %s", v, hist, nm, p)
		}
		harness.Eval()
		switch {
		case out != want:
			return "output-changed", fmt.Sprintf("[%s] after history%s the output of %s differs from its output on a freshly parsed tree", v, hist, nm)
		case astx.Fingerprint(tree) != freshFP:
			return "tree-modified", fmt.Sprintf("[%s] history%s modified the tree (first differing line: %s)", v, hist, firstDiffLine(freshFP, astx.Fingerprint(tree)))
		case capFingerprint(tree) != freshCap:
			return "slice-modified", fmt.Sprintf("[%s] history%s changed the length or capacity of a list in the tree", v, hist)
		case !bytes.Equal(src, keep):
			return "source-modified", fmt.Sprintf("[%s] history%s wrote into the source buffer: now %q", v, hist, trunc(src, 300))
		}
	}
	return "", ""
}
