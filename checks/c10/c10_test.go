// C10 — PHP 5 and PHP 7 grammars agree on the syntax they share.
package c10

import (
	"fmt"
	"os"
	"testing"

	"pgregory.net/rapid"

	"verif/astx"
	"verif/harness"
	"verif/phpgen"
	"verif/progs"
	"verif/px"
)

func TestMain(m *testing.M) { harness.Main(m, "C10") }

var pairs = [][2]px.Ver{{px.V56, px.V74}, {{5, 0}, {7, 0}}, {{5, 3}, {7, 2}}, {px.V56, {7, 3}}}

func meta(a, b px.Ver) map[string]string {
	return map[string]string{"version5": a.String(), "version7": b.String()}
}

// compare parses src under both versions. ok=false when src is outside the
// domain (not error-free under both); for generated common programs the
// caller treats that as a violation.
func compare(src []byte, a, b px.Ver) (clause, msg string, ok bool) {
	ra, rb := px.Parse(src, a, true), px.Parse(src, b, true)
	harness.EvalN(2)
	if ra.Panic != "" || rb.Panic != "" {
		return "panic", fmt.Sprintf("panic: %s %s", ra.Panic, rb.Panic), true
	}
	if len(ra.Errs) > 0 || len(rb.Errs) > 0 || ra.Root == nil || rb.Root == nil {
		return "rejected", fmt.Sprintf("[%s] %s[%s] %s", a, px.ErrString(ra.Errs), b, px.ErrString(rb.Errs)), false
	}
	if d := astx.Equal(ra.Root, rb.Root, astx.Structure); d != "" {
		return "structure", fmt.Sprintf("trees differ in structure (%s vs %s): %s", a, b, d), true
	}
	if d := astx.Equal(ra.Root, rb.Root, astx.WithTokens); d != "" {
		return "tokens", fmt.Sprintf("trees differ in tokens / free-floating content (%s vs %s): %s", a, b, d), true
	}
	if d := astx.Equal(ra.Root, rb.Root, astx.WithTokens|astx.WithPositions); d != "" {
		return "positions", fmt.Sprintf("trees differ in positions (%s vs %s): %s", a, b, d), true
	}
	return "", "", true
}

func commonOptions() phpgen.Options {
	o := progs.Options(px.V56)
	o.Common = true
	o.Flexible = false
	// shapes behind the PHP 5-only span findings differ between the grammars for that reason alone
	o.NoPHP5Goto = true
	o.NoPHP5NewChain = true
	return o
}

func TestCommonPrograms(t *testing.T) {
	harness.Check(t, "common", 25000, 800000, func(rt *rapid.T) {
		p := rapid.SampledFrom(pairs).Draw(rt, "pair")
		c := progs.Draw(rt, p[0], commonOptions(), 1, 5)
		kind := rapid.SampledFrom([]phpgen.PolicyKind{phpgen.PolicyMinimal, phpgen.PolicySpace, phpgen.PolicyWhitespace, phpgen.PolicyFull, phpgen.PolicyFull}).Draw(rt, "policy")
		lay := c.G.Render(c.Root, progs.Policy(rt, kind, nil))
		src := lay.Src
		cl, m, ok := compare(src, p[0], p[1])
		if !ok {
			harness.Fail(rt, "common-rejected", src, meta(p[0], p[1]), "a program of the common PHP 5 / PHP 7 subset is rejected: %s\nsource: %q", m, src)
		}
		if cl != "" {
			harness.Fail(rt, cl, src, meta(p[0], p[1]), "%s\nsource: %q", m, src)
		}
		c.Report()
		kinds := 0
		for k := range c.G.Feat {
			if len(k) > 5 && k[:5] == "stmt:" {
				kinds++
			}
		}
		if kinds >= 3 && (c.G.Feat["prop-fetch"]+c.G.Feat["method-call"]+c.G.Feat["dim-fetch"] > 0 || c.G.Feat["string-double-interpolated"]+c.G.Feat["heredoc"] > 0) {
			harness.NonTrivial(src, fmt.Sprintf("[%s|%s] %q", p[0], p[1], trunc(src, 300)))
		}
	})
}

func trunc(b []byte, n int) []byte {
	if len(b) > n {
		return b[:n]
	}
	return b
}

func TestCorpusReplay(t *testing.T) {
	if harness.Shard() != 0 {
		t.Skip("shard 0 only")
	}
	for _, f := range harness.CorpusFiles("C10") {
		src, _ := os.ReadFile(f)
		for _, p := range pairs {
			if c, m, ok := compare(src, p[0], p[1]); ok && c != "" {
				harness.Failf(t, c, src, meta(p[0], p[1]), "%s [corpus file %s]", m, f)
			}
		}
	}
}

func TestReplay(t *testing.T) {
	path := harness.ReplayPath()
	if path == "" {
		t.Skip("no VERIF_REPLAY")
	}
	_, src, err := harness.LoadReplay(path)
	if err != nil {
		t.Fatal(err)
	}
	for _, p := range pairs {
		if c, m, _ := compare(src, p[0], p[1]); c != "" {
			harness.Failf(t, c, src, meta(p[0], p[1]), "%s", m)
			return
		}
	}
}

// TestOperatorNests: the exhaustive operator-nest enumeration (phpgen/opnest.go) restricted to the
// operators PHP 5.6 and PHP 7 share: every operator inside every operand position of every other one
// (and the fusion-family triples; all triples in the thorough tier), rendered with only the mandatory
// separators and with single spaces, must give identical trees, tokens and positions under 5.6 and 7.4.
func TestOperatorNests(t *testing.T) {
	failed := false
	progs.EachNest(px.V56, true, func(name string, build func() *progs.NestProgram) bool {
		for _, kind := range []phpgen.PolicyKind{phpgen.PolicyMinimal, phpgen.PolicySpace} {
			np := build()
			if np == nil {
				return true
			}
			src := append([]byte{}, np.G.Render(np.Root, phpgen.Policy{Kind: kind}).Src...)
			harness.Class("operator-nest")
			harness.EvalN(2)
			cl, m, ok := compare(src, px.V56, px.V74)
			if !ok {
				harness.Failf(t, "operator-nests/common-rejected", src, meta(px.V56, px.V74), "%s: an expression of the common subset is rejected: %s\nsource: %q", name, m, src)
				failed = true
				return false
			}
			if cl != "" {
				harness.Failf(t, "operator-nests/"+cl, src, meta(px.V56, px.V74), "%s: %s\nsource: %q", name, m, src)
				failed = true
				return false
			}
			harness.NonTrivial([]byte(name+fmt.Sprint(kind)), fmt.Sprintf("[5.6|7.4] %s: %q", name, src))
		}
		return true
	})
	_ = failed
}
