// C05 — Node positions span exactly the node's own tokens and nest properly.
package c05

import (
	"fmt"
	"os"
	"testing"

	"pgregory.net/rapid"

	"verif/harness"
	"verif/inputs"
	"verif/oracle"
	"verif/phpgen"
	"verif/progs"
	"verif/px"
)

func TestMain(m *testing.M) { harness.Main(m, "C05") }

func meta(v px.Ver) map[string]string { return map[string]string{"version": v.String()} }

// checkOne evaluates the position clauses on an error-free parse of src.
// It returns "", "" when the input is not error-free (outside the property's domain).
func checkOne(src []byte, v px.Ver) (string, string, bool) {
	r := px.Parse(src, v, true)
	if r.Panic != "" || r.Root == nil || len(r.Errs) > 0 {
		return "", "", false
	}
	harness.Eval()
	rep := oracle.CheckPositions(r.Root, v.IsPHP5(), src)
	if rep.Clause != "" {
		return rep.Clause, fmt.Sprintf("[version %s] %s", v, rep.Msg), true
	}
	for _, k := range rep.Known {
		if !harness.KnownSeen(k) {
			return "unlisted-" + k, fmt.Sprintf("[version %s] signature of finding %s met but it is not listed as open in known_findings.json", v, k), true
		}
		harness.Excluded("tolerated:" + k)
	}
	fam := "7"
	if v.IsPHP5() {
		fam = "5"
	}
	for s := range rep.Sites {
		harness.Distinct("(kind < parent kind.slot, family) sites", s+"/"+fam)
		harness.NonTrivial([]byte(s+"/"+fam), "")
	}
	harness.ClassN("nodes", rep.Nodes)
	return "", "", true
}

func TestCorpusReplay(t *testing.T) {
	if harness.Shard() != 0 {
		t.Skip("shard 0 only")
	}
	for _, f := range harness.CorpusFiles("C05") {
		src, _ := os.ReadFile(f)
		for _, v := range px.KeyVersions {
			if c, m, _ := checkOne(src, v); c != "" {
				harness.Failf(t, c, src, meta(v), "%s [corpus file %s]", m, f)
			}
		}
	}
}

func TestGeneratedPrograms(t *testing.T) {
	harness.Check(t, "programs", 30000, 1000000, func(rt *rapid.T) {
		v := rapid.SampledFrom(px.KeyVersions).Draw(rt, "version")
		o := progs.Options(v)
		o.LeadHTML = progs.Padding(rt)
		c := progs.Draw(rt, v, o, 1, 4)
		kind := rapid.SampledFrom([]phpgen.PolicyKind{phpgen.PolicyMinimal, phpgen.PolicySpace, phpgen.PolicyWhitespace, phpgen.PolicyFull, phpgen.PolicyFull}).Draw(rt, "policy")
		excl := 0
		lay := c.G.Render(c.Root, progs.Policy(rt, kind, &excl))
		src := lay.Src
		harness.Class("src=generated")
		cl, m, ok := checkOne(src, v)
		if !ok {
			harness.Fail(rt, "valid-rejected", src, meta(v), "[%s] generated valid program did not parse without errors\nsource: %q", v, src)
		}
		if cl != "" {
			harness.Fail(rt, cl, src, meta(v), "%s\nsource: %q", m, src)
		}
		c.Report()
		harness.NonTrivial(src, fmt.Sprintf("[%s] %q", v, trunc(src, 300)))
	})
}

// TestLargePrograms: more than two 1024-entry pool blocks of positions and tokens in one parse.
func TestLargePrograms(t *testing.T) {
	harness.Check(t, "large", 120, 5000, func(rt *rapid.T) {
		v := rapid.SampledFrom([]px.Ver{px.V56, px.V74}).Draw(rt, "version")
		o := progs.Options(v)
		o.NoHalt = true
		c := progs.Draw(rt, v, o, 120, 200)
		lay := c.G.Render(c.Root, progs.Policy(rt, phpgen.PolicyFull, nil))
		src := lay.Src
		harness.Class("src=large")
		cl, m, ok := checkOne(src, v)
		if !ok {
			harness.Fail(rt, "valid-rejected", src, meta(v), "[%s] generated valid large program did not parse without errors", v)
		}
		if cl != "" {
			harness.Fail(rt, cl, src, meta(v), "%s", m)
		}
		if lay.Tokens > 2500 {
			harness.Class("tokens>2500")
		}
	})
}

func trunc(b []byte, n int) []byte {
	if len(b) > n {
		return b[:n]
	}
	return b
}

func TestByteLevel(t *testing.T) {
	harness.Check(t, "byte-level", 60000, 2000000, func(rt *rapid.T) {
		src, class := inputs.Any(rt)
		v := rapid.SampledFrom(px.KeyVersions).Draw(rt, "version")
		cl, m, ok := checkOne(src, v)
		if !ok {
			harness.Class("rejected-input(not in domain)")
			return
		}
		harness.Class("src=" + class)
		if cl != "" {
			harness.Fail(rt, cl, src, meta(v), "%s", m)
		}
	})
}

func TestReplay(t *testing.T) {
	path := harness.ReplayPath()
	if path == "" {
		t.Skip("no VERIF_REPLAY")
	}
	vi, src, err := harness.LoadReplay(path)
	if err != nil {
		t.Fatal(err)
	}
	for _, v := range px.AllVersions {
		if vi.Meta["version"] != "" && vi.Meta["version"] != v.String() {
			continue
		}
		if c, m, _ := checkOne(src, v); c != "" {
			harness.Failf(t, c, src, meta(v), "%s", m)
			return
		}
	}
}
