// C17 — Formatting preserves the program, is canonical and idempotent.
package c17

import (
	"bytes"
	"fmt"
	"os"
	"path/filepath"
	"testing"

	"pgregory.net/rapid"

	"verif/astx"
	"verif/harness"
	"verif/phpgen"
	"verif/progs"
	"verif/px"
)

func TestMain(m *testing.M) { harness.Main(m, "C17") }

func meta(v px.Ver) map[string]string { return map[string]string{"version": v.String()} }

// format = print(format(parse(src))). ok=false when src does not parse cleanly.
func format(src []byte, v px.Ver) (out []byte, panicMsg string, ok bool) {
	r := px.Parse(src, v, true)
	if r.Panic != "" || len(r.Errs) > 0 || astx.IsNil(r.Root) {
		return nil, "", false
	}
	if p := px.Guard(func() {
		px.Format(r.Root)
		out = px.Print(r.Root)
	}); p != "" {
		return nil, p, true
	}
	return out, "", true
}

// checkOne evaluates clauses 1, 2 and 4 on one source.
func checkOne(src []byte, v px.Ver) (string, string, []byte) {
	orig := px.Parse(src, v, true)
	if orig.Panic != "" || len(orig.Errs) > 0 || astx.IsNil(orig.Root) {
		return "", "", nil
	}
	harness.Eval()
	f1, pm, _ := format(src, v)
	if pm != "" {
		return "formatter-panic", fmt.Sprintf("[%s] the formatter panicked: %s", v, pm), nil
	}
	re := px.Parse(f1, v, true)
	if re.Panic != "" || len(re.Errs) > 0 || astx.IsNil(re.Root) {
		return "formatted-rejected", fmt.Sprintf("[%s] the formatted text does not parse: %s%s\nformatted: %q", v, re.Panic, px.ErrString(re.Errs), f1), f1
	}
	if d := astx.Equal(re.Root, orig.Root, astx.Structure); d != "" {
		return "structure-changed", fmt.Sprintf("[%s] formatting changed the program (reparsed formatted text vs original): %s\nformatted: %q", v, d, f1), f1
	}
	f2, pm, ok := format(f1, v)
	if pm != "" {
		return "formatter-panic", fmt.Sprintf("[%s] the formatter panicked on its own output: %s\nformatted: %q", v, pm, f1), f1
	}
	if ok && !bytes.Equal(f1, f2) {
		return "not-idempotent", fmt.Sprintf("[%s] formatting formatted code changes it again:\nonce:  %q\ntwice: %q", v, f1, f2), f1
	}
	return "", "", f1
}

func options(v px.Ver) phpgen.Options {
	o := progs.Options(v)
	for name, set := range switches {
		if harness.FindingOpen(name) {
			set(&o)
		}
	}
	return o
}

// switches maps an open formatter finding to the generator option that keeps its trigger out.
var switches = map[string]func(*phpgen.Options){
	"formatter-brace-close-tag": func(o *phpgen.Options) { o.NoAltCloseTag = true },
	"formatter-dangling-else":   func(o *phpgen.Options) { o.BraceAltIfBeforeElse = true },
}

func TestGeneratedPrograms(t *testing.T) {
	harness.Check(t, "programs", 12000, 400000, func(rt *rapid.T) {
		v := rapid.SampledFrom([]px.Ver{px.V74, px.V74, px.V56}).Draw(rt, "version")
		c := progs.Draw(rt, v, options(v), 1, 4)
		a := c.G.Render(c.Root, progs.Policy(rt, phpgen.PolicySpace, nil)).Src
		srcA := append([]byte{}, a...)
		cl, m, fa := checkOne(srcA, v)
		if cl != "" {
			harness.Fail(rt, cl, srcA, meta(v), "%s\nsource: %q", m, srcA)
		}
		// canonical: a whitespace-only re-layout of the same program formats identically
		b := c.G.Render(c.Root, progs.Policy(rt, phpgen.PolicyWhitespace, nil)).Src
		srcB := append([]byte{}, b...)
		fb, pm, ok := format(srcB, v)
		harness.Eval()
		if pm != "" {
			harness.Fail(rt, "formatter-panic", srcB, meta(v), "[%s] the formatter panicked: %s\nsource: %q", v, pm, srcB)
		}
		if !ok {
			harness.Fail(rt, "valid-rejected", srcB, meta(v), "[%s] whitespace variant of a valid program rejected\nsource: %q", v, srcB)
		}
		if fa != nil && !bytes.Equal(fa, fb) {
			harness.Fail(rt, "not-canonical", srcB, meta(v), "[%s] two sources that differ only in whitespace format differently:\nA: %q\n-> %q\nB: %q\n-> %q", v, srcA, fa, srcB, fb)
		}
		// comments are free-floating content the formatter may drop, but the program must survive
		cm := c.G.Render(c.Root, progs.Policy(rt, phpgen.PolicyFull, nil)).Src
		srcC := append([]byte{}, cm...)
		if cl, m, _ := checkOne(srcC, v); cl != "" {
			harness.Fail(rt, cl, srcC, meta(v), "%s\nsource: %q", m, srcC)
		}
		c.Report()
		harness.NonTrivial(srcA, fmt.Sprintf("[%s] %q -> %q", v, trunc(srcA, 200), trunc(fa, 200)))
	})
}

func trunc(b []byte, n int) []byte {
	if len(b) > n {
		return b[:n]
	}
	return b
}

// knownRepro maps a corpus file to the open finding it reproduces.
var knownRepro = map[string]string{
	"alt-syntax-close-tag.php": "formatter-brace-close-tag",
	"dangling-else.php":        "formatter-dangling-else",
}

func TestCorpusReplay(t *testing.T) {
	if harness.Shard() != 0 {
		t.Skip("shard 0 only")
	}
	for _, f := range harness.CorpusFiles("C17") {
		src, _ := os.ReadFile(f)
		id := knownRepro[filepath.Base(f)]
		for _, v := range []px.Ver{px.V56, px.V74} {
			c, m, _ := checkOne(src, v)
			if c == "" {
				continue
			}
			if id != "" && harness.KnownSeen(id) {
				continue
			}
			harness.Failf(t, c, src, meta(v), "%s [corpus file %s]", m, f)
		}
	}
}

func TestReplay(t *testing.T) {
	path := harness.ReplayPath()
	if path == "" {
		t.Skip("no VERIF_REPLAY")
	}
	vi, src, err := harness.LoadReplay(path)
	if err != nil {
		t.Fatal(err)
	}
	for _, v := range px.AllVersions {
		if vi.Meta["version"] != "" && vi.Meta["version"] != v.String() {
			continue
		}
		if c, m, _ := checkOne(src, v); c != "" {
			harness.Failf(t, c, src, meta(v), "%s", m)
			return
		}
	}
}

// TestOperatorNests: the exhaustive operator-nest enumeration (phpgen/opnest.go). The formatter
// writes operators with its own spacing, so every operator inside every operand position of every
// other operator (and every triple inside the fusion families, e.g. sign over power over
// pre-decrement) is formatted from its minimal and from its spaced rendering: both must give the
// same text, which must parse back to the same tree and be a fixed point.
func TestOperatorNests(t *testing.T) {
	for _, v := range []px.Ver{px.V74, px.V56} {
		failed := false
		progs.EachNest(v, false, func(name string, build func() *progs.NestProgram) bool {
			var first []byte
			for _, kind := range []phpgen.PolicyKind{phpgen.PolicyMinimal, phpgen.PolicySpace} {
				np := build()
				if np == nil {
					return true
				}
				src := append([]byte{}, np.G.Render(np.Root, phpgen.Policy{Kind: kind}).Src...)
				harness.Class("operator-nest")
				cl, m, f := checkOne(src, v)
				if cl != "" {
					harness.Failf(t, "operator-nests/"+cl, src, meta(v), "%s: %s\nsource: %q", name, m, src)
					failed = true
					return false
				}
				if f == nil {
					harness.Failf(t, "operator-nests/valid-rejected", src, meta(v), "[%s] %s: enumerated expression rejected\nsource: %q", v, name, src)
					failed = true
					return false
				}
				if first == nil {
					first = f
				} else if !bytes.Equal(first, f) {
					harness.Failf(t, "operator-nests/not-canonical", src, meta(v), "[%s] %s: the minimal and the spaced rendering format differently: %q vs %q\nsource: %q", v, name, first, f, src)
					failed = true
					return false
				}
				harness.NonTrivial([]byte(v.String()+name+fmt.Sprint(kind)), fmt.Sprintf("[%s] %s: %q -> %q", v, name, src, f))
			}
			return true
		})
		if failed {
			return
		}
	}
}
