// C17 — Formatting preserves the program, is canonical and idempotent.
package c17

import (
	"bytes"
	"fmt"
	"os"
	"path/filepath"
	"reflect"
	"testing"

	"github.com/z7zmey/php-parser/pkg/ast"
	"github.com/z7zmey/php-parser/pkg/token"
	"pgregory.net/rapid"

	"verif/astx"
	"verif/harness"
	"verif/phpgen"
	"verif/progs"
	"verif/px"
)

func TestMain(m *testing.M) { harness.Main(m, "C17") }

func meta(v px.Ver) map[string]string { return map[string]string{"version": v.String()} }

// format = print(format(parse(src))). ok=false when src does not parse cleanly.
func format(src []byte, v px.Ver) (out []byte, panicMsg string, ok bool) {
	r := px.Parse(src, v, true)
	if r.Panic != "" || len(r.Errs) > 0 || astx.IsNil(r.Root) {
		return nil, "", false
	}
	if p := px.Guard(func() {
		px.Format(r.Root)
		out = px.Print(r.Root)
	}); p != "" {
		return nil, p, true
	}
	return out, "", true
}

// checkOne evaluates clauses 1, 2 and 4 on one source.
func checkOne(src []byte, v px.Ver) (string, string, []byte) {
	orig := px.Parse(src, v, true)
	if orig.Panic != "" || len(orig.Errs) > 0 || astx.IsNil(orig.Root) {
		return "", "", nil
	}
	harness.Eval()
	f1, pm, _ := format(src, v)
	if pm != "" {
		return "formatter-panic", fmt.Sprintf("[%s] the formatter panicked: %s", v, pm), nil
	}
	re := px.Parse(f1, v, true)
	if re.Panic != "" || len(re.Errs) > 0 || astx.IsNil(re.Root) {
		return "formatted-rejected", fmt.Sprintf("[%s] the formatted text does not parse: %s%s\nformatted: %q", v, re.Panic, px.ErrString(re.Errs), f1), f1
	}
	braceCloseTag := false // the open finding formatter-brace-close-tag applies to this program and was tolerated
	if d := astx.Equal(re.Root, orig.Root, astx.Structure); d != "" {
		// open finding formatter-brace-close-tag: the brace form of an alternative-syntax statement has no
		// terminator a following close tag could merge into, so "endwhile ?>" becomes "}?>" and the "?>"
		// an empty statement of its own. Tolerated only for programs with that shape, and only when the
		// two trees are equal once stand-alone close-tag statements are left out; anything else the
		// formatter does to such a program (text that does not parse, HTML moved into a body, ...) is
		// still a violation
		if hasBraceCloseTagShape(orig.Root) && astx.Equal(stripCloseTagNops(re.Root), stripCloseTagNops(orig.Root), astx.Structure) == "" && harness.KnownSeen("formatter-brace-close-tag") {
			harness.Excluded("tolerated:formatter-brace-close-tag")
			braceCloseTag = true
		} else {
			return "structure-changed", fmt.Sprintf("[%s] formatting changed the program (reparsed formatted text vs original): %s\nformatted: %q", v, d, f1), f1
		}
	}
	f2, pm, ok := format(f1, v)
	if pm != "" {
		return "formatter-panic", fmt.Sprintf("[%s] the formatter panicked on its own output: %s\nformatted: %q", v, pm, f1), f1
	}
	if ok && !bytes.Equal(f1, f2) {
		// same finding: "}?>x" is re-formatted to "};?>x" (the stand-alone close tag is now a statement)
		if (braceCloseTag || hasBraceCloseTagShape(orig.Root)) && harness.FindingOpen("formatter-brace-close-tag") {
			if r2 := px.Parse(f2, v, true); r2.Panic == "" && len(r2.Errs) == 0 && !astx.IsNil(r2.Root) &&
				astx.Equal(stripCloseTagNops(r2.Root), stripCloseTagNops(orig.Root), astx.Structure) == "" && harness.KnownSeen("formatter-brace-close-tag") {
				harness.Excluded("tolerated:formatter-brace-close-tag")
				return "", "", nil // no canonical text to compare for this program
			}
		}
		return "not-idempotent", fmt.Sprintf("[%s] formatting formatted code changes it again:\nonce:  %q\ntwice: %q", v, f1, f2), f1
	}
	if braceCloseTag {
		return "", "", nil
	}
	return "", "", f1
}

func options(v px.Ver) phpgen.Options {
	o := progs.StructuralOptions(v)
	for name, set := range switches {
		if harness.FindingOpen(name) {
			set(&o)
		}
	}
	return o
}

// switches maps an open formatter finding to the generator option that keeps its trigger out.
// (formatter-brace-close-tag is not switched off in the generator: its programs are generated and the
// known failure mode alone is tolerated in checkOne, so that other defects on the same shapes —
// alternative syntax or "}" followed by a close tag and inline HTML — are still found.)
var switches = map[string]func(*phpgen.Options){
	"formatter-dangling-else": func(o *phpgen.Options) { o.BraceAltIfBeforeElse = true },
}

func isCloseTagTok(t *token.Token) bool {
	return t != nil && bytes.Contains(t.Value, []byte("?>"))
}

// hasBraceCloseTagShape: the program has a statement that the formatter writes with a closing brace
// and that is followed by a close tag — an alternative-syntax statement terminated by "?>" / "; ?>",
// or a stand-alone "?>" statement (which follows a "}" or ":" in the source).
func hasBraceCloseTagShape(root ast.Vertex) bool {
	found := false
	astx.Walk(root, func(n ast.Vertex, _ string) bool {
		if nop, ok := n.(*ast.StmtNop); ok && isCloseTagTok(nop.SemiColonTkn) {
			found = true
		}
		// the same with the separator of a case: "case 1 ?>text" becomes "case 1:?>text"
		if c, ok := n.(*ast.StmtCase); ok && isCloseTagTok(c.CaseSeparatorTkn) {
			found = true
		}
		if c, ok := n.(*ast.StmtDefault); ok && isCloseTagTok(c.CaseSeparatorTkn) {
			found = true
		}
		if s := astx.SchemaOf(n); s != nil {
			rv := reflect.ValueOf(n).Elem()
			colon, semi := rv.FieldByName("ColonTkn"), rv.FieldByName("SemiColonTkn")
			if colon.IsValid() && semi.IsValid() {
				c, _ := colon.Interface().(*token.Token)
				sc, _ := semi.Interface().(*token.Token)
				if c != nil && isCloseTagTok(sc) {
					found = true
				}
			}
		}
		return !found
	})
	return found
}

// stripCloseTagNops returns a copy of the tree without the empty statements in statement lists.
func stripCloseTagNops(root ast.Vertex) ast.Vertex {
	c := astx.Clone(root)
	astx.Walk(c, func(n ast.Vertex, _ string) bool {
		s := astx.SchemaOf(n)
		if s == nil {
			return true
		}
		rv := reflect.ValueOf(n).Elem()
		for _, f := range s.Fields {
			if f.Class != astx.FChildList {
				continue
			}
			list := rv.Field(f.Index).Interface().([]ast.Vertex)
			var kept []ast.Vertex
			for _, ch := range list {
				if _, ok := ch.(*ast.StmtNop); ok {
					// a stand-alone close tag that is not followed by HTML comes back as a bare ";", so
					// on this (tolerance) path empty statements in lists are left out altogether
					continue
				}
				kept = append(kept, ch)
			}
			if len(kept) != len(list) {
				rv.Field(f.Index).Set(reflect.ValueOf(kept))
			}
		}
		return true
	})
	return c
}

func TestGeneratedPrograms(t *testing.T) {
	harness.Check(t, "programs", 12000, 400000, func(rt *rapid.T) {
		v := rapid.SampledFrom([]px.Ver{px.V74, px.V74, px.V56}).Draw(rt, "version")
		c := progs.Draw(rt, v, options(v), 1, 4)
		a := c.G.Render(c.Root, progs.Policy(rt, phpgen.PolicySpace, nil)).Src
		srcA := append([]byte{}, a...)
		cl, m, fa := checkOne(srcA, v)
		if cl != "" {
			harness.Fail(rt, cl, srcA, meta(v), "%s\nsource: %q", m, srcA)
		}
		// canonical: a whitespace-only re-layout of the same program formats identically
		b := c.G.Render(c.Root, progs.Policy(rt, phpgen.PolicyWhitespace, nil)).Src
		srcB := append([]byte{}, b...)
		fb, pm, ok := format(srcB, v)
		harness.Eval()
		if pm != "" {
			harness.Fail(rt, "formatter-panic", srcB, meta(v), "[%s] the formatter panicked: %s\nsource: %q", v, pm, srcB)
		}
		if !ok {
			harness.Fail(rt, "valid-rejected", srcB, meta(v), "[%s] whitespace variant of a valid program rejected\nsource: %q", v, srcB)
		}
		if fa != nil && !bytes.Equal(fa, fb) {
			harness.Fail(rt, "not-canonical", srcB, meta(v), "[%s] two sources that differ only in whitespace format differently:\nA: %q\n-> %q\nB: %q\n-> %q", v, srcA, fa, srcB, fb)
		}
		// comments are free-floating content the formatter may drop, but the program must survive
		cm := c.G.Render(c.Root, progs.Policy(rt, phpgen.PolicyFull, nil)).Src
		srcC := append([]byte{}, cm...)
		if cl, m, _ := checkOne(srcC, v); cl != "" {
			harness.Fail(rt, cl, srcC, meta(v), "%s\nsource: %q", m, srcC)
		}
		c.Report()
		harness.NonTrivial(srcA, fmt.Sprintf("[%s] %q -> %q", v, trunc(srcA, 200), trunc(fa, 200)))
	})
}

func trunc(b []byte, n int) []byte {
	if len(b) > n {
		return b[:n]
	}
	return b
}

// knownRepro maps a corpus file to the open finding it reproduces.
var knownRepro = map[string]string{
	"alt-syntax-close-tag.php": "formatter-brace-close-tag",
	"dangling-else.php":        "formatter-dangling-else",
}

func TestCorpusReplay(t *testing.T) {
	if harness.Shard() != 0 {
		t.Skip("shard 0 only")
	}
	for _, f := range harness.CorpusFiles("C17") {
		src, _ := os.ReadFile(f)
		id := knownRepro[filepath.Base(f)]
		for _, v := range []px.Ver{px.V56, px.V74} {
			c, m, _ := checkOne(src, v)
			if c == "" {
				continue
			}
			if id != "" && harness.KnownSeen(id) {
				continue
			}
			harness.Failf(t, c, src, meta(v), "%s [corpus file %s]", m, f)
		}
	}
}

func TestReplay(t *testing.T) {
	path := harness.ReplayPath()
	if path == "" {
		t.Skip("no VERIF_REPLAY")
	}
	vi, src, err := harness.LoadReplay(path)
	if err != nil {
		t.Fatal(err)
	}
	for _, v := range px.AllVersions {
		if vi.Meta["version"] != "" && vi.Meta["version"] != v.String() {
			continue
		}
		if c, m, _ := checkOne(src, v); c != "" {
			harness.Failf(t, c, src, meta(v), "%s", m)
			return
		}
	}
}

// TestOperatorNests: the exhaustive operator-nest enumeration (phpgen/opnest.go). The formatter
// writes operators with its own spacing, so every operator inside every operand position of every
// other operator (and every triple inside the fusion families, e.g. sign over power over
// pre-decrement) is formatted from its minimal and from its spaced rendering: both must give the
// same text, which must parse back to the same tree and be a fixed point.
func TestOperatorNests(t *testing.T) {
	for _, v := range []px.Ver{px.V74, px.V56} {
		failed := false
		progs.EachNest(v, false, func(name string, build func() *progs.NestProgram) bool {
			var first []byte
			for _, kind := range []phpgen.PolicyKind{phpgen.PolicyMinimal, phpgen.PolicySpace} {
				np := build()
				if np == nil {
					return true
				}
				src := append([]byte{}, np.G.Render(np.Root, phpgen.Policy{Kind: kind}).Src...)
				harness.Class("operator-nest")
				cl, m, f := checkOne(src, v)
				if cl != "" {
					harness.Failf(t, "operator-nests/"+cl, src, meta(v), "%s: %s\nsource: %q", name, m, src)
					failed = true
					return false
				}
				if f == nil {
					harness.Failf(t, "operator-nests/valid-rejected", src, meta(v), "[%s] %s: enumerated expression rejected\nsource: %q", v, name, src)
					failed = true
					return false
				}
				if first == nil {
					first = f
				} else if !bytes.Equal(first, f) {
					harness.Failf(t, "operator-nests/not-canonical", src, meta(v), "[%s] %s: the minimal and the spaced rendering format differently: %q vs %q\nsource: %q", v, name, first, f, src)
					failed = true
					return false
				}
				harness.NonTrivial([]byte(v.String()+name+fmt.Sprint(kind)), fmt.Sprintf("[%s] %s: %q -> %q", v, name, src, f))
			}
			return true
		})
		if failed {
			return
		}
	}
}
