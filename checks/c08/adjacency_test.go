package c08

import (
	"fmt"
	"strings"
	"testing"

	"verif/astx"
	"verif/harness"
	"verif/px"
)

// kwTemplates: one program per keyword-ish token with a marked gap (¦) directly behind it and a slot
// (%s) for what follows. Whitespace is optional in that gap whenever the next lexeme does not start
// with an identifier byte (PHP's scanner ends a keyword at the first byte that cannot continue a
// label), so the program written with and without the blank must give the same tree.
var kwTemplates = []string{
	"<?php function g() { yield from¦%s; }", "<?php function g() { yield¦%s; }", "<?php function g() { $x = yield¦%s; }", "<?php function g() { yield¦%s => 1; }",
	"<?php new¦%s;", "<?php $x = new¦%s(1);", "<?php $x instanceof¦%s;", "<?php echo¦%s;", "<?php echo 1, 2; print¦%s;", "<?php function g() { return¦%s; }",
	"<?php clone¦%s;", "<?php throw¦%s;", "<?php include¦%s;", "<?php include_once¦%s;", "<?php require¦%s;", "<?php require_once¦%s;",
	"<?php switch ($a) { case¦%s: break; }", "<?php if ($a) echo 1; else¦%s;", "<?php do¦%s; while (0);", "<?php while ($a) break; $b = $a and¦%s;", "<?php $b = $a or¦%s;", "<?php $b = $a xor¦%s;",
	"<?php class A extends¦%s { }", "<?php class A implements¦%s { }", "<?php interface I extends¦%s { }", "<?php class A { use¦%s; }",
	"<?php use¦%s;", "<?php use function¦%s;", "<?php use const¦%s;", "<?php try { } catch (%s¦$e) { }",
	"<?php foreach ($a as¦%s) { }", "<?php foreach ($a as $k => $v) echo¦%s;", "<?php function g() { global¦%s; }", "<?php function g() { static¦%s; }",
	"<?php class A { public¦%s; }", "<?php class A { var¦%s; }", "<?php class A { private static¦%s; }", "<?php class A { const¦B = %s; }",
	"<?php function¦%s() { }", "<?php function g(array¦%s) { }", "<?php function g(callable¦%s) { }",
	"<?php if¦(%s) { }", "<?php if (1) { } elseif¦(%s) { }", "<?php while¦(%s) { }", "<?php for¦(%s;;) { }", "<?php foreach¦(%s as $v) { }", "<?php switch¦(%s) { }",
	"<?php $x = array¦(%s);", "<?php list¦($q) = %s;", "<?php isset¦($q[%s]);", "<?php empty¦(%s);", "<?php eval¦(%s);", "<?php unset¦($q[%s]);", "<?php exit¦(%s);", "<?php die¦(%s);",
	"<?php declare¦(ticks=1); echo %s;", "<?php $f = function¦() use¦(&$q) { return %s; };", "<?php $f = fn¦() => %s;", "<?php $f = static¦function () { return %s; };",
	"<?php try¦{ } finally¦{ echo %s; }", "<?php if (1) { } else¦{ echo %s; }", "<?php do¦{ } while¦(%s);", "<?php namespace¦{ echo %s; }",
	"<?php goto x; x: echo¦%s;", "<?php abstract class A { abstract function f(); } echo¦%s;",
}

// kwOperands: continuations by their first lexeme.
var kwOperands = []string{
	"\\Ns\\gen()", "\\Ns\\C::K", "\\Ns\\C", "$v", "$$v", "(1)", "[1, 2]", "'s'", "\"s $v\"", "-1", "+1", "!$v", "@$v", "~1", "`ls`", ".5", "&$v", "<<<X\nt\nX\n", "<<<'X'\nt\nX\n", "?\\Ns\\C $p", "...$v",
}

// TestKeywordAdjacency: the exhaustive (keyword, continuation) matrix for the one gap the trivia
// policies reach only by luck for rare keywords: nothing at all between a keyword and a continuation
// that starts with a non-identifier byte ("yield from\Ns\gen()", "case-1:", "new\Foo", "as&$v",
// "echo<<<X"). Pairs whose spaced form is not a valid program (the continuation is not allowed there)
// are skipped and counted.
func TestKeywordAdjacency(t *testing.T) {
	if harness.Shard() != 0 {
		t.Skip("enumeration runs on shard 0")
	}
	skipped := 0
	for _, v := range []px.Ver{px.V74, px.V56} {
		for _, tpl := range kwTemplates {
			for _, op := range kwOperands {
				spaced := []byte(strings.ReplaceAll(fmt.Sprintf(tpl, op), "¦", " "))
				rs, bad := parseOK(spaced, v)
				if bad != "" {
					skipped++
					continue
				}
				// every marked gap on its own, and all of them together
				n := strings.Count(tpl, "¦")
				for g := 0; g <= n; g++ {
					if g == n && n == 1 {
						break
					}
					text := fmt.Sprintf(tpl, op)
					k := 0
					var b strings.Builder
					for _, r := range text {
						if r == '¦' {
							if g == n || k == g {
								// tight, unless the next lexeme starts with an identifier byte
								k++
								continue
							}
							k++
							b.WriteByte(' ')
							continue
						}
						b.WriteRune(r)
					}
					tight := []byte(b.String())
					if fuses(text, g, n) {
						continue
					}
					harness.Eval()
					harness.Class("keyword-adjacency")
					rt, bad := parseOK(tight, v)
					mt := metaShape(v, rs.Root)
					if bad != "" {
						harness.Failf(t, "keyword-adjacency/variant-rejected", tight, mt, "[%s] %q parses cleanly, but not without the blank behind the keyword: %s\ntight: %q", v, spaced, bad, tight)
						return
					}
					if d := astx.Equal(rt.Root, rs.Root, astx.Structure); d != "" {
						harness.Failf(t, "keyword-adjacency/structure-changed", tight, mt, "[%s] removing the blank behind a keyword changed the tree (tight vs spaced): %s\ntight: %q\nspaced: %q", v, d, tight, spaced)
						return
					}
					harness.NonTrivial([]byte(v.String()+string(tight)), fmt.Sprintf("[%s] %q", v, tight))
				}
			}
		}
	}
	harness.ClassN("keyword-adjacency:skipped (continuation not allowed there)", skipped)
	harness.Exhaustive(fmt.Sprintf("%d keyword templates x %d continuations x {5.6, 7.4}: each marked gap empty on its own and all together", len(kwTemplates), len(kwOperands)))
}

// fuses reports whether removing gap g (or all gaps, g == n) of the template text would join two
// identifier bytes (then the blank is mandatory and the variant is not a rendering of the program).
func fuses(text string, g, n int) bool {
	rs := []rune(text)
	k := 0
	for i, r := range rs {
		if r != '¦' {
			continue
		}
		if (g == n || k == g) && i > 0 && i+1 < len(rs) && isIdentByte(rs[i-1]) && isIdentByte(rs[i+1]) {
			return true
		}
		k++
	}
	return false
}

func isIdentByte(r rune) bool {
	return r == '_' || r >= 0x80 || (r >= 'a' && r <= 'z') || (r >= 'A' && r <= 'Z') || (r >= '0' && r <= '9')
}
