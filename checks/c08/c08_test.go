// C08 — Whitespace, line endings and comments never change the tree's structure.
package c08

import (
	"bytes"
	"fmt"
	"strings"
	"testing"

	"github.com/z7zmey/php-parser/pkg/ast"
	"github.com/z7zmey/php-parser/pkg/token"
	"pgregory.net/rapid"

	"verif/astx"
	"verif/harness"
	"verif/inputs"
	"verif/phpgen"
	"verif/progs"
	"verif/px"
)

func TestMain(m *testing.M) { harness.Main(m, "C08") }

func meta(v px.Ver) map[string]string { return map[string]string{"version": v.String()} }

// metaShape adds the structure the tree must have (kinds, roles, values of the reference / model), so
// that a recorded case can be replayed from the replay file alone.
func metaShape(v px.Ver, want ast.Vertex) map[string]string {
	return map[string]string{"version": v.String(), "expected_shape": astx.Shape(want)}
}

func parseOK(src []byte, v px.Ver) (px.Result, string) {
	r := px.Parse(src, v, true)
	if r.Panic != "" {
		return r, "panic: " + r.Panic
	}
	if len(r.Errs) > 0 {
		return r, "errors: " + px.ErrString(r.Errs)
	}
	if r.Root == nil {
		return r, "nil root"
	}
	return r, ""
}

func TestTriviaVariants(t *testing.T) {
	harness.Check(t, "variants", 12000, 500000, func(rt *rapid.T) {
		v := rapid.SampledFrom(px.KeyVersions).Draw(rt, "version")
		c := progs.Draw(rt, v, progs.StructuralOptions(v), 1, 4)
		ref := c.G.Render(c.Root, progs.Policy(rt, phpgen.PolicySpace, nil))
		refSrc := ref.Src
		rr, bad := parseOK(refSrc, v)
		harness.Eval()
		if bad != "" {
			harness.Fail(rt, "reference-rejected", refSrc, meta(v), "[%s] reference rendering (single spaces) does not parse cleanly: %s\nsource: %q", v, bad, refSrc)
		}
		if d := astx.Equal(rr.Root, c.Root, astx.Structure); d != "" {
			harness.Fail(rt, "reference-vs-model", refSrc, metaShape(v, c.Root), "[%s] reference rendering parses to a different structure than the generator's model: %s\nsource: %q", v, d, refSrc)
		}
		refShape := astx.Clone(rr.Root)
		k := rapid.IntRange(2, 5).Draw(rt, "variants")
		for i := 0; i < k; i++ {
			kind := rapid.SampledFrom([]phpgen.PolicyKind{phpgen.PolicyMinimal, phpgen.PolicyWhitespace, phpgen.PolicyFull, phpgen.PolicyFull}).Draw(rt, "policy")
			excl := 0
			lay := c.G.Render(c.Root, progs.Policy(rt, kind, &excl))
			src := lay.Src
			for j := 0; j < excl; j++ {
				harness.Excluded("lone-cr-newline")
			}
			r, bad := parseOK(src, v)
			harness.Eval()
			if bad != "" {
				harness.Fail(rt, "variant-rejected", src, meta(v), "[%s] the program parses cleanly with single spaces but not with this trivia: %s\nvariant: %q\nreference: %q", v, bad, src, refSrc)
			}
			if d := astx.Equal(r.Root, refShape, astx.Structure); d != "" {
				harness.Fail(rt, "structure-changed", src, metaShape(v, refShape), "[%s] trivia changed the tree (variant vs reference): %s\nvariant: %q\nreference: %q", v, d, src, refSrc)
			}
			if len(lay.Classes) >= 2 && lay.Tokens >= 4 {
				harness.NonTrivial(src, fmt.Sprintf("[%s classes=%d] %q", v, len(lay.Classes), trunc(src, 300)))
			}
			for cl := range lay.Classes {
				harness.Class("trivia:" + cl)
			}
		}
		c.Report()
	})
}

// parseLoneCR parses a rendering whose inter-token whitespace may contain lone CRs. Open finding
// lone-cr-newline: the scanner reports each such CR as an unexpected character (and leaves it out of
// the tokens). Exactly that is tolerated — every reported error must be that warning, positioned on a
// CR that is not followed by LF — so that the tree can still be compared; any other error is reported.
func parseLoneCR(src []byte, v px.Ver) (px.Result, string, int) {
	r := px.Parse(src, v, true)
	if r.Panic != "" {
		return r, "panic: " + r.Panic, 0
	}
	if r.Root == nil {
		return r, "nil root", 0
	}
	tolerated := 0
	for _, e := range r.Errs {
		ok := e.Pos != nil && strings.HasPrefix(e.Msg, "WARNING: Unexpected character in input: '\r'") && e.Pos.StartPos >= 0 && e.Pos.StartPos < len(src) &&
			src[e.Pos.StartPos] == '\r' && (e.Pos.StartPos+1 >= len(src) || src[e.Pos.StartPos+1] != '\n')
		if !ok {
			return r, "errors other than the known lone-CR warning: " + px.ErrString(r.Errs), 0
		}
		tolerated++
	}
	return r, "", tolerated
}

// TestLoneCRVariants: the region behind finding lone-cr-newline is not switched off: renderings with
// lone CRs in ordinary inter-token whitespace are generated, the known warnings are tolerated (and
// counted), and the tree must still be the reference tree — a lone CR may cost a warning today, it
// must never change which nodes the tree contains.
func TestLoneCRVariants(t *testing.T) {
	if !harness.FindingOpen("lone-cr-newline") {
		t.Skip("finding lone-cr-newline is not open: the ordinary variants contain lone CRs")
	}
	harness.Check(t, "lone-cr-variants", 6000, 250000, func(rt *rapid.T) {
		v := rapid.SampledFrom(px.KeyVersions).Draw(rt, "version")
		c := progs.Draw(rt, v, progs.StructuralOptions(v), 1, 4)
		refSrc := c.G.Render(c.Root, progs.Policy(rt, phpgen.PolicySpace, nil)).Src
		rr, bad := parseOK(refSrc, v)
		if bad != "" {
			return // the ordinary variants report this
		}
		ref := astx.Clone(rr.Root)
		pol := progs.Policy(rt, rapid.SampledFrom([]phpgen.PolicyKind{phpgen.PolicyWhitespace, phpgen.PolicyFull}).Draw(rt, "policy"), nil)
		pol.LoneCRInGaps = true
		src := append([]byte{}, c.G.Render(c.Root, pol).Src...)
		r, bad, tolerated := parseLoneCR(src, v)
		harness.Eval()
		if bad != "" {
			harness.Fail(rt, "variant-rejected", src, meta(v), "[%s] the program parses cleanly with single spaces but not with this trivia (lone CRs allowed): %s\nvariant: %q", v, bad, src)
		}
		if d := astx.Equal(r.Root, ref, astx.Structure); d != "" {
			harness.Fail(rt, "structure-changed", src, metaShape(v, ref), "[%s] trivia with lone CRs changed the tree (variant vs reference): %s\nvariant: %q\nreference: %q", v, d, src, refSrc)
		}
		if tolerated > 0 {
			harness.KnownSeen("lone-cr-newline")
			harness.Excluded("tolerated:lone-cr-newline (warnings)")
			harness.NonTrivial(src, fmt.Sprintf("[%s lone CRs=%d] %q", v, tolerated, trunc(src, 200)))
		}
		harness.Class("lone-cr-variant")
	})
}

// TestLargeVariants: programs of several thousand tokens (more than one
// 1024-entry pool block of tokens per parse) under different trivia, so that
// which token lands on which pool slot shifts between the renderings.
func TestLargeVariants(t *testing.T) {
	harness.Check(t, "large-variants", 80, 4000, func(rt *rapid.T) {
		v := rapid.SampledFrom([]px.Ver{px.V56, px.V74}).Draw(rt, "version")
		o := progs.StructuralOptions(v)
		c := progs.Draw(rt, v, o, 60, 160)
		ref := c.G.Render(c.Root, progs.Policy(rt, phpgen.PolicySpace, nil))
		rr, bad := parseOK(ref.Src, v)
		harness.Eval()
		if bad != "" {
			harness.Fail(rt, "reference-rejected", ref.Src, meta(v), "[%s] reference rendering (single spaces) of a large program does not parse cleanly: %s", v, bad)
		}
		if d := astx.Equal(rr.Root, c.Root, astx.Structure); d != "" {
			harness.Fail(rt, "reference-vs-model", ref.Src, metaShape(v, c.Root), "[%s] reference rendering of a large program parses to a different structure than the generator's model: %s", v, d)
		}
		for i := 0; i < 2; i++ {
			kind := rapid.SampledFrom([]phpgen.PolicyKind{phpgen.PolicyMinimal, phpgen.PolicyWhitespace, phpgen.PolicyFull}).Draw(rt, "policy")
			excl := 0
			lay := c.G.Render(c.Root, progs.Policy(rt, kind, &excl))
			for j := 0; j < excl; j++ {
				harness.Excluded("lone-cr-newline")
			}
			r, bad := parseOK(lay.Src, v)
			harness.Eval()
			if bad != "" {
				harness.Fail(rt, "variant-rejected", lay.Src, meta(v), "[%s] a large program parses cleanly with single spaces but not with this trivia: %s", v, bad)
			}
			if d := astx.Equal(r.Root, c.Root, astx.Structure); d != "" {
				harness.Fail(rt, "structure-changed", lay.Src, metaShape(v, c.Root), "[%s] trivia changed the tree of a large program (variant vs model): %s", v, d)
			}
			if lay.Tokens > 1024 {
				harness.Class("tokens>1024")
				harness.NonTrivial(lay.Src, fmt.Sprintf("[%s tokens=%d classes=%d] %q", v, lay.Tokens, len(lay.Classes), trunc(lay.Src, 200)))
			}
		}
	})
}

func trunc(b []byte, n int) []byte {
	if len(b) > n {
		return b[:n]
	}
	return b
}

// pairs of hand-written layouts for the gaps the generator treats specially
// (they exercise lexer states the policies cannot reach by construction).
var specialPairs = [][2]string{
	{"<?php $a->b;", "<?php $a\n->\n\tb ;"},
	{"<?php $a->b;", "<?php $a /*c*/ -> /*c*/ b;"},
	{"<?php A::b();", "<?php A /*c*/ :: # x\n b ( ) ;"},
	{"<?php (int)$a;", "<?php (  int\t) /*c*/ $a;"},
	{"<?php function f() { yield from $a; }", "<?php function f() { yield\n\tfrom /*c*/ $a; }"},
	{"<?php echo 1 ?>x", "<?php echo 1 // c\n?>x"},
	{"<?php echo 1 ?>x", "<?php echo 1 # c ?>x"},
	{"<?php echo 1;", "<?php\necho 1;"},
	{"<?php echo 1;", "<?php\r\necho 1;"},
	{"<?php echo <<<A\nx\nA;\n", "<?php echo /*c*/ <<<A\nx\nA;\n#c\n"},
	{"<?php namespace A\\B;", "<?php namespace A /*c*/ \\ /*c*/ B ;"},
	{"<?php new class {};", "<?php new /*c*/ class /*c*/ { } ;"},
	{"<?php static fn() => 1;", "<?php static /*c*/ fn /*c*/ ( ) /*c*/ => /*c*/ 1;"},
	{"<?php if ($a) {} else if ($b) {}", "<?php if ($a) {} else /*c*/ if ($b) {}"},
	{"<?php $a = 1 and 2;", "<?php $a = 1/*c*/and/*c*/2;"},
	{"<?php \"$a[0] {$b} ${c}\";", "<?php /*c*/ \"$a[0] {$b} ${c}\" /*c*/ ;"},
	{"<?php \"{$a->b}\";", "<?php \"{$a /*c*/ -> /*c*/ b }\";"},
	{"<?php \"${a[1]}\";", "<?php \"${a[ /*c*/ 1 /*c*/ ]}\";"},
	{"<?php use A\\{B, C};", "<?php use A\\ /*c*/ { /*c*/ B /*c*/ , C /*c*/ } ;"},
	{"<?php __halt_compiler();x", "<?php __halt_compiler  (\n)\t;x"},
	{"<?php f(...$a);", "<?php f( ... /*c*/ $a );"},
	{"<?php $a ?: $b;", "<?php $a ? /*c*/ : $b;"},
	{"<?php function &f(&$a) {}", "<?php function /*c*/ & /*c*/ f ( /*c*/ & /*c*/ $a ) { }"},
	{"<?php $$a; ${'a'};", "<?php $ /*c*/ $a; $ /*c*/ { /*c*/ 'a' /*c*/ } ;"},
	{"<?php a: goto a;", "<?php a /*c*/ : goto /*c*/ a /*c*/ ;"},
	{"<?php declare(ticks=1);", "<?php declare /*c*/ ( /*c*/ ticks /*c*/ = /*c*/ 1 /*c*/ ) /*c*/ ;"},
}

func TestSpecialGaps(t *testing.T) {
	if harness.Shard() != 0 {
		t.Skip("shard 0 only")
	}
	for _, p := range specialPairs {
		for _, v := range []px.Ver{px.V56, px.V74} {
			if v.IsPHP5() && (p[0] == "<?php new class {};" || p[0] == "<?php static fn() => 1;" || p[0] == "<?php use A\\{B, C};" || p[0] == "<?php function f() { yield from $a; }") {
				continue
			}
			a, bad := parseOK([]byte(p[0]), v)
			harness.Eval()
			if bad != "" {
				harness.Failf(t, "special-reference-rejected", []byte(p[0]), meta(v), "[%s] %q: %s", v, p[0], bad)
				continue
			}
			b, bad := parseOK([]byte(p[1]), v)
			harness.Eval()
			if bad != "" {
				harness.Failf(t, "special-variant-rejected", []byte(p[1]), meta(v), "[%s] %q parses cleanly but %q does not: %s", v, p[0], p[1], bad)
				continue
			}
			if d := astx.Equal(b.Root, a.Root, astx.Structure); d != "" {
				harness.Failf(t, "special-structure-changed", []byte(p[1]), meta(v), "[%s] trivia changed the tree: %q vs %q: %s", v, p[1], p[0], d)
			}
			harness.NonTrivial([]byte(p[1]+v.String()), fmt.Sprintf("[%s special gap] %q vs %q", v, p[1], p[0]))
			harness.Class("special-gap-pair")
		}
	}
}

// known findings of this property: pairs that must (still) differ.
var knownPairs = []struct{ id, a, b string }{
	{"semicolon-comment-close-tag", "<?php echo 1; ?>x", "<?php echo 1; /*c*/ ?>x"},
	{"halt-compiler-comment", "<?php __halt_compiler();data", "<?php __halt_compiler /*c*/ ( ) ;data"},
	{"lone-cr-newline", "<?php echo 1;\necho 2;", "<?php echo 1;\recho 2;"},
}

func TestKnownFindings(t *testing.T) {
	if harness.Shard() != 0 {
		t.Skip("shard 0 only")
	}
	for _, k := range knownPairs {
		a, badA := parseOK([]byte(k.a), px.V74)
		b, badB := parseOK([]byte(k.b), px.V74)
		if badA != "" {
			harness.Failf(t, "known-reference-rejected", []byte(k.a), meta(px.V74), "%q: %s", k.a, badA)
			continue
		}
		differs := badB != "" || astx.Equal(b.Root, a.Root, astx.Structure) != ""
		if !differs {
			harness.Note("finding %s no longer reproduces (%q and %q now parse to the same structure)", k.id, k.a, k.b)
			continue
		}
		if !harness.KnownSeen(k.id) {
			harness.Failf(t, "structure-changed", []byte(k.b), meta(px.V74), "trivia changed the tree: %q vs %q (not listed as an open finding)", k.b, k.a)
		}
	}
}

func TestReplay(t *testing.T) {
	path := harness.ReplayPath()
	if path == "" {
		t.Skip("no VERIF_REPLAY")
	}
	vi, src, err := harness.LoadReplay(path)
	if err != nil {
		t.Fatal(err)
	}
	// a variant is replayed against its own reparse after trivia normalisation is not
	// possible without the model; replay re-checks that the variant parses cleanly.
	for _, v := range px.AllVersions {
		if vi.Meta["version"] != "" && vi.Meta["version"] != v.String() {
			continue
		}
		r, bad := parseOK(src, v)
		harness.Eval()
		if bad != "" {
			harness.Failf(t, vi.Check, src, meta(v), "[%s] %s", v, bad)
			return
		}
		if want := vi.Meta["expected_shape"]; want != "" {
			if got := astx.Shape(r.Root); got != want {
				harness.Failf(t, vi.Check, src, vi.Meta, "[%s] the recorded source (still) parses to a different structure than its reference: %s", v, firstShapeDiff(want, got))
				return
			}
		}
	}
}

// TestCorpusTriviaInsertion: the repository's own test programs (constructs
// written by the library's authors, independent of the generator) with one
// piece of trivia inserted at a drawn inter-token gap of PHP code.
func TestCorpusTriviaInsertion(t *testing.T) {
	harness.Check(t, "corpus-insertion", 20000, 600000, func(rt *rapid.T) {
		src := inputs.Seed(rt)
		v := rapid.SampledFrom([]px.Ver{px.V56, px.V74, {Major: 7, Minor: 2}}).Draw(rt, "version")
		ref, bad := parseOK(src, v)
		if bad != "" {
			return
		}
		noGo := map[*token.Token]bool{}
		astx.Walk(ref.Root, func(n ast.Vertex, _ string) bool {
			switch n.(type) {
			case *ast.ScalarEncapsed, *ast.ScalarHeredoc, *ast.ExprShellExec, *ast.StmtHaltCompiler:
				for _, tk := range astx.Tokens(n) {
					noGo[tk] = true
				}
				return false
			}
			return true
		})
		toks := astx.Tokens(ref.Root)
		var sites []int
		for i, tk := range toks {
			if tk.Position == nil || noGo[tk] || tk.ID == token.T_INLINE_HTML {
				continue
			}
			if i > 0 {
				p := toks[i-1]
				if p.ID == token.T_INLINE_HTML || noGo[p] && p.ID == token.T_END_HEREDOC || p.ID == token.T_END_HEREDOC {
					continue
				}
				if p.ID == token.ID(';') && (bytes.Contains(p.Value, []byte("?>")) || (i > 1 && toks[i-2].ID == token.T_END_HEREDOC)) {
					continue
				}
				if _, isHalt := ref.Root.(*ast.Root); isHalt && p.ID == token.T_HALT_COMPILER {
					continue
				}
			}
			if tk.ID == token.T_ECHO && bytes.Equal(tk.Value, []byte("<?=")) {
				continue
			}
			if bytes.HasPrefix(tk.Value, []byte("?>")) {
				continue // a comment between ";" and "?>" is the open finding semicolon-comment-close-tag
			}
			sites = append(sites, i)
		}
		if len(sites) == 0 {
			return
		}
		i := sites[rapid.IntRange(0, len(sites)-1).Draw(rt, "site")]
		triv := rapid.SampledFrom([]string{" ", "\n", "\r\n", "\t", "/*c*/", "/** d */", "//c\n", "#c\r\n", " /* a */ // b\n"}).Draw(rt, "trivia")
		if i > 0 && toks[i-1].ID == token.T_OBJECT_OPERATOR && strings.ContainsAny(triv, "/#") {
			triv = " " // after "->" a comment turns a keyword-named member back into a keyword
		}
		if i > 0 && len(toks[i-1].Value) > 0 {
			last := toks[i-1].Value[len(toks[i-1].Value)-1]
			if (last == '/' || last == '<' || last == '*') && len(toks[i].FreeFloating) == 0 && strings.HasPrefix(triv, "/") {
				triv = " " + triv
			}
		}
		at := toks[i].Position.StartPos
		edited := append(append(append([]byte{}, src[:at]...), triv...), src[at:]...)
		r, bad := parseOK(edited, v)
		harness.Eval()
		if bad != "" {
			harness.Fail(rt, "insertion-rejected", edited, meta(v), "[%s] inserting %q before %s breaks a program that parses cleanly: %s\nedited: %q", v, triv, astx.TokString(toks[i]), bad, edited)
		}
		if d := astx.Equal(r.Root, ref.Root, astx.Structure); d != "" {
			harness.Fail(rt, "insertion-structure-changed", edited, metaShape(v, ref.Root), "[%s] inserting %q before %s changed the tree: %s\nedited: %q", v, triv, astx.TokString(toks[i]), d, edited)
		}
		harness.Class("corpus-insertion")
		harness.NonTrivial(edited, fmt.Sprintf("[%s +%q] %q", v, triv, trunc(edited, 200)))
	})
}

func firstShapeDiff(want, got string) string {
	lw, lg := strings.Split(want, "\n"), strings.Split(got, "\n")
	for i := 0; i < len(lw) && i < len(lg); i++ {
		if lw[i] != lg[i] {
			return fmt.Sprintf("line %d: expected %q, parsed %q", i, strings.TrimSpace(lw[i]), strings.TrimSpace(lg[i]))
		}
	}
	return fmt.Sprintf("%d vs %d lines", len(lw), len(lg))
}
