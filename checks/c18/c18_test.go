// C18 — Pool allocations are distinct and stay valid.
package c18

import (
	"fmt"
	"os"
	"runtime"
	"strings"
	"testing"
	"unsafe"

	"github.com/z7zmey/php-parser/pkg/position"
	"github.com/z7zmey/php-parser/pkg/token"
	"pgregory.net/rapid"

	"verif/harness"
)

func TestMain(m *testing.M) { harness.Main(m, "C18") }

// pool abstracts over token.Pool and position.Pool: get returns an opaque
// address; write/read store and load a unique stamp through that address.
type pool interface {
	get() unsafe.Pointer
	write(p unsafe.Pointer, stamp int)
	read(p unsafe.Pointer) (int, bool) // stamp, consistent
	size() uintptr
}

type tokPool struct{ p *token.Pool }

func (t tokPool) get() unsafe.Pointer { return unsafe.Pointer(t.p.Get()) }
func (t tokPool) size() uintptr       { return unsafe.Sizeof(token.Token{}) }
func (t tokPool) write(p unsafe.Pointer, s int) {
	tk := (*token.Token)(p)
	tk.ID = token.ID(s)
	tk.Value = []byte(fmt.Sprintf("v%d", s))
	tk.Position = &position.Position{StartLine: s, EndLine: s + 1, StartPos: s + 2, EndPos: s + 3}
	tk.FreeFloating = []*token.Token{{ID: token.ID(-s)}}
}
func (t tokPool) read(p unsafe.Pointer) (int, bool) {
	tk := (*token.Token)(p)
	s := int(tk.ID)
	ok := string(tk.Value) == fmt.Sprintf("v%d", s) && tk.Position != nil &&
		*tk.Position == position.Position{StartLine: s, EndLine: s + 1, StartPos: s + 2, EndPos: s + 3} &&
		len(tk.FreeFloating) == 1 && tk.FreeFloating[0].ID == token.ID(-s)
	return s, ok
}

type posPool struct{ p *position.Pool }

func (t posPool) get() unsafe.Pointer { return unsafe.Pointer(t.p.Get()) }
func (t posPool) size() uintptr       { return unsafe.Sizeof(position.Position{}) }
func (t posPool) write(p unsafe.Pointer, s int) {
	*(*position.Position)(p) = position.Position{StartLine: s, EndLine: s + 1, StartPos: s + 2, EndPos: s + 3}
}
func (t posPool) read(p unsafe.Pointer) (int, bool) {
	ps := (*position.Position)(p)
	s := ps.StartLine
	return s, *ps == position.Position{StartLine: s, EndLine: s + 1, StartPos: s + 2, EndPos: s + 3}
}

func newPool(kind string, size int) pool {
	if kind == "token" {
		return tokPool{token.NewPool(size)}
	}
	return posPool{position.NewPool(size)}
}

// runHistory performs count Gets on a fresh pool of the block size, stamping
// each object, and verifies after every step (full=true) or at the end that
// all earlier objects are distinct, non-overlapping and still hold their stamp.
func runHistory(kind string, size, count int, full bool) string {
	p := newPool(kind, size)
	seen := map[unsafe.Pointer]int{}
	var ptrs []unsafe.Pointer
	verify := func(upto int) string {
		for j := 0; j <= upto; j++ {
			s, ok := p.read(ptrs[j])
			if !ok || s != j+1 {
				return fmt.Sprintf("%s pool size=%d: object #%d no longer holds its value after %d requests (reads stamp %d, consistent=%v)", kind, size, j, upto+1, s, ok)
			}
		}
		return ""
	}
	for i := 0; i < count; i++ {
		q := p.get()
		if q == nil {
			return fmt.Sprintf("%s pool size=%d: request #%d returned nil", kind, size, i)
		}
		if j, dup := seen[q]; dup {
			return fmt.Sprintf("%s pool size=%d: request #%d returned the same object as request #%d", kind, size, i, j)
		}
		seen[q] = i
		ptrs = append(ptrs, q)
		p.write(q, i+1)
		if full {
			if m := verify(i); m != "" {
				return m
			}
		}
	}
	if count > 0 {
		if m := verify(count - 1); m != "" {
			return m
		}
	}
	if count > 60000 {
		return "" // deep histories: distinct addresses and intact stamps (checked above) already exclude overlap
	}
	// no two objects overlap in memory (distinct addresses at least one object apart)
	sz := p.size()
	addrs := make(map[uintptr]int, len(ptrs))
	for i, q := range ptrs {
		addrs[uintptr(q)] = i
	}
	for i, q := range ptrs {
		a := uintptr(q)
		for d := uintptr(1); d < sz; d++ {
			if j, ok := addrs[a+d]; ok {
				return fmt.Sprintf("%s pool size=%d: objects #%d and #%d overlap in memory", kind, size, i, j)
			}
		}
		if sz > 64 {
			break // overlap scan is quadratic in object size; one object suffices for large ones
		}
	}
	return ""
}

func record(kind string, size, count int) {
	harness.Eval()
	if count > size {
		harness.NonTrivial([]byte(fmt.Sprintf("%s/%d/%d", kind, size, count)),
			fmt.Sprintf("%s pool, block size %d, %d requests (%d block boundaries crossed)", kind, size, count, (count-1)/size))
		harness.Class(fmt.Sprintf("boundaries_crossed=%d", min((count-1)/size, 6)))
	} else {
		harness.Class("boundaries_crossed=0")
	}
}

func min(a, b int) int {
	if a < b {
		return a
	}
	return b
}

// maxCount: request counts explored exhaustively for a block size (many block boundaries for the
// small sizes, so that a growth strategy that changes after the n-th block is still inside the range).
func maxCount(size int) int {
	switch {
	case size <= 8:
		return 70*size + 3
	case size <= 16:
		return 40*size + 3
	default:
		return 12*size + 3
	}
}

// Exhaustive part: block sizes 1..64 x request counts 0..maxCount(size), both pools.
func TestExhaustiveSmall(t *testing.T) {
	for _, kind := range []string{"token", "position"} {
		for size := 1; size <= 64; size++ {
			if !harness.MyShare(size) {
				continue // the enumeration is split over the shards by block size
			}
			for count := 0; count <= maxCount(size); count++ {
				record(kind, size, count)
				if m := runHistory(kind, size, count, size <= 16 && count <= 6*size+3); m != "" {
					harness.Failf(t, "exhaustive-small", []byte(fmt.Sprintf("%s %d %d", kind, size, count)),
						map[string]string{"kind": kind, "size": fmt.Sprint(size), "count": fmt.Sprint(count)}, "%s", m)
					return
				}
			}
		}
	}
	harness.Exhaustive("block sizes 1..64 x request counts 0..N(size) x {token,position} pool, N = 70*size+3 (size <= 8), 40*size+3 (size <= 16), 12*size+3 (larger)")
}

// The sizes the library actually uses, many boundaries.
func TestDefaultBlockSize(t *testing.T) {
	if harness.Shard() != 0 {
		t.Skip("runs on shard 0")
	}
	for _, kind := range []string{"token", "position"} {
		for _, size := range []int{token.DefaultBlockSize, position.DefaultBlockSize} {
			for _, count := range []int{size - 1, size, size + 1, 2 * size, 2*size + 1, 6*size + 5, 17*size + 1, 40*size + 5} {
				record(kind, size, count)
				if m := runHistory(kind, size, count, false); m != "" {
					harness.Failf(t, "default-size", []byte(fmt.Sprintf("%s %d %d", kind, size, count)),
						map[string]string{"kind": kind, "size": fmt.Sprint(size), "count": fmt.Sprint(count)}, "%s", m)
					return
				}
			}
		}
	}
}

// Block sizes around powers of two up to 2^17 (an offset counter narrower
// than int would wrap at 2^8, 2^16, ...), each crossed by one and two boundaries.
func TestPowerOfTwoBlockSizes(t *testing.T) {
	sizes := []int{127, 128, 129, 255, 256, 257, 4095, 4096, 4097, 32767, 32768, 32769, 65535, 65536, 65537, 131071, 131072}
	for i, size := range sizes {
		if !harness.MyShare(i) {
			continue
		}
		for _, kind := range []string{"token", "position"} {
			for _, count := range []int{size - 1, size, size + 1, 2*size + 1} {
				if size > 40000 && count > size+1 && !harness.Thorough() {
					continue
				}
				record(kind, size, count)
				if m := runHistory(kind, size, count, false); m != "" {
					harness.Failf(t, "power-of-two-sizes", []byte(fmt.Sprintf("%s %d %d", kind, size, count)),
						map[string]string{"kind": kind, "size": fmt.Sprint(size), "count": fmt.Sprint(count)}, "%s", m)
					return
				}
			}
		}
	}
}

// Deep histories: a few hundred thousand requests for a spread of block sizes, so that a growth or
// recycling strategy that only changes late in a pool's life (after many blocks, or once a block
// reaches some maximum size) is still inside the explored range.
func TestDeepHistories(t *testing.T) {
	sizes := []int{1, 2, 3, 5, 7, 8, 16, 63, 64, 100, 1000, 1023, 1024, 1025, 4096, 10000, 16384, 65536}
	for i, size := range sizes {
		if !harness.MyShare(i) {
			continue
		}
		for _, kind := range []string{"token", "position"} {
			count := 300000
			if harness.Thorough() {
				count = 1500000
			}
			record(kind, size, count)
			harness.Class("deep-history")
			if m := runHistory(kind, size, count, false); m != "" {
				harness.Failf(t, "deep-history", []byte(fmt.Sprintf("%s %d %d", kind, size, count)),
					map[string]string{"kind": kind, "size": fmt.Sprint(size), "count": fmt.Sprint(count)}, "%s", m)
				return
			}
		}
	}
}

// Drawn sizes up to 8192 with counts crossing 0..6 block boundaries.
func TestDrawnSizes(t *testing.T) {
	harness.Check(t, "drawn-sizes", 400, 6000, func(rt *rapid.T) {
		kind := rapid.SampledFrom([]string{"token", "position"}).Draw(rt, "kind")
		size := rapid.OneOf(rapid.IntRange(1, 130), rapid.IntRange(1, 8192)).Draw(rt, "size")
		blocks := rapid.OneOf(rapid.IntRange(0, 6), rapid.IntRange(0, 40)).Draw(rt, "blocks")
		if blocks*size > 400000 {
			blocks = 400000 / size
		}
		off := rapid.IntRange(-2, 2).Draw(rt, "off")
		count := blocks*size + rapid.IntRange(0, size).Draw(rt, "rem") + off
		if count < 0 {
			count = 0
		}
		record(kind, size, count)
		if m := runHistory(kind, size, count, false); m != "" {
			harness.Fail(rt, "drawn-sizes", []byte(fmt.Sprintf("%s %d %d", kind, size, count)),
				map[string]string{"kind": kind, "size": fmt.Sprint(size), "count": fmt.Sprint(count)}, "%s", m)
		}
	})
}

// smState is the state-machine model: two pools of the same kind and block size used side by side
// (objects of different pools must be distinct too, and one pool's growth must not disturb the
// other's objects), every object with the stamp last written through it.
type smState struct {
	kind  string
	size  int
	pools [2]pool
	ptrs  []unsafe.Pointer
	model []int // stamp last written through ptrs[i]; 0 = never written
	seen  map[unsafe.Pointer]int
	next  int
	hist  string
}

func newSM(kind string, size int) *smState {
	return &smState{kind: kind, size: size, pools: [2]pool{newPool(kind, size), newPool(kind, size)}, seen: map[unsafe.Pointer]int{}, next: 1,
		hist: fmt.Sprintf("%s size=%d:", kind, size)}
}

// apply executes one operation ("get", "get0", "getB", "w<i>", "drop"); it returns a failure message or "".
func (m *smState) apply(op string) string {
	m.hist += " " + op
	switch {
	case op == "get" || op == "get0" || op == "getB":
		pl := m.pools[0]
		if op == "getB" {
			pl = m.pools[1]
		}
		q := pl.get()
		if q == nil {
			return m.hist + ": Get returned nil"
		}
		if j, dup := m.seen[q]; dup {
			return fmt.Sprintf("%s: Get returned the object of request #%d again", m.hist, j)
		}
		m.seen[q] = len(m.ptrs)
		m.ptrs = append(m.ptrs, q)
		if op == "get0" {
			// an object that is requested but not written yet must still be a new one
			m.model = append(m.model, 0)
		} else {
			pl.write(q, m.next)
			m.model = append(m.model, m.next)
			m.next++
		}
	case op == "drop":
		// the second pool is replaced by a fresh one (its objects stay referenced and valid, like the
		// tokens of a tree that outlives its parser)
		m.pools[1] = newPool(m.kind, m.size)
		runtime.GC()
	case len(op) > 1 && op[0] == 'w':
		var i int
		fmt.Sscan(op[1:], &i)
		if i < 0 || i >= len(m.ptrs) {
			return ""
		}
		m.pools[0].write(m.ptrs[i], m.next)
		m.model[i] = m.next
		m.next++
	}
	return m.check()
}

func (m *smState) check() string {
	for i, q := range m.ptrs {
		if m.model[i] == 0 {
			continue // never written: its content is unspecified
		}
		s, ok := m.pools[0].read(q)
		if !ok || s != m.model[i] {
			return fmt.Sprintf("%s: object #%d reads stamp %d (consistent=%v), model says %d", m.hist, i, s, ok, m.model[i])
		}
	}
	return ""
}

// State machine: interleave Get (on two pools), write-through-pointer, read-back, pool replacement.
func TestStateMachine(t *testing.T) {
	harness.Check(t, "state-machine", 1500, 40000, func(rt *rapid.T) {
		kind := rapid.SampledFrom([]string{"token", "position"}).Draw(rt, "kind")
		size := rapid.IntRange(1, 12).Draw(rt, "size")
		m := newSM(kind, size)
		step := func(op string) {
			if msg := m.apply(op); msg != "" {
				harness.Fail(rt, "state-machine", []byte(m.hist), map[string]string{"history": m.hist}, "%s", msg)
			}
		}
		usedB, dropped := false, false
		rt.Repeat(map[string]func(*rapid.T){
			"get":           func(rt *rapid.T) { step("get") },
			"get-untouched": func(rt *rapid.T) { step("get0") },
			"get-second-pool": func(rt *rapid.T) {
				usedB = true
				step("getB")
			},
			"replace-second-pool": func(rt *rapid.T) {
				if !usedB {
					rt.Skip("second pool unused")
				}
				dropped = true
				step("drop")
			},
			"write": func(rt *rapid.T) {
				if len(m.ptrs) == 0 {
					rt.Skip("nothing allocated")
				}
				step(fmt.Sprintf("w%d", rapid.IntRange(0, len(m.ptrs)-1).Draw(rt, "i")))
			},
			"": func(rt *rapid.T) {
				if msg := m.check(); msg != "" {
					harness.Fail(rt, "state-machine", []byte(m.hist), map[string]string{"history": m.hist}, "%s", msg)
				}
			},
		})
		harness.Eval()
		if len(m.ptrs) > size {
			harness.NonTrivial([]byte(m.hist), m.hist)
			harness.Class("sm_boundary_crossed")
		} else {
			harness.Class("sm_single_block")
		}
		if usedB {
			harness.Class("sm_two_pools")
		}
		if dropped {
			harness.Class("sm_pool_replaced")
		}
	})
}

func TestReplay(t *testing.T) {
	path := harness.ReplayPath()
	if path == "" {
		t.Skip("no VERIF_REPLAY")
	}
	v, _, err := harness.LoadReplay(path)
	if err != nil {
		t.Fatal(err)
	}
	var kind string
	var size, count int
	if h := v.Meta["history"]; h != "" {
		// "<kind> size=<n>: op op ..." as recorded by the state machine
		var size int
		f := strings.Fields(h)
		if len(f) < 2 {
			t.Skip("unreadable history")
		}
		fmt.Sscanf(f[1], "size=%d:", &size)
		m := newSM(f[0], size)
		for _, op := range f[2:] {
			harness.Eval()
			if msg := m.apply(op); msg != "" {
				harness.Failf(t, "state-machine", []byte(h), v.Meta, "%s", msg)
				return
			}
		}
		return
	}
	kind = v.Meta["kind"]
	fmt.Sscan(v.Meta["size"], &size)
	fmt.Sscan(v.Meta["count"], &count)
	if m := runHistory(kind, size, count, true); m != "" {
		harness.Failf(t, v.Check, nil, v.Meta, "%s", m)
	}
	_ = os.Stdout
}
