// C03 — Valid programs are accepted and yield the tree PHP's grammar prescribes.
package c03

import (
	"fmt"
	"testing"

	"pgregory.net/rapid"

	"verif/astx"
	"verif/harness"
	"verif/phpgen"
	"verif/px"
)

func TestMain(m *testing.M) { harness.Main(m, "C03") }

func optsFor(v px.Ver) phpgen.Options {
	return phpgen.Options{PHP7: !v.IsPHP5(), Flexible: v.Flexible(), RandomCase: true, NoEmptyHeredoc73: true, NoBinaryPrefixSingle: true, NoLoneCR: true, NoPHP5Goto: true, NoPHP5NewChain: true, NoEncapsedVarDim: true, MaxDepth: 3}
}

func meta(v px.Ver) map[string]string { return map[string]string{"version": v.String()} }

func TestGenerated(t *testing.T) {
	harness.Check(t, "generated", 40000, 1500000, func(rt *rapid.T) {
		v := rapid.SampledFrom(px.KeyVersions).Draw(rt, "version")
		g := phpgen.New(rt, optsFor(v))
		root := g.Program(1, 4)
		lay := g.Render(root, phpgen.Policy{Kind: phpgen.PolicySpace})
		src := lay.Src
		r := px.Parse(src, v, true)
		harness.Eval()
		if r.Panic != "" {
			harness.Fail(rt, "panic", src, meta(v), "panic: %s", r.Panic)
		}
		if len(r.Errs) > 0 {
			harness.Fail(rt, "valid-rejected", src, meta(v), "[%s] valid program rejected: %s\nsource: %q", v, px.ErrString(r.Errs), src)
		}
		if r.Root == nil {
			harness.Fail(rt, "nil-root", src, meta(v), "[%s] no errors but nil root", v)
		}
		if d := astx.Equal(r.Root, root, astx.Structure); d != "" {
			harness.Fail(rt, "tree", src, meta(v), "[%s] parsed tree differs from the generator's derivation (parsed vs model): %s\nsource: %q", v, d, src)
		}
		if d := astx.Equal(r.Root, root, astx.WithTokens|astx.WithPositions); d != "" {
			harness.Fail(rt, "tokens", src, meta(v), "[%s] parsed tokens/positions differ from the generator's (parsed vs model): %s\nsource: %q", v, d, src)
		}
		for k, n := range g.Feat {
			harness.ClassN(k, n)
		}
		if g.Feat["operators-adjacent-unbracketed"] >= 2 || g.Feat["dangling-else-nearest"] > 0 || g.Feat["keyword-case"] > 0 || g.Feat["alt-syntax"] > 1 {
			harness.NonTrivial(src, fmt.Sprintf("[%s] %q", v, src))
		}
	})
}
