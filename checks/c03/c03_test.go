// C03 — Valid programs are accepted and yield the tree PHP's grammar prescribes.
package c03

import (
	"fmt"
	"strings"
	"testing"

	"github.com/z7zmey/php-parser/pkg/ast"
	"pgregory.net/rapid"

	"verif/astx"
	"verif/harness"
	"verif/phpgen"
	"verif/progs"
	"verif/px"
)

func TestMain(m *testing.M) { harness.Main(m, "C03") }

func optsFor(v px.Ver) phpgen.Options { return progs.Options(v) }

func meta(v px.Ver) map[string]string { return map[string]string{"version": v.String()} }

// metaShape adds the structure the generator derived (kinds, roles, values), so that a recorded tree
// mismatch can be replayed from the replay file alone.
func metaShape(v px.Ver, model ast.Vertex) map[string]string {
	return map[string]string{"version": v.String(), "expected_shape": astx.Shape(model)}
}

func TestGenerated(t *testing.T) {
	harness.Check(t, "generated", 40000, 1500000, func(rt *rapid.T) {
		v := rapid.SampledFrom(px.KeyVersions).Draw(rt, "version")
		g := phpgen.New(rt, optsFor(v))
		root := g.Program(1, 4)
		lay := g.Render(root, phpgen.Policy{Kind: phpgen.PolicySpace})
		src := lay.Src
		r := px.Parse(src, v, true)
		harness.Eval()
		if r.Panic != "" {
			harness.Fail(rt, "panic", src, meta(v), "panic: %s", r.Panic)
		}
		if len(r.Errs) > 0 {
			harness.Fail(rt, "valid-rejected", src, meta(v), "[%s] valid program rejected: %s\nsource: %q", v, px.ErrString(r.Errs), src)
		}
		if r.Root == nil {
			harness.Fail(rt, "nil-root", src, meta(v), "[%s] no errors but nil root", v)
		}
		if d := astx.Equal(r.Root, root, astx.Structure); d != "" {
			harness.Fail(rt, "tree", src, metaShape(v, root), "[%s] parsed tree differs from the generator's derivation (parsed vs model): %s\nsource: %q", v, d, src)
		}
		if d := astx.Equal(r.Root, root, astx.WithTokens|astx.WithPositions); d != "" {
			harness.Fail(rt, "tokens", src, meta(v), "[%s] parsed tokens/positions differ from the generator's (parsed vs model): %s\nsource: %q", v, d, src)
		}
		(&progs.Case{G: g, Root: root, Ver: v}).Report()
		// twin rendering: every operand in parentheses; the grouping no longer depends on
		// precedence, so a disagreement here that is absent above would point at the
		// generator's precedence table rather than at the parser
		if added := g.BracketAll(root); added > 0 {
			tw := g.Render(root, phpgen.Policy{Kind: phpgen.PolicySpace}).Src
			tr := px.Parse(tw, v, true)
			harness.Eval()
			if tr.Panic == "" {
				if len(tr.Errs) > 0 || tr.Root == nil {
					harness.Fail(rt, "twin-rejected", tw, meta(v), "[%s] fully bracketed twin of a valid program rejected: %s\nsource: %q", v, px.ErrString(tr.Errs), tw)
				}
				if d := astx.Equal(phpgen.StripBrackets(tr.Root), phpgen.StripBrackets(astx.Clone(r.Root)), astx.Structure); d != "" {
					harness.Fail(rt, "twin-grouping", tw, meta(v), "[%s] the fully bracketed twin and the minimally bracketed program parse to different groupings (twin vs original, brackets removed): %s\ntwin: %q\noriginal: %q", v, d, tw, src)
				}
				harness.Class("twin-rendering")
			}
		}
		if g.Feat["operators-adjacent-unbracketed"] >= 2 || g.Feat["dangling-else-nearest"] > 0 || g.Feat["keyword-case"] > 0 || g.Feat["alt-syntax"] > 1 {
			harness.NonTrivial(src, fmt.Sprintf("[%s] %q", v, src))
		}
	})
}

// php7Only: constructs PHP 5.6 does not have. Each must be accepted under every 7.x version and rejected under every 5.x version.
var php7Only = []string{
	"<?php $a = $b ?? $c;", "<?php $a = $b <=> $c;", "<?php function f(): int { return 1; }", "<?php $o = new class { };", "<?php use A\\{B, C};",
	"<?php function g() { yield from $a; }", "<?php $f = fn($x) => $x + 1;", "<?php class A { public int $x; }", "<?php [$a, $b] = $c;", "<?php class A { public const X = 1; }",
	"<?php try { } catch (A | B $e) { }", "<?php function f(?int $a) { }", "<?php $a ??= 1;", "<?php $a = [...$b];", "<?php function f(int ...$a): ?A { }",
	"<?php foo(1, 2,);", "<?php list('k' => $a) = $b;", "<?php (function() { })();", "<?php $x = (clone $a)->b;",
	"<?php function f(): void {} ", "<?php use function A\\{b, c};", "<?php static fn() => 1;", "<?php class A { function list() {} }", "<?php $a->class::X;",
}

func TestVersionGating(t *testing.T) {
	if harness.Shard() != 0 {
		t.Skip("shard 0 only")
	}
	for _, s := range php7Only {
		src := []byte(s)
		for _, v := range px.AllVersions {
			r := px.Parse(src, v, true)
			harness.Eval()
			if r.Panic != "" {
				continue
			}
			if v.IsPHP5() && len(r.Errs) == 0 {
				harness.Failf(t, "php7-only-accepted-under-5", src, meta(v), "[%s] PHP 7-only syntax is accepted silently under a PHP 5 version: %q", v, s)
			}
			if !v.IsPHP5() && len(r.Errs) > 0 {
				harness.Failf(t, "php7-construct-rejected", src, meta(v), "[%s] valid PHP 7 program rejected: %q: %s", v, s, px.ErrString(r.Errs))
			}
		}
		harness.NonTrivial(src, "[version gating] "+s)
		harness.Class("gating:php7-only")
	}
}

// php7OnlyFeatures: generator features that PHP 5.6's grammar does not have (a program that uses one
// is not a PHP 5 program). Lexical novelties the shared lexer cannot gate (numeric separators) and
// the regroupings of the uniform-variable-syntax RFC are deliberately not in the list.
var php7OnlyFeatures = []string{"op:??", "op:<=>", "op:??=", "arrow-function", "yield-from", "nullable-type", "group-use", "anonymous-class", "return-type",
	"typed-property", "const-visibility", "multi-catch", "list-short", "list-keyed", "array-spread", "trailing-comma", "semi-reserved-member"}

// TestGeneratedVersionGating: the negative direction of the version clause on generated programs —
// a program of the PHP 7 family that uses at least one PHP 7-only construct, wherever it is nested,
// must be reported under every 5.x version (and is accepted under its own, which TestGenerated checks).
func TestGeneratedVersionGating(t *testing.T) {
	harness.Check(t, "generated-gating", 12000, 400000, func(rt *rapid.T) {
		// PHP 7 family without the >= 7.3 heredoc terminators: under an older version a flexibly
		// terminated heredoc simply runs on, and what follows (PHP 7 syntax included) is body text
		g := phpgen.New(rt, optsFor(px.V72))
		root := g.Program(1, 3)
		var used []string
		for _, f := range php7OnlyFeatures {
			if g.Feat[f] > 0 {
				used = append(used, f)
			}
		}
		if len(used) == 0 {
			harness.Class("gating:no-php7-only-construct-drawn")
			return
		}
		lay := g.Render(root, phpgen.Policy{Kind: phpgen.PolicySpace})
		if !lay.LegacyHeredocOK {
			return
		}
		src := append([]byte{}, lay.Src...)
		if r := px.Parse(append([]byte{}, src...), px.V72, true); r.Panic != "" || len(r.Errs) > 0 {
			return // TestGenerated's business
		}
		v := rapid.SampledFrom([]px.Ver{{Major: 5, Minor: 0}, {Major: 5, Minor: 3}, {Major: 5, Minor: 4}, {Major: 5, Minor: 5}, px.V56}).Draw(rt, "php5version")
		r := px.Parse(src, v, true)
		harness.Eval()
		if r.Panic != "" {
			return
		}
		if len(r.Errs) == 0 {
			harness.Fail(rt, "php7-only-accepted-under-5", src, meta(v), "[%s] a program that uses PHP 7-only syntax (%s) is accepted without any error under a PHP 5 version\nsource: %q", v, strings.Join(used, ", "), src)
		}
		for _, f := range used {
			harness.Class("gating:generated:" + f)
		}
		harness.NonTrivial(src, fmt.Sprintf("[%s must reject: %s] %q", v, strings.Join(used, ", "), src))
	})
}

// TestFlexibleHeredoc: a heredoc terminated only by a flexible (indented or
// not newline-followed) closing label parses to the expected tree under 7.3
// and 7.4 and is rejected under every earlier version.
func TestFlexibleHeredoc(t *testing.T) {
	harness.Check(t, "flexible-heredoc", 3000, 100000, func(rt *rapid.T) {
		label := rapid.SampledFrom([]string{"EOT", "X", "_L1", "HTML"}).Draw(rt, "label")
		nowdoc := rapid.Bool().Draw(rt, "nowdoc")
		indent := rapid.SampledFrom([]string{"", "", "  ", "\t", " "}).Draw(rt, "indent")
		follow := rapid.SampledFrom([]string{";\n", ", 1);\n", ");\n", " . 'x';\n", "; echo 2;\n", ";", " ;\n"}).Draw(rt, "follow")
		lines := rapid.SliceOfN(rapid.SampledFrom([]string{"hello", "a b", "x" + label, label + "1 y", "", "é", "$", "  deeper"}), 1, 3).Draw(rt, "lines")
		nl := rapid.SampledFrom([]string{"\n", "\r\n"}).Draw(rt, "nl")
		open := "<<<" + label
		if nowdoc {
			open = "<<<'" + label + "'"
		}
		body := ""
		for _, l := range lines {
			body += indent + l + nl
		}
		call := "$a = "
		if follow == ", 1);\n" || follow == ");\n" {
			call = "foo("
		}
		src := []byte("<?php " + call + open + nl + body + indent + label + follow)
		flexOnly := indent != "" || (follow != ";\n" && follow != ";")
		if !flexOnly {
			return
		}
		for _, v := range px.AllVersions {
			r := px.Parse(src, v, true)
			harness.Eval()
			if r.Panic != "" {
				continue
			}
			if v.Flexible() {
				if len(r.Errs) > 0 {
					harness.Fail(rt, "flexible-heredoc-rejected", src, meta(v), "[%s] heredoc with a flexible closing label rejected: %s\nsource: %q", v, px.ErrString(r.Errs), src)
				}
				var parts []string
				astx.Walk(r.Root, func(n ast.Vertex, _ string) bool {
					if h, ok := n.(*ast.ScalarHeredoc); ok {
						for _, p := range h.Parts {
							if sp, ok := p.(*ast.ScalarEncapsedStringPart); ok {
								parts = append(parts, string(sp.Value))
							}
						}
					}
					return true
				})
				if got := strings.Join(parts, ""); !nowdoc && strings.Contains(body, "$") {
					_ = got
				} else if got != body+indent {
					harness.Fail(rt, "flexible-heredoc-body", src, meta(v), "[%s] heredoc body is %q, expected %q\nsource: %q", v, got, body+indent, src)
				}
			} else if len(r.Errs) == 0 {
				harness.Fail(rt, "flexible-heredoc-accepted-early", src, meta(v), "[%s] a heredoc that is terminated only by a flexible (>= 7.3) closing label is accepted silently\nsource: %q", v, src)
			}
		}
		harness.NonTrivial(src, fmt.Sprintf("[flexible heredoc] %q", src))
		harness.Class("gating:flexible-heredoc")
	})
}

// known findings of this property: inputs that are valid PHP and must (still) be rejected or mis-parsed.
var knownInputs = []struct {
	id, src string
	ver     px.Ver
}{
	{"binary-prefix-single-quote", "<?php echo b'x';", px.V74},
	{"lone-cr-newline", "<?php echo 1;\recho 2;", px.V74},
	{"lone-cr-newline", "<?php\recho 2;", px.V56},
	{"empty-heredoc-73", "<?php <<<A\nA;\n", px.V74},
	{"uppercase-number-prefix", "<?php echo 0X1F, 0B11;", px.V74},
}

func TestKnownFindings(t *testing.T) {
	if harness.Shard() != 0 {
		t.Skip("shard 0 only")
	}
	for _, k := range knownInputs {
		r := px.Parse([]byte(k.src), k.ver, true)
		harness.Eval()
		if len(r.Errs) == 0 && r.Panic == "" {
			harness.Note("finding %s no longer reproduces: %q now parses without errors under %s", k.id, k.src, k.ver)
			continue
		}
		if !harness.KnownSeen(k.id) {
			harness.Failf(t, "valid-rejected", []byte(k.src), meta(k.ver), "[%s] valid program rejected (not listed as an open finding): %q: %s", k.ver, k.src, px.ErrString(r.Errs))
		}
	}
}

// fixedTrees: hand-derived expectations for programs behind repaired defects (regression cases). The
// fragments must appear in this order in the tree's shape rendering (kind, role, value per line).
var fixedTrees = []struct {
	src   string
	vers  []px.Ver
	frags []string
}{
	// PHP: only "0" and decimal numbers without a leading zero are integer keys in "$a[...]" (1c70be3)
	{"<?php echo \"$a[01] $a[00] $a[0] $a[10] $a[007]\";", []px.Ver{px.V56, px.V74},
		[]string{`Dim: ScalarString "01"`, `Dim: ScalarString "00"`, `Dim: ScalarLnumber "0"`, `Dim: ScalarLnumber "10"`, `Dim: ScalarString "007"`}},
	{"<?php echo \"$a[-0] $a[-01] $a[-1] $a[-10]\";", []px.Ver{px.V74},
		[]string{`Dim: ScalarString "-0"`, `Dim: ScalarString "-01"`, `Dim: ExprUnaryMinus`, `Expr: ScalarLnumber "1"`, `Dim: ExprUnaryMinus`, `Expr: ScalarLnumber "10"`}},
	// "$a->b->c": one property, then literal text (e08121b)
	{"<?php \"$a->b->c $d[1]->g\";", []px.Ver{px.V56, px.V74},
		[]string{`ExprPropertyFetch`, `Prop: Identifier "b"`, `ScalarEncapsedStringPart "->c "`, `ExprArrayDimFetch`, `ScalarEncapsedStringPart "->g"`}},
	// odd backslash runs (5405aeb)
	{"<?php \"\\\\\\$a $b\";", []px.Ver{px.V56, px.V74}, []string{`ScalarEncapsedStringPart "\\\\\\$a "`, `Identifier "$b"`}},
}

func TestFixedTrees(t *testing.T) {
	if harness.Shard() != 0 {
		t.Skip("shard 0 only")
	}
	for _, fc := range fixedTrees {
		for _, v := range fc.vers {
			src := []byte(fc.src)
			r := px.Parse(src, v, true)
			harness.Eval()
			if r.Panic != "" || len(r.Errs) > 0 || r.Root == nil {
				harness.Failf(t, "fixed/valid-rejected", src, meta(v), "[%s] valid program rejected: %s%s: %q", v, r.Panic, px.ErrString(r.Errs), fc.src)
				continue
			}
			shape := astx.Shape(r.Root)
			rest := shape
			for _, f := range fc.frags {
				i := strings.Index(rest, f)
				if i < 0 {
					harness.Failf(t, "fixed/tree", src, meta(v), "[%s] %q: the tree does not contain %q (after the preceding expected nodes); tree:\n%s", v, fc.src, f, shape)
					break
				}
				rest = rest[i+len(f):]
			}
			harness.NonTrivial([]byte(v.String()+fc.src), fmt.Sprintf("[fixed tree, %s] %q", v, fc.src))
		}
	}
}

func TestReplay(t *testing.T) {
	path := harness.ReplayPath()
	if path == "" {
		t.Skip("no VERIF_REPLAY")
	}
	vi, src, err := harness.LoadReplay(path)
	if err != nil {
		t.Fatal(err)
	}
	for _, v := range px.AllVersions {
		if vi.Meta["version"] != "" && vi.Meta["version"] != v.String() {
			continue
		}
		r := px.Parse(src, v, true)
		harness.Eval()
		if r.Panic != "" || len(r.Errs) > 0 {
			harness.Failf(t, vi.Check, src, meta(v), "[%s] the recorded program is (still) rejected: %s%s", v, r.Panic, px.ErrString(r.Errs))
			return
		}
		if want := vi.Meta["expected_shape"]; want != "" {
			if got := astx.Shape(r.Root); got != want {
				lw, lg := strings.Split(want, "\n"), strings.Split(got, "\n")
				d := fmt.Sprintf("%d vs %d lines", len(lw), len(lg))
				for i := 0; i < len(lw) && i < len(lg); i++ {
					if lw[i] != lg[i] {
						d = fmt.Sprintf("line %d: expected %q, parsed %q", i, strings.TrimSpace(lw[i]), strings.TrimSpace(lg[i]))
						break
					}
				}
				harness.Failf(t, vi.Check, src, vi.Meta, "[%s] the recorded program (still) parses to a different tree than the generator derived: %s", v, d)
				return
			}
		}
	}
}

// TestOperatorNests: the exhaustive operator-nest enumeration (phpgen/opnest.go) — every operator
// inside every operand position of every operator (and every triple inside the fusion families; all
// triples in the thorough tier), rendered with only the mandatory separators and with single spaces.
// Each rendering must parse to the enumerated tree: this is the precedence / associativity clause on
// the complete operator-pair matrix instead of a sample of it.
func TestOperatorNests(t *testing.T) {
	for _, v := range []px.Ver{px.V74, px.V56} {
		failed := false
		progs.EachNest(v, false, func(name string, build func() *progs.NestProgram) bool {
			for _, kind := range []phpgen.PolicyKind{phpgen.PolicyMinimal, phpgen.PolicySpace} {
				np := build()
				if np == nil {
					return true
				}
				src := np.G.Render(np.Root, phpgen.Policy{Kind: kind}).Src
				r := px.Parse(src, v, true)
				harness.Eval()
				harness.Class("operator-nest")
				nestShape := ""
				fail := func(clause, format string, a ...interface{}) bool {
					m := meta(v)
					if nestShape != "" {
						m["expected_shape"] = nestShape
					}
					harness.Failf(t, "operator-nests/"+clause, src, m, "[%s] %s: %s\nsource: %q", v, name, fmt.Sprintf(format, a...), src)
					failed = true
					return false
				}
				if r.Panic != "" {
					return fail("panic", "panic: %s", r.Panic)
				}
				if len(r.Errs) > 0 || r.Root == nil {
					return fail("valid-rejected", "valid expression rejected: %s", px.ErrString(r.Errs))
				}
				if d := astx.Equal(r.Root, np.Root, astx.Structure); d != "" {
					nestShape = astx.Shape(np.Root)
					return fail("tree", "parsed tree differs from the enumerated one (parsed vs model): %s", d)
				}
				if d := astx.Equal(r.Root, np.Root, astx.WithTokens|astx.WithPositions); d != "" {
					return fail("tokens", "parsed tokens/positions differ from the model's: %s", d)
				}
				harness.NonTrivial([]byte(v.String()+name+fmt.Sprint(kind)), fmt.Sprintf("[%s] %s: %q", v, name, src))
			}
			return true
		})
		if failed {
			return
		}
	}
}
