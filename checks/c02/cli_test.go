package c02

import (
	"bytes"
	"fmt"
	"sort"
	"testing"
	"time"

	"pgregory.net/rapid"

	"verif/cli"
	"verif/harness"
	"verif/inputs"
	"verif/phpgen"
	"verif/progs"
	"verif/px"
)

// TestCLIPrintBack: the property's second observation point, `php-parser -pb`, which parses every
// .php file below a directory on GOMAXPROCS workers and writes the printed tree back into the file.
// A directory of generated programs (plus error-free byte-level inputs, nested directories, files
// that are not .php) must be byte-for-byte unchanged afterwards.
func TestCLIPrintBack(t *testing.T) {
	bin := cli.Path()
	if bin == "" {
		t.Skip("no command-line binary (VERIF_CLI)")
	}
	harness.Check(t, "cli-print-back", 160, 5000, func(rt *rapid.T) {
		v := rapid.SampledFrom(px.KeyVersions).Draw(rt, "version")
		n := rapid.IntRange(1, 24).Draw(rt, "files")
		files := map[string][]byte{}
		php := 0
		for i := 0; i < n; i++ {
			var src []byte
			if rapid.IntRange(0, 4).Draw(rt, "bytelevel") == 0 {
				src, _ = inputs.Any(rt)
			} else {
				c := progs.Draw(rt, v, progs.StructuralOptions(v), 1, 4)
				pol := progs.Policy(rt, phpgen.PolicyFull, nil)
				pol.Shebang = rapid.IntRange(0, 5).Draw(rt, "shebang") == 0
				src = append([]byte{}, c.G.Render(c.Root, pol).Src...)
			}
			// the property speaks about sources that parse without a reported error
			r := px.Parse(append([]byte{}, src...), v, true)
			if r.Panic != "" || r.Root == nil || len(r.Errs) > 0 {
				continue
			}
			// the in-process round trip is the main check's business (incl. the open finding
			// empty-heredoc-73); here the tool must reproduce what the library does
			var out []byte
			if p := px.Guard(func() { out = px.Print(r.Root) }); p != "" || !bytes.Equal(out, src) {
				harness.Excluded("cli: in-process round trip already differs")
				continue
			}
			dir := rapid.SampledFrom([]string{"", "", "sub/", "sub/deeper/", "other dir/"}).Draw(rt, "dir")
			files[fmt.Sprintf("%sf%02d.php", dir, i)] = src
			php++
		}
		// bystanders: not .php (the extension test is exact), must not be touched
		files["notes.txt"] = []byte("<?php echo   1 ;  // not a php file\n")
		files["sub/upper.PHP"] = []byte("<?php echo   2 ;\n")
		files["template.php.bak"] = []byte("<?= $x ?>")
		mt := map[string]string{"version": v.String(), "files": fmt.Sprint(php)}
		var names []string
		for k := range files {
			names = append(names, k)
		}
		sort.Strings(names)
		first := []byte{}
		if len(names) > 0 {
			first = files[names[0]]
		}
		clause, msg, culprit, skip := printBack(bin, files, v)
		if skip {
			rt.Skip("scratch directory or binary unavailable")
		}
		harness.EvalN(php)
		if clause != "" {
			mt["tree"] = cli.EncodeTree(files)
			harness.Fail(rt, clause, culprit, mt, "%s", msg)
		}
		if php >= 8 {
			harness.NonTrivial(append([]byte(v.String()), first...), fmt.Sprintf("[%s] php-parser -pb over %d files in nested directories; first: %q", v, php, trunc(first, 160)))
		}
		harness.Class("cli-print-back")
	})
}

// printBack writes the files to a scratch directory, runs `php-parser -pb` over it and compares.
func printBack(bin string, files map[string][]byte, v px.Ver) (clause, msg string, culprit []byte, skip bool) {
	dir, clean, err := cli.TempDir("c02-pb-")
	if err != nil {
		return "", "", nil, true
	}
	defer clean()
	if err := cli.WriteTree(dir, files); err != nil {
		return "", "", nil, true
	}
	res := cli.Run(bin, dir, 120*time.Second, nil, "-pb", "-phpver", v.String(), dir)
	var names []string
	for k := range files {
		names = append(names, k)
	}
	sort.Strings(names)
	first := []byte{}
	if len(names) > 0 {
		first = files[names[0]]
	}
	if res.Err != nil {
		return "", "", nil, true
	}
	if res.TimedOut {
		return "cli-hang", fmt.Sprintf("[%s] php-parser -pb did not finish within 120 s on %d small files", v, len(files)), first, false
	}
	if res.Exit != 0 {
		return "cli-exit", fmt.Sprintf("[%s] php-parser -pb exits with status %d on error-free files: %s", v, res.Exit, trunc(res.Stderr, 600)), first, false
	}
	after, err := cli.ReadTree(dir)
	if err != nil {
		return "", "", nil, true
	}
	for _, k := range names {
		got, ok := after[k]
		if !ok {
			return "cli-file-lost", fmt.Sprintf("[%s] file %s no longer exists after php-parser -pb", v, k), files[k], false
		}
		if !bytes.Equal(got, files[k]) {
			i := firstDiff(got, files[k])
			return "cli-roundtrip", fmt.Sprintf("[%s] php-parser -pb changed file %s (one of %d) at offset %d: source ...%q..., written back ...%q... (%d vs %d bytes)", v, k, len(files), i, around(files[k], i), around(got, i), len(files[k]), len(got)), files[k], false
		}
	}
	if len(after) != len(files) {
		return "cli-extra-file", fmt.Sprintf("[%s] php-parser -pb left %d files where there were %d", v, len(after), len(files)), first, false
	}
	return "", "", nil, false
}
