// C02 — Parse then print reproduces the source byte for byte.
package c02

import (
	"bytes"
	"fmt"
	"os"
	"testing"

	"pgregory.net/rapid"

	"verif/astx"
	"verif/cli"
	"verif/harness"
	"verif/inputs"
	"verif/oracle"
	"verif/phpgen"
	"verif/progs"
	"verif/px"
)

func TestMain(m *testing.M) { harness.Main(m, "C02") }

func meta(v px.Ver) map[string]string { return map[string]string{"version": v.String()} }

func firstDiff(a, b []byte) int {
	n := len(a)
	if len(b) < n {
		n = len(b)
	}
	for i := 0; i < n; i++ {
		if a[i] != b[i] {
			return i
		}
	}
	return n
}

func around(b []byte, i int) []byte {
	lo, hi := i-20, i+20
	if lo < 0 {
		lo = 0
	}
	if hi > len(b) {
		hi = len(b)
	}
	return b[lo:hi]
}

// checkOne: returns clause, message, inDomain.
func checkOne(src []byte, v px.Ver) (string, string, bool) {
	r := px.Parse(src, v, true)
	if r.Panic != "" || r.Root == nil || len(r.Errs) > 0 {
		return "", "", false
	}
	harness.Eval()
	var out []byte
	if p := px.Guard(func() { out = px.Print(r.Root) }); p != "" {
		return "printer-panic", fmt.Sprintf("[%s] printer panicked: %s", v, p), true
	}
	// "the original bytes" are what the buffer held before the parse (token values alias it)
	src = harness.Pristine(src)
	if bytes.Equal(out, src) {
		return "", "", true
	}
	// known finding: empty heredoc under >= 7.3 loses bytes of the closing label (lexer)
	tr := oracle.CheckTokens(src, r.Root, true, v.Flexible())
	for _, k := range tr.Known {
		if k == oracle.KnownEmptyHeredoc73 {
			if harness.KnownSeen(k) {
				harness.Excluded("tolerated:" + k)
				return "", "", true
			}
		}
	}
	i := firstDiff(out, src)
	where := "printer (the tree's tokens render to the source, the printer's output differs)"
	if !bytes.Equal(astx.Render(r.Root), src) {
		where = "parser/lexer (the tokens reachable from the tree do not render to the source)"
	}
	return "roundtrip", fmt.Sprintf("[%s] printed text differs from the source at offset %d: source ...%q..., printed ...%q... (%d vs %d bytes); fault is in the %s", v, i, around(src, i), around(out, i), len(src), len(out), where), true
}

func TestCorpusReplay(t *testing.T) {
	if harness.Shard() != 0 {
		t.Skip("shard 0 only")
	}
	for _, f := range harness.CorpusFiles("C02") {
		src, _ := os.ReadFile(f)
		for _, v := range px.KeyVersions {
			if c, m, _ := checkOne(src, v); c != "" {
				harness.Failf(t, c, src, meta(v), "%s [corpus file %s]", m, f)
			}
		}
	}
}

func nontrivial(src []byte, lay *phpgen.Layout, v px.Ver, class string) {
	k := 0
	if lay != nil {
		if lay.Comments > 0 {
			k++
		}
		if lay.Tokens > 1024 {
			k++
		}
	} else if bytes.Contains(src, []byte("/*")) || bytes.Contains(src, []byte("//")) || bytes.Contains(src, []byte("#")) {
		k++
	}
	if bytes.IndexByte(src, '\r') >= 0 {
		k++
	}
	if bytes.Contains(src, []byte("?>")) {
		k++
	}
	if bytes.Contains(src, []byte("<<<")) || bytes.Contains(src, []byte("{$")) || bytes.Contains(src, []byte("\"$")) {
		k++
	}
	if k >= 2 {
		harness.NonTrivial(append([]byte(v.String()), src...), fmt.Sprintf("[%s %s] %q", v, class, trunc(src, 300)))
	}
}

func trunc(b []byte, n int) []byte {
	if len(b) > n {
		return b[:n]
	}
	return b
}

func TestGeneratedPrograms(t *testing.T) {
	harness.Check(t, "programs", 40000, 1500000, func(rt *rapid.T) {
		v := rapid.SampledFrom(px.KeyVersions).Draw(rt, "version")
		o := progs.StructuralOptions(v)
		o.LeadHTML = progs.Padding(rt)
		c := progs.Draw(rt, v, o, 1, 4)
		kind := rapid.SampledFrom([]phpgen.PolicyKind{phpgen.PolicyMinimal, phpgen.PolicySpace, phpgen.PolicyWhitespace, phpgen.PolicyFull, phpgen.PolicyFull}).Draw(rt, "policy")
		excl := 0
		pol := progs.Policy(rt, kind, &excl)
		pol.Shebang = len(o.LeadHTML) == 0 && !harness.FindingOpen("printer-shebang-open-tag") && rapid.IntRange(0, 9).Draw(rt, "shebang") == 0
		lay := c.G.Render(c.Root, pol)
		src := lay.Src
		harness.Class("src=generated")
		cl, m, ok := checkOne(src, v)
		if !ok {
			harness.Fail(rt, "valid-rejected", src, meta(v), "[%s] generated valid program did not parse without errors\nsource: %q", v, src)
		}
		if cl != "" {
			harness.Fail(rt, cl, src, meta(v), "%s\nsource: %q", m, src)
		}
		c.Report()
		nontrivial(src, lay, v, "generated")
	})
}

// TestLargePrograms: more than two 1024-entry pool blocks of tokens and positions.
func TestLargePrograms(t *testing.T) {
	harness.Check(t, "large", 150, 6000, func(rt *rapid.T) {
		v := rapid.SampledFrom([]px.Ver{px.V56, px.V74}).Draw(rt, "version")
		o := progs.StructuralOptions(v)
		o.NoHalt = true
		c := progs.Draw(rt, v, o, 120, 200)
		lay := c.G.Render(c.Root, progs.Policy(rt, phpgen.PolicyFull, nil))
		src := lay.Src
		harness.Class("src=large")
		cl, m, ok := checkOne(src, v)
		if !ok {
			harness.Fail(rt, "valid-rejected", src, meta(v), "[%s] generated valid large program did not parse without errors", v)
		}
		if cl != "" {
			harness.Fail(rt, cl, src, meta(v), "%s", m)
		}
		if lay.Tokens > 2500 {
			harness.Class("tokens>2500")
		}
		nontrivial(src, lay, v, "large")
	})
}

func TestByteLevel(t *testing.T) {
	harness.Check(t, "byte-level", 80000, 3000000, func(rt *rapid.T) {
		src, class := inputs.Any(rt)
		v := rapid.SampledFrom(px.KeyVersions).Draw(rt, "version")
		cl, m, ok := checkOne(src, v)
		if !ok {
			harness.Class("rejected-input(not in domain)")
			return
		}
		harness.Class("src=" + class)
		if cl != "" {
			harness.Fail(rt, cl, src, meta(v), "%s", m)
		}
		nontrivial(src, nil, v, class)
	})
}

func TestReplay(t *testing.T) {
	path := harness.ReplayPath()
	if path == "" {
		t.Skip("no VERIF_REPLAY")
	}
	vi, src, err := harness.LoadReplay(path)
	if err != nil {
		t.Fatal(err)
	}
	if tree := cli.DecodeTree(vi.Meta["tree"]); tree != nil && cli.Path() != "" {
		// a command-line case: the whole recorded directory goes through `php-parser -pb` again
		var v px.Ver
		fmt.Sscanf(vi.Meta["version"], "%d.%d", &v.Major, &v.Minor)
		harness.EvalN(len(tree))
		if c, m, culprit, skip := printBack(cli.Path(), tree, v); c != "" && !skip {
			harness.Failf(t, "cli-print-back/"+c, culprit, vi.Meta, "%s", m)
		}
		return
	}
	for _, v := range px.AllVersions {
		if vi.Meta["version"] != "" && vi.Meta["version"] != v.String() {
			continue
		}
		if c, m, _ := checkOne(src, v); c != "" {
			harness.Failf(t, c, src, meta(v), "%s", m)
			return
		}
	}
}
