#!/usr/bin/env python3
"""Regenerates MANIFEST.json from the table below (single source of truth for the interface)."""
import json, os
ROOT = os.path.dirname(os.path.abspath(__file__))

C = {}
def add(pid, technique, text, note):
    C[pid] = dict(technique=technique, text=text, note=note, ref="DESIGN.md §2 " + pid)

add("C01", "property-based testing (rapid) over byte-level generators + exhaustive prefix enumeration of the repository's snippets; oracle: no panic / returns under watchdog / err == nil / input buffer unchanged / nothing written to stdout, stderr or the logger; exhaustive sweep of every single fragment repeated in every lexical context plus drawn repetition shapes, measured in thread CPU time at up to three sizes, for the proportional-time clause; thorough adds native go test -fuzz",
    "Exploration: every byte prefix of every repository test snippet with hostile tails, hundreds of thousands of mutated / dictionary-soup / random inputs x versions x {callback, nil}, PHP 5 semantic-error programs without callback, an exhaustive sweep (34 lexical contexts x ~330 single fragments repeated to 96 KiB; one version per pair in quick, three in thorough) and a generated search for super-linear behaviour (drawn lexical context x drawn repeated unit of 1-3 fragments x optional nesting, 24/96/384 KiB, CPU-time ratios) plus ~35 fixed shapes up to 1 MiB. No proof of absence.",
    "Proportional time is decided by growth ratios of thread CPU time on repetition shapes (violation: > 10x for 4x the input at two consecutive size steps), so polynomial blow-ups are found but a large constant factor is not; inputs > 1 MiB are not explored; hangs are detected by a 20 s watchdog. One scaling finding is open (unterminated-opener-rescan) and its trigger is excluded from the search by an input pre-filter (counted).")
add("C02", "property-based testing (rapid): grammar-based program generator with drawn trivia + byte-level inputs (incl. file heads such as byte order marks); round-trip oracle print(parse(src)) == src, with an independent token render to localise faults; the same oracle through the command-line tool (php-parser -pb over generated directories)",
    "Exploration: generated programs of both families under four trivia policies incl. CRLF, comments, shebang, close tags, heredocs, > 2 pool blocks; error-free byte-level inputs; directories of 1-24 generated files written back by `php-parser -pb` (built from the tree under test). Byte-exact comparison.",
    "Generated programs avoid the constructs behind open findings (counted in the evidence); lone CR between tokens is excluded because of finding lone-cr-newline.")
add("C03", "property-based testing (rapid): programs generated as token-bearing ast trees from an independent model (constructors per construct, PHP manual precedence table); oracle: zero errors and structural + token + position equality with the model; exhaustive enumeration of operator nests (every operator in every operand position of every other, fusion-family triples; all triples in thorough); negative version-gating cases",
    "Exploration: tens of thousands (thorough: > 1M) generated programs per run covering every node kind the generator can derive, all operator pairs, dangling else, keyword case; version gating by fixed PHP 7-only snippets, generated programs that use at least one PHP 7-only construct (must be reported under 5.x) and generated flexible heredocs. PHP itself is not available as referee: 'the tree PHP prescribes' is the generator's transcription of the language reference.",
    "Oracle transcription errors are possible in principle; every disagreement found so far was resolved against the PHP manual. Five valid-PHP shapes are excluded as open findings.")
add("C04", "property-based testing (rapid): byte-level inputs with rewritten line terminators + generated programs whose expected token sequence/positions come from the generator's own layout; invariant oracle over all tokens (slice equality, independent line model, tiling); thorough adds native go test -fuzz with the same oracle inside the target",
    "Exploration: all tokens and free-floating tokens of every returned tree are checked against the source and an independent line model; tiling/classification/leaf values on error-free inputs; exact expected token streams for generated programs.",
    "Two test-pinned deviations are tolerated by precise matchers (empty heredoc >= 7.3, /**x*/ classified as doc comment) and reported as KNOWN-FINDING.")
add("C05", "property-based testing (rapid): generated programs under all trivia policies + error-free byte-level inputs; oracle: recorded node span == span recomputed from the node's own token positions with the documented conventions, nesting and sibling order",
    "Exploration: every node of every error-free tree; coverage measured as distinct (kind < parent.slot, family) sites.",
    "Four test-pinned span deviations are tolerated by matchers keyed on node kind/slot/family and reported as KNOWN-FINDING.")
add("C06", "property-based testing (rapid): valid generated programs + one guaranteed-invalid edit (bracket insert/delete, truncation inside brackets, control byte, deleted ';' between two operands, __halt_compiler(); nested in a block) must report; error-shape invariants and callback/no-callback differential on arbitrary inputs; thorough adds native go test -fuzz with the same oracle inside the target",
    "Exploration: guaranteed-invalid edits with an argument why no PHP grammar accepts them; error message/position/line/order invariants; silent parse => complete tiling tree; tree equality with and without callback incl. PHP 5 semantic-error programs.",
    "Grammar leniency is deliberately not probed (only edits with a proof of invalidity). PHP 5 semantic errors arrive out of source order (open finding).")
add("C07", "property-based testing (rapid): metamorphic - insert a malformed statement at a drawn boundary of a drawn statement list of a generated program and compare with the error-free parse (prefix preserved, parsing resumes); runs of n malformed statements with numbered sentinels and witness statements between them (n around powers of two and ten); print-clause invariants on every recovered tree; thorough adds native go test -fuzz for the print clause",
    "Exploration: 18 malformed statements x all statement-list kinds x boundaries; prefix statements compared with tokens and positions; sentinel statement must be found after the error; recovered trees of byte-level inputs (incl. programs only PHP's compiler rejects) checked for invented/duplicated/reordered tokens.",
    "Class bodies are not covered (no error production there, outside the property's lists).")
add("C08", "property-based testing (rapid): metamorphic - the same generated program rendered under a reference and 2-5 drawn trivia policies must parse to the same structure; plus hand-written pairs for lexer-state-specific gaps, an exhaustive keyword x continuation matrix for the empty gap behind a keyword, and lone-CR renderings under a tolerance that admits only the known warning",
    "Exploration: all inter-token gaps where PHP permits trivia receive none / whitespace (LF, CRLF, tabs, VT, FF) / block, doc, line and hash comments; structure compared with the reference parse and the generator's model.",
    "Two open findings (comment between ';' and '?>', comment inside __halt_compiler ( ) ;) are excluded from the policies and replayed as KNOWN-FINDING; for the third (lone CR) the renderings are generated and only its known warning is tolerated.")
add("C09", "exhaustive enumeration of a (major, minor) grid incl. boundary/huge values against an independent table + property-based differential testing of version pairs, version strings and ordering laws (rapid); stateful histories of version.New calls whose results are kept and re-checked",
    "Exploration: the grid is enumerated completely; Validate, Parse and the table must agree; default version == 7.4; same-side versions agree on generated, heredoc-soup and byte-level inputs; New/Compare/InRange against reference implementations; the command-line tool's -phpver flag (drawn strings and versions, omitted flag) against the same table and the library's errors for a probe file.",
    "Values between the listed grid points are not enumerated.")
add("C10", "property-based differential testing (rapid): programs generated from the common PHP 5/7 subset under all trivia policies, parsed under a 5.x and a 7.x version; trees must be equal in structure, tokens and positions; plus the exhaustive operator-nest enumeration over the shared operators",
    "Exploration: the common subset is defined by the generator (PHP 5.6 constructs minus what the uniform-variable-syntax RFC regrouped and minus PHP 7-only syntax), not by asking the two parsers.",
    "Shapes behind the PHP 5-only span findings are excluded (counted).")
add("C11", "race-detector monitoring (go test -race) + property-based differential testing of generated job sets: concurrent results vs sequential reference; parse-twice and run-repeatedly determinism (all pipelines, incl. resolver-heavy programs with case-variant duplicate aliases); stateful parse histories (drawn sequences of parses of a few jobs with garbage collections in between: same result every time; kept trees, kept error objects and kept resolved-name maps unchanged at the end); the race-built command-line tool over directories of many files vs the files processed alone",
    "Exploration: 8-40 pipelines on 2-32 goroutines over all 12 versions; every observable result compared with its sequential reference; any race report is a violation; job sets include 'twin' inputs that agree in most offsets (state kept per offset by recycled objects); parse histories of 3-14 steps; `php-parser -pb -r -e` (race build, GOMAXPROCS 2-16) over 8-60 files. Schedules are NOT enumerated: the harness does not control the Go scheduler.",
    "Logical races on properly synchronised shared state are only caught if they change a result in the runs made.")
add("C12", "exhaustive enumeration of node kind x child-slot subsets with marker leaves + property-based testing on parsed trees (as parsed, again after a traversal with the name resolver as visitor, and with one Traverser object re-used); oracle: recording visitor (generated from the ast.Visitor interface) vs reflective source-order walk",
    "Exploration: exhaustive over all kinds and child-slot subsets (list lengths 0/1/3); all parsed trees of generated programs, byte-level inputs, large programs (120-200 statements) and programs repeating a few statements up to 4200 times.",
    "Relies on the field-order convention of pkg/ast/node.go (self-tested).")
add("C13", "property-based stateful testing (rapid): histories of print/dump/traverse/resolve on one tree vs fresh-parse references, full-tree and slice-capacity fingerprints after every step, source-buffer equality; pointer-disjointness of two parses",
    "Exploration: histories of up to 16 operations (the four observers on the root and on sub-trees) over generated, namespace-heavy, long-lexeme and byte-level inputs.",
    "Observers that mutate state outside the tree and the source buffer are not visible to the fingerprints.")
add("C14", "property-based model-based testing (rapid): programs rendered from a namespace/import/reference model (name pools incl. compound families: a base word glued to kind words and keywords; scalar type words as function / constant names and aliases); reference name resolver over the model predicts the exact ResolvedNames map (keys by source offset); the same prediction, as a multiset, for the names printed by `php-parser -r`",
    "Exploration: all reference positions x name forms x alias kinds x letter-case variants (ASCII-only folding; non-ASCII near-miss names) x namespace styles x prefix lengths 1-7 are populated (distribution in the evidence); missing, wrong and extra entries fail.",
    "The reference resolver is my transcription of PHP's name-resolution rules as stated in the property.")
add("C15", "exhaustive enumeration of node kind x slot subsets with unique marker tokens/free-floating tokens/leaves + property-based subtree replacement, token-value edits and token removal on parsed trees (files with inline HTML, close tags and shebang lines included); oracle: reflective source order + independent canonical-lexeme table",
    "Exploration: exhaustive for kinds with <= 10 slots, all/none/single/pair subsets for larger kinds, list lengths and separator-count variants; replacement locality on generated programs.",
    "The canonical-lexeme table is hand-written from PHP syntax; free-text slots (heredoc labels) accept any identifier-like text.")
add("C16", "exhaustive enumeration of node kind x slot subsets (hostile values, with/without tokens/positions) + property-based testing on parsed trees (incl. one Dumper re-used for several dumps); oracle: go/parser + lock-step reader against the reflective schema",
    "Exploration: exhaustive for kinds with <= 10 slots, all/none/single/pair subsets for larger kinds, random subsets, all four option combinations; dumps of parsed trees; the dump printed by `php-parser -d` against the library's dump and the tree.",
    "Empty non-nil lists may be dumped as empty literals or omitted (both accepted).")
add("C17", "property-based testing (rapid): generated programs in three renderings; oracles: parse(F(src)) == parse(src) structurally, F canonical across whitespace-only re-layouts, F idempotent, no panic; plus the exhaustive operator-nest enumeration (minimal vs spaced rendering)",
    "Exploration: generated programs of both families; 18 formatter defects found this way were repaired in /repo (reproducers in corpus/C17), 2 are open findings: one is switched off in the generator, for the other the programs are generated and only its known failure mode is tolerated (both counted).",
    "The claim is narrow in two places: an alternative-syntax if as unbraced body before else is not generated; for programs where a close tag follows a brace-form statement the comparison ignores empty statements in lists and there is no canonical/idempotence clause.")
add("C18", "exhaustive enumeration of (block size, request count), deep allocation histories (300 000+ requests) + rapid state machine (two pools side by side: Get/Get-without-write/write/read-back/pool replacement + GC) against a pointer-identity model",
    "Exploration: every (block size 1..64, request count 0..5*size+3) history of both pools exhaustively, the default 1024 size around 1..6 boundaries, sizes around powers of two up to 2^17 crossing the 2^16 boundary, rapid-drawn sizes up to 8192 and a rapid state machine; each object is stamped and all earlier objects re-read.",
    "Trusts Go pointer identity and the GC keeping old blocks alive; sizes > 2^17 not explored.")

def main():
    props = [json.loads(l) for l in open(os.path.join(ROOT, "properties.jsonl"))]
    checks, na = [], []
    for p in props:
        pid = p["id"]
        if pid in C and os.path.isdir(os.path.join(ROOT, "checks", pid.lower())):
            c = C[pid]
            checks.append({
                "property_id": pid,
                "quick_cmd": "python3 vdrive.py -prop %s -tier quick" % pid,
                "thorough_cmd": "python3 vdrive.py -prop %s -tier thorough" % pid,
                "evidence_file": "/verif/evidence/%s.json" % pid,
                "replay_cmd_template": "python3 vdrive.py -replay {path}",
                "engine": "vdrive",
                "level_claimed": {"category": "exploration", "text": c["text"], "design_ref": c["ref"]},
                "level_note": c["note"],
                "technique": c["technique"],
            })
        else:
            na.append({"property_id": pid, "reason": "check not built yet (work in progress; see DESIGN.md)"})
    m = {
        "version": 1,
        "setup_cmd": "python3 vdrive.py -setup",
        "hooks": {
            "guard": "verif",
            "enable": "no hooks are needed: every observation point (parser.Parse result, error callback, tokens, Pool.Get, visitors) is public API; checks build /repo's working tree through a go.mod replace directive",
            "baseline_off_cmd": "cd /repo && go test -mod=mod -json -vet=off -count=1 -timeout 25m ./...",
            "source_commits": [],
            "add_only": True,
        },
        "engines": [{"name": "vdrive", "path": "/verif/vdrive.py", "serves_properties": [c["property_id"] for c in checks],
                     "kind_free_text": "python driver: builds checks/<id> (Go test package using pgregory.net/rapid + astx/phpgen/oracle) against /repo's working tree, runs seeded shards under resource limits, merges statistics into evidence/<id>.json, prints VIOLATION / KNOWN-FINDING lines; exit 0/1/2"}],
        "checks": checks,
        "notes": "All checks are generated-input searches against explicit oracles (see DESIGN.md). Exit 2 means inconclusive/infrastructure, never a violation. known_findings.json lists open findings (reported as KNOWN-FINDING lines, exit 0) and fixed defects (fix: commits in /repo).",
        "not_applicable": na,
    }
    with open(os.path.join(ROOT, "MANIFEST.json"), "w") as f:
        json.dump(m, f, indent=1)
        f.write("\n")

if __name__ == "__main__":
    main()
