#!/usr/bin/env python3
"""Regenerates MANIFEST.json from the table below (single source of truth for the interface)."""
import json, os
ROOT = os.path.dirname(os.path.abspath(__file__))

TECH = "property-based testing (pgregory.net/rapid) + exhaustive enumeration of small finite spaces"
CHECKS = {
 "C18": dict(
   technique="exhaustive enumeration of (block size, request count) + rapid state machine (Get/write/read-back) against a pointer-identity model",
   text="Exploration: every (block size 1..64, request count 0..5*size+3) history of both pools is enumerated exhaustively, the default 1024 size around 1..6 boundaries, plus rapid-drawn sizes up to 8192 and a rapid state machine; each returned object is stamped and all earlier objects re-read. Exhaustive for the small sizes, sampled beyond; no proof for all sizes.",
   note="Trusts Go's unsafe.Pointer identity for distinctness and the GC keeping old blocks alive; sizes > 8192 not explored.",
   ref="DESIGN.md §2 C18"),
}
NOT_YET = {}

def main():
    props = [json.loads(l) for l in open(os.path.join(ROOT, "properties.jsonl"))]
    checks, na = [], []
    for p in props:
        pid = p["id"]
        if pid in CHECKS:
            c = CHECKS[pid]
            checks.append({
                "property_id": pid,
                "quick_cmd": "python3 vdrive.py -prop %s -tier quick" % pid,
                "thorough_cmd": "python3 vdrive.py -prop %s -tier thorough" % pid,
                "evidence_file": "/verif/evidence/%s.json" % pid,
                "replay_cmd_template": "python3 vdrive.py -replay {path}",
                "engine": "vdrive",
                "level_claimed": {"category": "exploration", "text": c["text"], "design_ref": c["ref"]},
                "level_note": c["note"],
                "technique": c["technique"],
            })
        else:
            na.append({"property_id": pid, "reason": NOT_YET.get(pid, "check not built yet in this session (work in progress; see DESIGN.md for the planned generated-input check)")})
    m = {
        "version": 1,
        "setup_cmd": "python3 vdrive.py -setup",
        "hooks": {
            "guard": "verif",
            "enable": "no hooks are needed: every observation point (parser.Parse result, error callback, tokens, Pool.Get, visitors) is public API; checks build /repo's working tree through a go.mod replace directive",
            "baseline_off_cmd": "cd /repo && go test -mod=mod -json -vet=off -count=1 -timeout 25m ./...",
            "source_commits": [],
            "add_only": True,
        },
        "engines": [{"name": "vdrive", "path": "/verif/vdrive.py", "serves_properties": [c["property_id"] for c in checks],
                     "kind_free_text": "python driver: builds checks/<id> (Go test package using rapid + astx/phpgen) against /repo's working tree, runs seeded shards, merges statistics into evidence/<id>.json"}],
        "checks": checks,
        "notes": "All checks are generated-input searches against explicit oracles (see DESIGN.md). Exit 2 means inconclusive/infrastructure, never a violation.",
        "not_applicable": na,
    }
    with open(os.path.join(ROOT, "MANIFEST.json"), "w") as f:
        json.dump(m, f, indent=1)
        f.write("\n")

if __name__ == "__main__":
    main()
