// Package px wraps the public API of the library under test: parsing with an
// error-collecting callback (panics recovered and reported), printing,
// dumping, traversing and name resolution.
package px

import (
	"bytes"
	"fmt"
	"runtime/debug"
	"strings"

	"github.com/z7zmey/php-parser/pkg/ast"
	"github.com/z7zmey/php-parser/pkg/conf"
	"github.com/z7zmey/php-parser/pkg/errors"
	"github.com/z7zmey/php-parser/pkg/parser"
	"github.com/z7zmey/php-parser/pkg/version"
	"github.com/z7zmey/php-parser/pkg/visitor/dumper"
	"github.com/z7zmey/php-parser/pkg/visitor/formatter"
	"github.com/z7zmey/php-parser/pkg/visitor/nsresolver"
	"github.com/z7zmey/php-parser/pkg/visitor/printer"
	"github.com/z7zmey/php-parser/pkg/visitor/traverser"

	"verif/harness"
)

// Ver is a (major, minor) pair.
type Ver struct{ Major, Minor uint64 }

func (v Ver) String() string      { return fmt.Sprintf("%d.%d", v.Major, v.Minor) }
func (v Ver) V() *version.Version { return &version.Version{Major: v.Major, Minor: v.Minor} }
func (v Ver) IsPHP5() bool        { return v.Major == 5 }
func (v Ver) Flexible() bool      { return v.Major == 7 && v.Minor >= 3 }

// Supported versions as stated by the property (5.0-5.6, 7.0-7.4).
var (
	AllVersions = []Ver{{5, 0}, {5, 1}, {5, 2}, {5, 3}, {5, 4}, {5, 5}, {5, 6}, {7, 0}, {7, 1}, {7, 2}, {7, 3}, {7, 4}}
	KeyVersions = []Ver{{5, 0}, {5, 6}, {7, 0}, {7, 2}, {7, 3}, {7, 4}}
	V56         = Ver{5, 6}
	V72         = Ver{7, 2}
	V74         = Ver{7, 4}
)

// Result of one parse.
type Result struct {
	Root  ast.Vertex
	Errs  []*errors.Error
	Err   error
	Panic string // non-empty if Parse panicked (value + innermost library frames)
}

// Parse runs parser.Parse on src. With cb the errors are collected; without,
// a nil callback is installed. Panics are recovered into Result.Panic.
func Parse(src []byte, v Ver, cb bool) (res Result) {
	return ParseV(src, v.V(), cb)
}

// ParseV is Parse with an explicit (possibly nil) *version.Version.
func ParseV(src []byte, v *version.Version, cb bool) (res Result) {
	defer func() {
		if r := recover(); r != nil {
			res.Panic = fmt.Sprintf("%v\n%s", r, libFrames(string(debug.Stack())))
		}
	}()
	harness.Remember(src)
	cfg := conf.Config{Version: v}
	if cb {
		cfg.ErrorHandlerFunc = func(e *errors.Error) { res.Errs = append(res.Errs, e) }
	}
	res.Root, res.Err = parser.Parse(src, cfg)
	return
}

// libFrames keeps the first few stack lines that mention the library.
func libFrames(stack string) string {
	var out []string
	lines := strings.Split(stack, "\n")
	for i, l := range lines {
		if strings.Contains(l, "z7zmey/php-parser") && !strings.Contains(l, "verif/") {
			out = append(out, strings.TrimSpace(l))
			if i+1 < len(lines) {
				out = append(out, "    "+strings.TrimSpace(lines[i+1]))
			}
			if len(out) >= 8 {
				break
			}
		}
	}
	return strings.Join(out, "\n")
}

// Guard runs f and returns the recovered panic text ("" if none).
func Guard(f func()) (p string) {
	defer func() {
		if r := recover(); r != nil {
			p = fmt.Sprintf("%v\n%s", r, libFrames(string(debug.Stack())))
		}
	}()
	f()
	return ""
}

// Print runs the printer over the tree.
func Print(root ast.Vertex) []byte {
	var b bytes.Buffer
	if root != nil {
		root.Accept(printer.NewPrinter(&b))
	}
	return b.Bytes()
}

// PrintPHP prints a subtree with the printer already in PHP state.
func PrintPHP(n ast.Vertex) []byte {
	var b bytes.Buffer
	if n != nil {
		n.Accept(printer.NewPrinter(&b).WithState(printer.PrinterStatePHP))
	}
	return b.Bytes()
}

// Dump runs the dumper with the given options.
func Dump(root ast.Vertex, tokens, positions bool) []byte {
	var b bytes.Buffer
	d := dumper.NewDumper(&b)
	if tokens {
		d = d.WithTokens()
	}
	if positions {
		d = d.WithPositions()
	}
	d.Dump(root)
	return b.Bytes()
}

// Resolve runs the namespace resolver through the traverser.
func Resolve(root ast.Vertex) map[ast.Vertex]string {
	r := nsresolver.NewNamespaceResolver()
	traverser.NewTraverser(r).Traverse(root)
	return r.ResolvedNames
}

// Traverse runs an arbitrary visitor through the traverser.
func Traverse(root ast.Vertex, v ast.Visitor) {
	traverser.NewTraverser(v).Traverse(root)
}

// Format runs the formatter over the tree (mutating it).
func Format(root ast.Vertex) {
	root.Accept(formatter.NewFormatter())
}

// ErrString renders an error list deterministically.
func ErrString(errs []*errors.Error) string {
	var b strings.Builder
	for _, e := range errs {
		if e == nil {
			b.WriteString("<nil>\n")
			continue
		}
		if e.Pos == nil {
			fmt.Fprintf(&b, "%q @nil\n", e.Msg)
		} else {
			fmt.Fprintf(&b, "%q @[L%d-%d %d-%d]\n", e.Msg, e.Pos.StartLine, e.Pos.EndLine, e.Pos.StartPos, e.Pos.EndPos)
		}
	}
	return b.String()
}
