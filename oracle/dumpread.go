package oracle

import (
	"bytes"
	"fmt"
	goast "go/ast"
	goparser "go/parser"
	gotoken "go/token"
	"reflect"
	"strconv"

	"github.com/z7zmey/php-parser/pkg/ast"
	"github.com/z7zmey/php-parser/pkg/position"
	"github.com/z7zmey/php-parser/pkg/token"

	"verif/astx"
)

// CheckDump verifies that dump is a Go composite literal that mirrors the
// tree rooted at n under the given options: one literal per node bearing the
// node's type; every non-empty child, list, value, token (withTokens) and
// position (withPositions) exactly once under the label of its field (byte
// values under "Val"); nothing else. It returns "" or the first discrepancy.
func CheckDump(dump []byte, n ast.Vertex, withTokens, withPositions bool) string {
	src := append([]byte("package p\nvar _ = []interface{}{\n"), dump...)
	src = append(src, "\n}\n"...)
	fset := gotoken.NewFileSet()
	f, err := goparser.ParseFile(fset, "dump.go", src, 0)
	if err != nil {
		return fmt.Sprintf("the dump is not valid Go: %v", err)
	}
	var lit *goast.CompositeLit
	for _, d := range f.Decls {
		if gd, ok := d.(*goast.GenDecl); ok {
			for _, sp := range gd.Specs {
				if vs, ok := sp.(*goast.ValueSpec); ok && len(vs.Values) == 1 {
					lit, _ = vs.Values[0].(*goast.CompositeLit)
				}
			}
		}
	}
	if lit == nil {
		return "internal: wrapper literal not found"
	}
	if len(lit.Elts) != 1 {
		return fmt.Sprintf("the dump holds %d top-level literals, expected exactly one", len(lit.Elts))
	}
	r := &dumpReader{tokens: withTokens, positions: withPositions}
	return r.node(lit.Elts[0], n, astx.KindName(n))
}

type dumpReader struct{ tokens, positions bool }

func selName(e goast.Expr) (pkg, name string) {
	if s, ok := e.(*goast.SelectorExpr); ok {
		if id, ok := s.X.(*goast.Ident); ok {
			return id.Name, s.Sel.Name
		}
	}
	return "", ""
}

// fields splits a composite literal into label -> value, reporting duplicates and unkeyed elements.
func fields(c *goast.CompositeLit, path string) (map[string]goast.Expr, []string, string) {
	m := map[string]goast.Expr{}
	var order []string
	for _, e := range c.Elts {
		kv, ok := e.(*goast.KeyValueExpr)
		if !ok {
			return nil, nil, fmt.Sprintf("%s: element without a field label", path)
		}
		id, ok := kv.Key.(*goast.Ident)
		if !ok {
			return nil, nil, fmt.Sprintf("%s: field label is not an identifier", path)
		}
		if _, dup := m[id.Name]; dup {
			return nil, nil, fmt.Sprintf("%s: field %s appears twice", path, id.Name)
		}
		m[id.Name] = kv.Value
		order = append(order, id.Name)
	}
	return m, order, ""
}

func addrLit(e goast.Expr) *goast.CompositeLit {
	if u, ok := e.(*goast.UnaryExpr); ok && u.Op == gotoken.AND {
		c, _ := u.X.(*goast.CompositeLit)
		return c
	}
	return nil
}

func (r *dumpReader) node(e goast.Expr, n ast.Vertex, path string) string {
	c := addrLit(e)
	if c == nil {
		return fmt.Sprintf("%s: expected a &ast.%s{...} literal", path, astx.KindName(n))
	}
	pkg, name := selName(c.Type)
	s := astx.SchemaOf(n)
	if s == nil {
		return fmt.Sprintf("%s: unknown node type %T in the tree", path, n)
	}
	if pkg != "ast" || name != s.Name {
		return fmt.Sprintf("%s: literal has type %s.%s, the node is an ast.%s", path, pkg, name, s.Name)
	}
	got, _, bad := fields(c, path)
	if bad != "" {
		return bad
	}
	rv := reflect.ValueOf(n).Elem()
	used := map[string]bool{}
	for _, f := range s.Fields {
		fv := rv.Field(f.Index)
		label := f.Name
		switch f.Class {
		case astx.FPosition:
			p := fv.Interface().(*position.Position)
			if !r.positions || p == nil {
				continue
			}
			used[label] = true
			v, ok := got[label]
			if !ok {
				return fmt.Sprintf("%s: position missing from the dump", path)
			}
			if m := r.position(v, p, path); m != "" {
				return m
			}
		case astx.FValue:
			label = "Val"
			if fv.IsNil() {
				continue
			}
			used[label] = true
			v, ok := got[label]
			if !ok {
				return fmt.Sprintf("%s: value of field %s missing from the dump (expected label Val)", path, f.Name)
			}
			if m := bytesLit(v, fv.Bytes(), path+".Val"); m != "" {
				return m
			}
		case astx.FToken:
			t := fv.Interface().(*token.Token)
			if !r.tokens || t == nil {
				continue
			}
			used[label] = true
			v, ok := got[label]
			if !ok {
				return fmt.Sprintf("%s: token %s missing from the dump", path, label)
			}
			if m := r.token(v, t, path+"."+label, true); m != "" {
				return m
			}
		case astx.FTokenList:
			l := fv.Interface().([]*token.Token)
			if !r.tokens || l == nil {
				continue
			}
			v, ok := got[label]
			if !ok {
				if len(l) == 0 {
					continue
				}
				return fmt.Sprintf("%s: token list %s (%d tokens) missing from the dump", path, label, len(l))
			}
			used[label] = true
			if m := r.tokenList(v, l, path+"."+label); m != "" {
				return m
			}
		case astx.FChild:
			if fv.IsNil() {
				continue
			}
			ch := fv.Interface().(ast.Vertex)
			if astx.IsNil(ch) {
				continue
			}
			used[label] = true
			v, ok := got[label]
			if !ok {
				return fmt.Sprintf("%s: child %s (%s) missing from the dump", path, label, astx.KindName(ch))
			}
			if m := r.node(v, ch, path+"."+label+"/"+astx.KindName(ch)); m != "" {
				return m
			}
		case astx.FChildList:
			l := fv.Interface().([]ast.Vertex)
			if l == nil {
				continue
			}
			v, ok := got[label]
			if !ok {
				if len(l) == 0 {
					continue
				}
				return fmt.Sprintf("%s: list %s (%d nodes) missing from the dump", path, label, len(l))
			}
			used[label] = true
			lc, ok := v.(*goast.CompositeLit)
			if !ok {
				return fmt.Sprintf("%s.%s: expected a []ast.Vertex{...} literal", path, label)
			}
			if len(lc.Elts) != len(l) {
				return fmt.Sprintf("%s.%s: dump lists %d nodes, the tree has %d", path, label, len(lc.Elts), len(l))
			}
			for i, el := range lc.Elts {
				if m := r.node(el, l[i], fmt.Sprintf("%s.%s[%d]/%s", path, label, i, astx.KindName(l[i]))); m != "" {
					return m
				}
			}
		}
	}
	for k := range got {
		if !used[k] {
			return fmt.Sprintf("%s: the dump has a field %q that the node does not hold (or that the options exclude)", path, k)
		}
	}
	return ""
}

func intLit(e goast.Expr) (int, bool) {
	neg := false
	if u, ok := e.(*goast.UnaryExpr); ok && u.Op == gotoken.SUB {
		neg = true
		e = u.X
	}
	b, ok := e.(*goast.BasicLit)
	if !ok || b.Kind != gotoken.INT {
		return 0, false
	}
	v, err := strconv.Atoi(b.Value)
	if err != nil {
		return 0, false
	}
	if neg {
		v = -v
	}
	return v, true
}

func (r *dumpReader) position(e goast.Expr, p *position.Position, path string) string {
	c := addrLit(e)
	if c == nil {
		return fmt.Sprintf("%s: position is not a &position.Position{...} literal", path)
	}
	if pkg, name := selName(c.Type); pkg != "position" || name != "Position" {
		return fmt.Sprintf("%s: position literal has type %s.%s", path, pkg, name)
	}
	got, _, bad := fields(c, path+".Position")
	if bad != "" {
		return bad
	}
	want := map[string]int{"StartLine": p.StartLine, "EndLine": p.EndLine, "StartPos": p.StartPos, "EndPos": p.EndPos}
	for k, w := range want {
		v, ok := got[k]
		if !ok {
			return fmt.Sprintf("%s: position field %s missing", path, k)
		}
		g, ok := intLit(v)
		if !ok || g != w {
			return fmt.Sprintf("%s: position field %s is dumped as %v, the tree has %d", path, k, exprString(v), w)
		}
	}
	if len(got) != 4 {
		return fmt.Sprintf("%s: position literal has %d fields, expected 4", path, len(got))
	}
	return ""
}

func exprString(e goast.Expr) string {
	switch v := e.(type) {
	case *goast.BasicLit:
		return v.Value
	case *goast.Ident:
		return v.Name
	case *goast.SelectorExpr:
		return exprString(v.X) + "." + v.Sel.Name
	case *goast.CallExpr:
		s := exprString(v.Fun) + "("
		for i, a := range v.Args {
			if i > 0 {
				s += ", "
			}
			s += exprString(a)
		}
		return s + ")"
	case *goast.UnaryExpr:
		return v.Op.String() + exprString(v.X)
	case *goast.ArrayType:
		return "[]" + exprString(v.Elt)
	case *goast.StarExpr:
		return "*" + exprString(v.X)
	}
	return fmt.Sprintf("<%T>", e)
}

func bytesLit(e goast.Expr, want []byte, path string) string {
	call, ok := e.(*goast.CallExpr)
	if !ok || len(call.Args) != 1 || exprString(call.Fun) != "[]byte" {
		return fmt.Sprintf("%s: expected []byte(\"...\"), got %s", path, exprString(e))
	}
	b, ok := call.Args[0].(*goast.BasicLit)
	if !ok || b.Kind != gotoken.STRING {
		return fmt.Sprintf("%s: []byte argument is not a string literal", path)
	}
	s, err := strconv.Unquote(b.Value)
	if err != nil {
		return fmt.Sprintf("%s: string literal does not unquote: %v", path, err)
	}
	if !bytes.Equal([]byte(s), want) {
		return fmt.Sprintf("%s: dumped bytes %q differ from the tree's %q", path, s, want)
	}
	return ""
}

func (r *dumpReader) token(e goast.Expr, t *token.Token, path string, addr bool) string {
	var c *goast.CompositeLit
	if addr {
		c = addrLit(e)
		if c != nil {
			if pkg, name := selName(c.Type); pkg != "token" || name != "Token" {
				return fmt.Sprintf("%s: token literal has type %s.%s", path, pkg, name)
			}
		}
	} else {
		c, _ = e.(*goast.CompositeLit)
		if c != nil && c.Type != nil {
			return fmt.Sprintf("%s: list element carries an explicit type", path)
		}
	}
	if c == nil {
		return fmt.Sprintf("%s: expected a token literal", path)
	}
	if t == nil {
		return fmt.Sprintf("%s: dump has a token literal where the tree holds nil", path)
	}
	got, _, bad := fields(c, path)
	if bad != "" {
		return bad
	}
	used := map[string]bool{}
	if t.ID > 0 {
		used["ID"] = true
		v, ok := got["ID"]
		want := "token." + TokenIDName(t.ID)
		if !ok {
			return fmt.Sprintf("%s: token ID missing (expected %s)", path, want)
		}
		if g := exprString(v); g != want {
			return fmt.Sprintf("%s: token ID dumped as %s, the tree has %s", path, g, want)
		}
	}
	if t.Value != nil {
		used["Val"] = true
		v, ok := got["Val"]
		if !ok {
			return fmt.Sprintf("%s: token value missing (expected label Val)", path)
		}
		if m := bytesLit(v, t.Value, path+".Val"); m != "" {
			return m
		}
	}
	if r.positions && t.Position != nil {
		used["Position"] = true
		v, ok := got["Position"]
		if !ok {
			return fmt.Sprintf("%s: token position missing", path)
		}
		if m := r.position(v, t.Position, path); m != "" {
			return m
		}
	}
	if t.FreeFloating != nil {
		if v, ok := got["FreeFloating"]; ok {
			used["FreeFloating"] = true
			if m := r.tokenList(v, t.FreeFloating, path+".FreeFloating"); m != "" {
				return m
			}
		} else if len(t.FreeFloating) > 0 {
			return fmt.Sprintf("%s: free-floating tokens (%d) missing from the dump", path, len(t.FreeFloating))
		}
	}
	for k := range got {
		if !used[k] {
			return fmt.Sprintf("%s: the dump has a token field %q that the token does not hold (or that the options exclude)", path, k)
		}
	}
	return ""
}

func (r *dumpReader) tokenList(e goast.Expr, l []*token.Token, path string) string {
	c, ok := e.(*goast.CompositeLit)
	if !ok {
		return fmt.Sprintf("%s: expected a []*token.Token{...} literal", path)
	}
	if exprString(c.Type) != "[]*token.Token" {
		if at, ok := c.Type.(*goast.ArrayType); !ok || exprString(at.Elt) != "*token.Token" {
			return fmt.Sprintf("%s: token list literal has an unexpected type", path)
		}
	}
	if len(c.Elts) != len(l) {
		return fmt.Sprintf("%s: dump lists %d tokens, the tree has %d", path, len(c.Elts), len(l))
	}
	for i, el := range c.Elts {
		if m := r.token(el, l[i], fmt.Sprintf("%s[%d]", path, i), false); m != "" {
			return m
		}
	}
	return ""
}
