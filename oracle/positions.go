package oracle

import (
	"fmt"

	"github.com/z7zmey/php-parser/pkg/ast"
	"github.com/z7zmey/php-parser/pkg/position"

	"verif/astx"
)

// Span is an expected node position; Nil means "no position at all".
type Span struct {
	Nil                                  bool
	StartLine, EndLine, StartPos, EndPos int
}

func (s Span) String() string {
	if s.Nil {
		return "nil"
	}
	return fmt.Sprintf("[L%d-%d @%d-%d]", s.StartLine, s.EndLine, s.StartPos, s.EndPos)
}

// ExpectedSpan derives the position a node must carry from the positions of
// the tokens of its own subtree: from the start of its first constituent to
// the end of its last one, with the conventions documented for the library:
//
//   - Root spans first statement .. last statement (-1 when there is none);
//   - a trait adaptation excludes its terminating semicolon;
//   - an array/list item without key, value and tokens has no position;
//   - a brace-less statement list (alternative syntax bodies) and the
//     statement lists of case/default spans its statements, and an empty one
//     yields -1 for the boundary it forms (offset and line).
func ExpectedSpan(n ast.Vertex) Span { return expectedSpan(n, nil, nil) }

// expectedSpan memoises per node in memo (when not nil): a node's span is built from its children's
// spans, and CheckPositions asks for every node of the tree.
func expectedSpan(n ast.Vertex, known *[]string, memo map[ast.Vertex]Span) Span {
	if memo != nil {
		if s, ok := memo[n]; ok {
			return s
		}
	}
	s := expectedSpan1(n, known, memo)
	if memo != nil {
		memo[n] = s
	}
	return s
}

func expectedSpan1(n ast.Vertex, known *[]string, memo map[ast.Vertex]Span) Span {
	type edge struct{ line, pos int }
	none := edge{-1, -1}
	var first, last edge
	have := false
	add := func(s, e edge) {
		if !have {
			first, have = s, true
		}
		last = e
	}
	addChild := func(c ast.Vertex) bool {
		cs := expectedSpan(c, known, memo)
		if cs.Nil {
			return false
		}
		add(edge{cs.StartLine, cs.StartPos}, edge{cs.EndLine, cs.EndPos})
		return true
	}
	switch v := n.(type) {
	case *ast.Root:
		if len(v.Stmts) == 0 {
			return Span{false, -1, -1, -1, -1}
		}
		f, l := expectedSpan(v.Stmts[0], known, memo), expectedSpan(v.Stmts[len(v.Stmts)-1], known, memo)
		return Span{false, f.StartLine, l.EndLine, f.StartPos, l.EndPos}
	case *ast.StmtTry:
		if len(v.Catches) == 0 && v.Finally == nil && v.TryTkn != nil && v.TryTkn.Position != nil && known != nil {
			// "try {}" without catch/finally (not valid PHP, accepted silently): the
			// recorded end is -1 — known finding, pinned by the repository's tests
			*known = append(*known, KnownTryWithoutCatchSpan)
			return Span{false, v.TryTkn.Position.StartLine, -1, v.TryTkn.Position.StartPos, -1}
		}
	case *ast.StmtCase, *ast.StmtDefault:
		// keyword .. end of the statement list (-1 if it is empty)
		var stmts []ast.Vertex
		for _, p := range astx.Parts(n) {
			if p.Kind == astx.PToken && p.Tok.Position != nil && !have {
				add(edge{p.Tok.Position.StartLine, p.Tok.Position.StartPos}, edge{p.Tok.Position.EndLine, p.Tok.Position.EndPos})
			}
			if p.Kind == astx.PChild && p.Slot == "Stmts" {
				stmts = append(stmts, p.Child)
			}
		}
		if len(stmts) == 0 {
			last = none
		} else {
			l := expectedSpan(stmts[len(stmts)-1], known, memo)
			last = edge{l.EndLine, l.EndPos}
		}
		if !have {
			first = none
		}
		return Span{false, first.line, last.line, first.pos, last.pos}
	}
	parts := astx.Parts(n)
	for i, p := range parts {
		if p.Kind == astx.PToken {
			if p.Slot == "SemiColonTkn" && i == len(parts)-1 {
				switch n.(type) {
				case *ast.StmtTraitUseAlias, *ast.StmtTraitUsePrecedence:
					continue
				}
			}
			if p.Tok.Position == nil {
				continue
			}
			add(edge{p.Tok.Position.StartLine, p.Tok.Position.StartPos}, edge{p.Tok.Position.EndLine, p.Tok.Position.EndPos})
		} else {
			addChild(p.Child)
		}
	}
	if !have {
		switch n.(type) {
		case *ast.ExprArrayItem:
			return Span{Nil: true}
		}
		return Span{false, -1, -1, -1, -1}
	}
	return Span{false, first.line, last.line, first.pos, last.pos}
}

// SpanOf converts a recorded position.
func SpanOf(p *position.Position) Span {
	if p == nil {
		return Span{Nil: true}
	}
	return Span{false, p.StartLine, p.EndLine, p.StartPos, p.EndPos}
}

// PosReport is the result of CheckPositions.
type PosReport struct {
	Clause string
	Msg    string
	Nodes  int
	// Sites lists "kind<parentKind.slot" for every node visited (distribution / non-triviality).
	Sites map[string]int
	Known []string
}

// Known findings on node positions (test-pinned in the repository's suite).
const (
	KnownEncapsedVarDimSpan = "encapsed-var-dim-span"
	KnownPHP5GotoLabelSpan  = "php5-goto-label-span"
	KnownPHP5NewChainSpan   = "php5-new-chain-span"
	// "try {}" with neither catch nor finally has end -1 (both grammars).
	KnownTryWithoutCatchSpan = "try-without-catch-span"
)

// CheckPositions verifies every node position of an error-free tree against
// ExpectedSpan and the nesting / ordering clauses. php5 enables the matchers
// of the two PHP 5-only known findings.
//
// src, when not nil, is the parsed source: the line fields of every node are
// then compared with the harness's own line model (oracle.Lines) evaluated at
// the node's recorded offsets, so they are not taken on trust from the tokens.
func CheckPositions(root ast.Vertex, php5 bool, src []byte) PosReport {
	rep := PosReport{Sites: map[string]int{}}
	memo := map[ast.Vertex]Span{}
	var lines *Lines
	if src != nil {
		lines = NewLines(src)
	}
	var walk func(n, parent ast.Vertex, slot, path, site string, inNewClass bool) bool
	walk = func(n, parent ast.Vertex, slot, path, site string, inNewClass bool) bool {
		rep.Nodes++
		rep.Sites[site]++
		got := SpanOf(n.GetPosition())
		want := expectedSpan(n, &rep.Known, memo)
		tainted := false
		if got != want {
			if k := knownSpan(n, parent, slot, got, want, php5, inNewClass); k != "" {
				rep.Known = append(rep.Known, k)
				tainted = true
			} else {
				rep.Clause = "span"
				rep.Msg = fmt.Sprintf("%s: recorded position %s, but the node's own tokens span %s", path, got, want)
				return false
			}
		}
		if lines != nil && !got.Nil {
			if got.StartPos >= 0 && got.StartPos <= len(src) {
				if l := lines.Line(got.StartPos); got.StartLine != l {
					rep.Clause = "start-line"
					rep.Msg = fmt.Sprintf("%s: recorded position %s, but offset %d is on line %d", path, got, got.StartPos, l)
					return false
				}
			}
			if got.EndPos > 0 && got.EndPos > got.StartPos && got.EndPos <= len(src) {
				if l := lines.Line(got.EndPos - 1); got.EndLine != l {
					rep.Clause = "end-line"
					rep.Msg = fmt.Sprintf("%s: recorded position %s, but its last byte (offset %d) is on line %d", path, got, got.EndPos-1, l)
					return false
				}
			}
		}
		// children within the parent, in source order, not overlapping
		prevEnd := -1
		var prevPath string
		for _, c := range astx.Children(n) {
			var cp string
			if c.Index >= 0 {
				cp = fmt.Sprintf("%s.%s[%d]/%s", path, c.Slot, c.Index, astx.KindName(c.Child))
			} else {
				cp = fmt.Sprintf("%s.%s/%s", path, c.Slot, astx.KindName(c.Child))
			}
			cs := SpanOf(c.Child.GetPosition())
			if !cs.Nil && cs.StartPos >= 0 && cs.EndPos >= 0 {
				if cs.StartPos > cs.EndPos {
					rep.Clause, rep.Msg = "start-after-end", fmt.Sprintf("%s: position %s has start after end", cp, cs)
					return false
				}
				if !tainted && !inNewClass {
					if !got.Nil && got.StartPos >= 0 && cs.StartPos < got.StartPos {
						rep.Clause, rep.Msg = "child-outside-parent", fmt.Sprintf("%s %s starts before its parent %s", cp, cs, got)
						return false
					}
					if !got.Nil && got.EndPos >= 0 && cs.EndPos > got.EndPos {
						rep.Clause, rep.Msg = "child-outside-parent", fmt.Sprintf("%s %s ends after its parent %s", cp, cs, got)
						return false
					}
					if cs.StartPos < prevEnd {
						rep.Clause, rep.Msg = "siblings-overlap", fmt.Sprintf("%s %s starts before the end (%d) of its preceding sibling %s", cp, cs, prevEnd, prevPath)
						return false
					}
				}
				prevEnd, prevPath = cs.EndPos, cp
			}
			inNew := inNewClass
			if _, isNew := n.(*ast.ExprNew); isNew && c.Slot == "Class" && php5 {
				inNew = true
			}
			if c.Slot != "Var" && c.Slot != "Class" {
				// only the spine of the class-reference chain is affected
				if _, isNew := n.(*ast.ExprNew); !isNew {
					inNew = false
				}
			}
			if !walk(c.Child, n, c.Slot, cp, astx.KindName(c.Child)+"<"+astx.KindName(n)+"."+c.Slot, inNew) {
				return false
			}
		}
		return true
	}
	if !astx.IsNil(root) {
		walk(root, nil, "", astx.KindName(root), astx.KindName(root)+"<", false)
	}
	return rep
}

// knownSpan recognises the precise signatures of the test-pinned span findings.
func knownSpan(n, parent ast.Vertex, slot string, got, want Span, php5, inNewClass bool) string {
	switch v := n.(type) {
	case *ast.ScalarEncapsedStringVar:
		// "${foo[0]}": recorded end is the end of "[" instead of "}"
		if v.Dim != nil && v.OpenSquareBracketTkn != nil && v.OpenSquareBracketTkn.Position != nil &&
			got.StartPos == want.StartPos && got.EndPos == v.OpenSquareBracketTkn.Position.EndPos {
			return KnownEncapsedVarDimSpan
		}
	case *ast.Identifier:
		// PHP 5 "goto x;": the label carries the span of the goto keyword
		if g, ok := parent.(*ast.StmtGoto); ok && php5 && slot == "Label" && g.GotoTkn != nil && g.GotoTkn.Position != nil &&
			got == SpanOf(g.GotoTkn.Position) {
			return KnownPHP5GotoLabelSpan
		}
	}
	// PHP 5 "new $a->b[0]": nodes on the spine of the class reference start late
	if php5 && inNewClass && !got.Nil && !want.Nil {
		switch n.(type) {
		case *ast.ExprArrayDimFetch, *ast.ExprPropertyFetch, *ast.ExprStaticPropertyFetch, *ast.ExprVariable:
			return KnownPHP5NewChainSpan
		}
	}
	return ""
}
