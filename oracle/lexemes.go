package oracle

import "strings"

// CanonicalLexemes returns the texts PHP syntax allows for a token slot of a
// node kind (lower case, no whitespace). It is the independent table used to
// judge what the printer substitutes for an absent token: the construct's
// canonical lexeme or nothing — never anything else. ok=false: free text
// (labels, literals).
func CanonicalLexemes(kind, slot string) (lex []string, ok bool) {
	if v, found := kindSlotLexemes[kind+"."+slot]; found {
		return v, true
	}
	if strings.HasSuffix(slot, "SeparatorTkns") {
		switch kind {
		case "StmtCatch":
			return []string{"|"}, true
		case "Name", "NameFullyQualified", "NameRelative":
			return []string{"\\"}, true
		}
		return []string{","}, true
	}
	if v, found := slotLexemes[slot]; found {
		return v, true
	}
	return nil, false
}

var binaryOps = map[string]string{
	"BitwiseAnd": "&", "BitwiseOr": "|", "BitwiseXor": "^", "BooleanAnd": "&&", "BooleanOr": "||", "Coalesce": "??", "Concat": ".", "Div": "/",
	"Equal": "==", "Greater": ">", "GreaterOrEqual": ">=", "Identical": "===", "LogicalAnd": "and", "LogicalOr": "or", "LogicalXor": "xor",
	"Minus": "-", "Mod": "%", "Mul": "*", "NotEqual": "!=", "NotIdentical": "!==", "Plus": "+", "Pow": "**", "ShiftLeft": "<<", "ShiftRight": ">>",
	"Smaller": "<", "SmallerOrEqual": "<=", "Spaceship": "<=>",
}

var assignOps = map[string]string{
	"": "=", "Reference": "=", "BitwiseAnd": "&=", "BitwiseOr": "|=", "BitwiseXor": "^=", "Coalesce": "??=", "Concat": ".=", "Div": "/=", "Minus": "-=",
	"Mod": "%=", "Mul": "*=", "Plus": "+=", "Pow": "**=", "ShiftLeft": "<<=", "ShiftRight": ">>=",
}

var kindSlotLexemes = map[string][]string{
	"ExprCastArray.CastTkn": {"(array)"}, "ExprCastBool.CastTkn": {"(bool)", "(boolean)"}, "ExprCastDouble.CastTkn": {"(float)", "(double)", "(real)"},
	"ExprCastInt.CastTkn": {"(int)", "(integer)"}, "ExprCastObject.CastTkn": {"(object)"}, "ExprCastString.CastTkn": {"(string)", "(binary)"},
	"ExprCastUnset.CastTkn":    {"(unset)"},
	"ExprBinaryNotEqual.OpTkn": {"!=", "<>"},
	"StmtEcho.EchoTkn":         {"echo", "<?="},
	"ExprExit.ExitTkn":         {"exit", "die"},
}

func init() {
	for k, v := range binaryOps {
		if _, ok := kindSlotLexemes["ExprBinary"+k+".OpTkn"]; !ok {
			kindSlotLexemes["ExprBinary"+k+".OpTkn"] = []string{v}
		}
	}
	for k, v := range assignOps {
		kindSlotLexemes["ExprAssign"+k+".EqualTkn"] = []string{v}
	}
}

var slotLexemes = map[string][]string{
	"AmpersandTkn": {"&"}, "ArrayTkn": {"array"}, "AsTkn": {"as"}, "AtTkn": {"@"}, "BreakTkn": {"break"}, "CaseSeparatorTkn": {":", ";"}, "CaseTkn": {"case"},
	"CatchTkn": {"catch"}, "ClassTkn": {"class"}, "CloneTkn": {"clone"}, "CloseBacktickTkn": {"`"}, "OpenBacktickTkn": {"`"},
	"CloseBracketTkn": {"]", ")", "}"}, "OpenBracketTkn": {"[", "(", "{"}, "CloseCurlyBracketTkn": {"}"}, "OpenCurlyBracketTkn": {"{"},
	"CloseParenthesisTkn": {")"}, "OpenParenthesisTkn": {"("}, "CloseQuoteTkn": {"\""}, "OpenQuoteTkn": {"\""}, "CloseSquareBracketTkn": {"]"}, "OpenSquareBracketTkn": {"["},
	"ColonTkn": {":"}, "CondSemiColonTkn": {";"}, "InitSemiColonTkn": {";"}, "ConstTkn": {"const"}, "ContinueTkn": {"continue"}, "DecTkn": {"--"}, "IncTkn": {"++"},
	"DeclareTkn": {"declare"}, "DefaultTkn": {"default"}, "DoTkn": {"do"}, "DollarOpenCurlyBracketTkn": {"${"}, "DollarTkn": {"$"}, "DoubleArrowTkn": {"=>"},
	"DoubleColonTkn": {"::"}, "EchoTkn": {"echo"}, "EllipsisTkn": {"..."}, "VariadicTkn": {"..."}, "ElseIfTkn": {"elseif"}, "ElseTkn": {"else"}, "EmptyTkn": {"empty"},
	"EndDeclareTkn": {"enddeclare"}, "EndForTkn": {"endfor"}, "EndForeachTkn": {"endforeach"}, "EndIfTkn": {"endif"}, "EndSwitchTkn": {"endswitch"}, "EndWhileTkn": {"endwhile"},
	"EqualTkn": {"="}, "EvalTkn": {"eval"}, "ExclamationTkn": {"!"}, "ExtendsTkn": {"extends"}, "FinallyTkn": {"finally"}, "FnTkn": {"fn"}, "ForTkn": {"for"},
	"ForeachTkn": {"foreach"}, "FunctionTkn": {"function"}, "GlobalTkn": {"global"}, "GotoTkn": {"goto"}, "HaltCompilerTkn": {"__halt_compiler"}, "IfTkn": {"if"},
	"ImplementsTkn": {"implements"}, "IncludeOnceTkn": {"include_once"}, "IncludeTkn": {"include"}, "InstanceOfTkn": {"instanceof"}, "InsteadofTkn": {"insteadof"},
	"InterfaceTkn": {"interface"}, "IssetTkn": {"isset"}, "LeadingNsSeparatorTkn": {"\\"}, "NsSeparatorTkn": {"\\"}, "ListTkn": {"list"}, "MinusTkn": {"-"}, "PlusTkn": {"+"},
	"NewTkn": {"new"}, "NsTkn": {"namespace"}, "ObjectOperatorTkn": {"->"}, "PrintTkn": {"print"}, "QuestionTkn": {"?"}, "RequireOnceTkn": {"require_once"},
	"RequireTkn": {"require"}, "ReturnTkn": {"return"}, "SemiColonTkn": {";"}, "StaticTkn": {"static"}, "SwitchTkn": {"switch"}, "ThrowTkn": {"throw"}, "TildaTkn": {"~"},
	"TraitTkn": {"trait"}, "TryTkn": {"try"}, "UnsetTkn": {"unset"}, "UseCloseParenthesisTkn": {")"}, "UseOpenParenthesisTkn": {"("}, "UseTkn": {"use"}, "WhileTkn": {"while"},
	"YieldFromTkn": {"yieldfrom"}, "YieldTkn": {"yield"}, "EndTkn": {""},
}
