package oracle

import (
	"bytes"
	"fmt"

	"github.com/z7zmey/php-parser/pkg/ast"
	"github.com/z7zmey/php-parser/pkg/token"

	"verif/astx"
	"verif/harness"
)

// TokenReport is the result of CheckTokens.
type TokenReport struct {
	Clause string // "" when everything holds
	Msg    string
	Tokens int  // tokens incl. free-floating
	Lines  int  // line terminators in the source
	NonLF  bool // source has a CR or CRLF terminator
	Multi  bool // some token spans more than one line
	// Known lists the ids of known findings whose precise signature was met
	// (and tolerated) while checking; the caller reports them as KNOWN-FINDING
	// if they are listed as open, else as violations.
	Known []string
}

// KnownEmptyHeredoc73 is the finding "under PHP >= 7.3 the closing label of a
// heredoc with an empty body loses its indentation and first byte".
const KnownEmptyHeredoc73 = "empty-heredoc-73"

// KnownDocCommentNoSpace is the finding "a comment that starts with /** not
// followed by whitespace (/***/, /**x*/) is classified as doc-comment".
const KnownDocCommentNoSpace = "doc-comment-no-space"

func isWS(b []byte) bool {
	if len(b) == 0 {
		return false
	}
	for _, c := range b {
		if c != ' ' && c != '\t' && c != '\v' && c != '\f' && c != '\r' && c != '\n' {
			return false
		}
	}
	return true
}

// ffClassOK checks the classification of a free-floating token against its text.
func ffClassOK(t *token.Token) string {
	v := t.Value
	switch t.ID {
	case token.T_WHITESPACE:
		if !isWS(v) {
			return "classified as whitespace but is not whitespace-only"
		}
	case token.T_COMMENT:
		if !(bytes.HasPrefix(v, []byte("#")) || bytes.HasPrefix(v, []byte("//")) || bytes.HasPrefix(v, []byte("/*"))) {
			return "classified as comment but does not start with #, // or /*"
		}
		if len(v) >= 5 && bytes.HasPrefix(v, []byte("/**")) && isWS(v[3:4]) {
			return "a /** comment followed by whitespace must be classified as doc-comment"
		}
	case token.T_DOC_COMMENT:
		if !bytes.HasPrefix(v, []byte("/**")) || !bytes.HasSuffix(v, []byte("*/")) || len(v) < 5 {
			return "classified as doc-comment but is not /** ... */"
		}
		if !isWS(v[3:4]) {
			// PHP: only "/**" followed by whitespace starts a doc comment
			return KnownDocCommentNoSpace
		}
	case token.T_OPEN_TAG:
		if !(bytes.Equal(v, []byte("<?")) || bytes.EqualFold(v, []byte("<?php"))) {
			return "classified as open tag but is not <? or <?php"
		}
	case token.T_HALT_COMPILER:
		// the raw tail after __halt_compiler(); any bytes
	default:
		return fmt.Sprintf("free-floating token has id %s, expected whitespace, comment, doc-comment, open tag or halt-compiler tail", astx.IDString(t.ID))
	}
	if isWS(v) && t.ID != token.T_WHITESPACE && t.ID != token.T_HALT_COMPILER {
		return "whitespace-only text not classified as whitespace"
	}
	return ""
}

// leafTokenField names, for the leaf kinds whose Value must equal their
// token's text, the token field.
var leafTokenField = map[string]string{
	"Identifier":               "IdentifierTkn",
	"NamePart":                 "StringTkn",
	"ScalarLnumber":            "NumberTkn",
	"ScalarDnumber":            "NumberTkn",
	"ScalarString":             "StringTkn",
	"ScalarMagicConstant":      "MagicConstTkn",
	"ScalarEncapsedStringPart": "EncapsedStrTkn",
	"StmtInlineHtml":           "InlineHtmlTkn",
}

// CheckTokens checks the C04 clauses on a returned tree. errFree selects the
// additional tiling / classification / leaf-value clauses.
func CheckTokens(src []byte, root ast.Vertex, errFree bool, flexibleHeredoc bool) TokenReport {
	var rep TokenReport
	// token values alias the buffer that was handed to the parser; "the source" is what that buffer
	// held before the parse (a library that writes into it changes both sides of a naive comparison)
	src = harness.Pristine(src)
	lm := NewLines(src)
	rep.Lines = lm.Count()
	rep.NonLF = bytes.IndexByte(src, '\r') >= 0
	fail := func(clause, format string, a ...interface{}) TokenReport {
		rep.Clause, rep.Msg = clause, fmt.Sprintf(format, a...)
		return rep
	}
	toks := astx.Tokens(root)
	var endTkn *token.Token
	if rt, ok := root.(*ast.Root); ok && rt != nil {
		endTkn = rt.EndTkn
	}
	seen := map[*token.Token]bool{}
	prevEnd := 0
	first := true
	var prev *token.Token
	check := func(t *token.Token, ff bool, owner *token.Token) *TokenReport {
		rep.Tokens++
		what := "token"
		if ff {
			what = "free-floating token"
		}
		if t == nil {
			r := fail("nil-token", "nil %s in the tree (owner %s)", what, astx.TokString(owner))
			return &r
		}
		if seen[t] {
			r := fail("token-twice", "%s %s is reachable twice from the tree", what, astx.TokString(t))
			return &r
		}
		seen[t] = true
		p := t.Position
		if p == nil && !ff && t == endTkn && len(t.Value) == 0 {
			// the zero-width end token of the root carries trailing trivia only
			return nil
		}
		if p == nil {
			r := fail("no-position", "%s %s has no position", what, astx.TokString(t))
			return &r
		}
		if p.StartPos < 0 || p.StartPos > p.EndPos || p.EndPos > len(src) {
			r := fail("offsets-range", "%s %s has offsets %d-%d outside 0..%d", what, astx.TokString(t), p.StartPos, p.EndPos, len(src))
			return &r
		}
		if !bytes.Equal(t.Value, src[p.StartPos:p.EndPos]) {
			r := fail("value-vs-source", "%s %s at %d-%d does not hold the source bytes %q", what, astx.TokString(t), p.StartPos, p.EndPos, src[p.StartPos:p.EndPos])
			return &r
		}
		if p.StartLine != lm.Line(p.StartPos) {
			r := fail("start-line", "%s %s at offset %d has StartLine %d, the byte is on line %d", what, astx.TokString(t), p.StartPos, p.StartLine, lm.Line(p.StartPos))
			return &r
		}
		if p.EndPos > p.StartPos {
			if p.EndLine != lm.Line(p.EndPos-1) {
				r := fail("end-line", "%s %s at %d-%d has EndLine %d, its last byte is on line %d", what, astx.TokString(t), p.StartPos, p.EndPos, p.EndLine, lm.Line(p.EndPos-1))
				return &r
			}
			if p.EndLine != p.StartLine {
				rep.Multi = true
			}
		} else {
			lo := lm.Line(p.StartPos)
			if p.StartPos > 0 {
				lo = lm.Line(p.StartPos - 1)
			}
			if p.EndLine != lm.Line(p.StartPos) && p.EndLine != lo {
				r := fail("end-line", "zero-width %s at %d has EndLine %d (line of the offset is %d)", what, p.StartPos, p.EndLine, lm.Line(p.StartPos))
				return &r
			}
		}
		if !first && p.StartPos < prevEnd {
			r := fail("order-overlap", "%s %s at %d-%d starts before the end (%d) of the preceding token %s: tokens overlap or are out of order", what, astx.TokString(t), p.StartPos, p.EndPos, prevEnd, astx.TokString(prev))
			return &r
		}
		if errFree {
			want := prevEnd
			if first {
				want = 0
			}
			if p.StartPos != want && flexibleHeredoc && !ff && t.ID == token.T_END_HEREDOC && prev != nil && prev.ID == token.T_START_HEREDOC && p.StartPos > want {
				rep.Known = append(rep.Known, KnownEmptyHeredoc73)
			} else if p.StartPos != want {
				r := fail("tiling-gap", "%s %s starts at %d but the preceding token ended at %d: source bytes %q are covered by no token", what, astx.TokString(t), p.StartPos, want, src[want:p.StartPos])
				return &r
			}
			if ff {
				if m := ffClassOK(t); m == KnownDocCommentNoSpace {
					rep.Known = append(rep.Known, KnownDocCommentNoSpace)
				} else if m != "" {
					r := fail("ff-class", "free-floating token %s: %s", astx.TokString(t), m)
					return &r
				}
			}
		}
		if ff && len(t.FreeFloating) > 0 {
			r := fail("ff-nested", "free-floating token %s has free-floating tokens of its own", astx.TokString(t))
			return &r
		}
		first = false
		prevEnd = p.EndPos
		prev = t
		return nil
	}
	for _, t := range toks {
		if t != nil {
			for _, f := range t.FreeFloating {
				if r := check(f, true, t); r != nil {
					return *r
				}
			}
		}
		if r := check(t, false, nil); r != nil {
			return *r
		}
	}
	if errFree {
		if prevEnd != len(src) {
			return fail("tiling-end", "tokens cover the source only up to offset %d of %d; uncovered tail %q", prevEnd, len(src), src[prevEnd:])
		}
		var bad string
		astx.Walk(root, func(n ast.Vertex, path string) bool {
			if bad != "" {
				return false
			}
			fld, ok := leafTokenField[astx.KindName(n)]
			if !ok {
				return true
			}
			tk, _ := astx.GetField(n, fld).Interface().(*token.Token)
			val, _ := astx.Value(n)
			if tk == nil {
				bad = fmt.Sprintf("%s: leaf has no %s", path, fld)
				return false
			}
			want := tk.Value
			if ss, ok := n.(*ast.ScalarString); ok && ss.MinusTkn != nil {
				// "$a[-0x1]": the only leaf built from two tokens
				want = append(append([]byte{}, ss.MinusTkn.Value...), tk.Value...)
			}
			if !bytes.Equal(val, want) {
				bad = fmt.Sprintf("%s: leaf Value %q differs from its token text %q", path, val, want)
			}
			return true
		})
		if bad != "" {
			return fail("leaf-value", "%s", bad)
		}
	}
	return rep
}
