package oracle

import (
	goast "go/ast"
	goparser "go/parser"
	gotoken "go/token"
	"os"
	"path/filepath"
	"strconv"
	"sync"

	"github.com/z7zmey/php-parser/pkg/token"
)

var (
	idNamesOnce sync.Once
	idNames     map[token.ID]string
)

// TokenIDName names a token id from the constant declarations in
// pkg/token/token.go of the tree under test (parsed as source at run time), not
// from the generated token.ID.String table: a dump must name the constant
// whose value the token carries.
func TokenIDName(id token.ID) string {
	idNamesOnce.Do(loadIDNames)
	if n, ok := idNames[id]; ok {
		return n
	}
	return "ID(" + strconv.Itoa(int(id)) + ")"
}

// IDNamesLoaded reports how many constants were read (0 = the source could not be read).
func IDNamesLoaded() int {
	idNamesOnce.Do(loadIDNames)
	return len(idNames)
}

func loadIDNames() {
	idNames = map[token.ID]string{}
	root := os.Getenv("VERIF_REPO")
	if root == "" {
		root = "/repo"
	}
	fset := gotoken.NewFileSet()
	f, err := goparser.ParseFile(fset, filepath.Join(root, "pkg", "token", "token.go"), nil, 0)
	if err != nil {
		return
	}
	for _, d := range f.Decls {
		gd, ok := d.(*goast.GenDecl)
		if !ok || gd.Tok != gotoken.CONST {
			continue
		}
		// the block that starts with "X ID = iota + N"
		base := -1
		for i, sp := range gd.Specs {
			vs := sp.(*goast.ValueSpec)
			if i == 0 {
				id, ok := vs.Type.(*goast.Ident)
				if !ok || id.Name != "ID" || len(vs.Values) != 1 {
					break
				}
				be, ok := vs.Values[0].(*goast.BinaryExpr)
				if !ok {
					break
				}
				lit, ok := be.Y.(*goast.BasicLit)
				if !ok {
					break
				}
				base, _ = strconv.Atoi(lit.Value)
			}
			if base < 0 {
				break
			}
			for _, n := range vs.Names {
				idNames[token.ID(base+i)] = n.Name
			}
		}
	}
}
