// Package oracle holds the independent reference models used by the checks.
package oracle

import "sort"

// Lines is the harness's own line model: LF, CRLF and a lone CR each end one
// line. Line numbers are 1-based.
type Lines struct {
	starts []int // byte offsets at which a new line starts (first line's 0 not included)
	n      int
}

// NewLines scans src once.
func NewLines(src []byte) *Lines {
	l := &Lines{n: len(src)}
	for i := 0; i < len(src); i++ {
		switch src[i] {
		case '\n':
			l.starts = append(l.starts, i+1)
		case '\r':
			if i+1 < len(src) && src[i+1] == '\n' {
				continue // the LF ends the line
			}
			l.starts = append(l.starts, i+1)
		}
	}
	return l
}

// Line returns the 1-based line of the byte at offset off (for off == len(src)
// the line a byte appended there would be on).
func (l *Lines) Line(off int) int {
	// number of line starts <= off
	return 1 + sort.Search(len(l.starts), func(i int) bool { return l.starts[i] > off })
}

// Count is the number of lines starts recorded (terminators seen).
func (l *Lines) Count() int { return len(l.starts) }
