// timing: parse prefix + unit x n + suffix at growing sizes and print the time (development aid for C01's scaling search).
// usage: timing [-v 7.4] [-sizes 24,96,384] prefix unit [suffix]   (arguments are Go-quoted string bodies)
package main

import (
	"bytes"
	"flag"
	"fmt"
	"strconv"
	"strings"
	"time"

	"verif/px"
)

func unq(s string) string {
	u, err := strconv.Unquote(`"` + s + `"`)
	if err != nil {
		panic(err)
	}
	return u
}

func main() {
	ver := flag.String("v", "7.4", "version")
	sizes := flag.String("sizes", "24,96,384", "sizes in KiB")
	flag.Parse()
	var v px.Ver
	fmt.Sscanf(*ver, "%d.%d", &v.Major, &v.Minor)
	pre, unit, suf := unq(flag.Arg(0)), unq(flag.Arg(1)), ""
	if flag.NArg() > 2 {
		suf = unq(flag.Arg(2))
	}
	for _, sz := range strings.Split(*sizes, ",") {
		k, _ := strconv.Atoi(sz)
		src := append(append([]byte(pre), bytes.Repeat([]byte(unit), k*1024/len(unit))...), suf...)
		t0 := time.Now()
		r := px.Parse(src, v, true)
		fmt.Printf("%q + %q x n + %q  %4d KiB  %10v  errors=%d panic=%q\n", pre, unit, suf, k, time.Since(t0).Round(time.Microsecond), len(r.Errs), r.Panic)
	}
}
