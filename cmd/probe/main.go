// probe: parse an input (argument, Go-quoted with -q, or stdin) and show errors, tree, printed text.
package main

import (
	"flag"
	"fmt"
	"io"
	"os"
	"strconv"
	"strings"

	"verif/astx"
	"verif/oracle"
	"verif/px"
)

func main() {
	ver := flag.String("v", "7.4", "version(s), comma separated")
	q := flag.Bool("q", false, "argument is a Go-quoted string body (escapes interpreted)")
	tree := flag.String("t", "shape", "tree rendering: none|shape|full")
	nocb := flag.Bool("nocb", false, "nil callback")
	flag.Parse()
	var src []byte
	if flag.NArg() > 0 {
		s := strings.Join(flag.Args(), " ")
		if *q {
			u, err := strconv.Unquote(`"` + s + `"`)
			if err != nil {
				fmt.Println("unquote:", err)
				os.Exit(2)
			}
			s = u
		}
		src = []byte(s)
	} else {
		src, _ = io.ReadAll(os.Stdin)
	}
	for _, vs := range strings.Split(*ver, ",") {
		var v px.Ver
		fmt.Sscanf(vs, "%d.%d", &v.Major, &v.Minor)
		r := px.Parse(src, v, !*nocb)
		fmt.Printf("== %s  src=%q\n", v, src)
		if r.Panic != "" {
			fmt.Println("PANIC:", r.Panic)
			continue
		}
		fmt.Printf("err=%v errors=%d\n%s", r.Err, len(r.Errs), px.ErrString(r.Errs))
		if r.Root == nil {
			fmt.Println("root=nil")
			continue
		}
		switch *tree {
		case "shape":
			fmt.Print(astx.Shape(r.Root))
		case "full":
			fmt.Print(astx.Fingerprint(r.Root))
		}
		out := px.Print(r.Root)
		fmt.Printf("printed=%q same=%v\n", out, string(out) == string(src))
		tr := oracle.CheckTokens(src, r.Root, len(r.Errs) == 0, v.Flexible())
		fmt.Printf("tokens: clause=%q %s\n", tr.Clause, tr.Msg)
	}
}
