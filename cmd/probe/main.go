// probe: parse an input (argument, Go-quoted with -q, or stdin) and show errors, tree, printed text.
package main

import (
	"flag"
	"fmt"
	"io"
	"os"
	"strconv"
	"strings"

	"verif/astx"
	"verif/oracle"
	"verif/px"
)

func main() {
	ver := flag.String("v", "7.4", "version(s), comma separated")
	q := flag.Bool("q", false, "argument is a Go-quoted string body (escapes interpreted)")
	tree := flag.String("t", "shape", "tree rendering: none|shape|full")
	nocb := flag.Bool("nocb", false, "nil callback")
	format := flag.Bool("f", false, "also format: print F(src), reparse it, compare structure, F(F(src))")
	flag.Parse()
	var src []byte
	if flag.NArg() > 0 {
		s := strings.Join(flag.Args(), " ")
		if *q {
			u, err := strconv.Unquote(`"` + s + `"`)
			if err != nil {
				fmt.Println("unquote:", err)
				os.Exit(2)
			}
			s = u
		}
		src = []byte(s)
	} else {
		src, _ = io.ReadAll(os.Stdin)
	}
	for _, vs := range strings.Split(*ver, ",") {
		var v px.Ver
		fmt.Sscanf(vs, "%d.%d", &v.Major, &v.Minor)
		r := px.Parse(src, v, !*nocb)
		fmt.Printf("== %s  src=%q\n", v, src)
		if r.Panic != "" {
			fmt.Println("PANIC:", r.Panic)
			continue
		}
		fmt.Printf("err=%v errors=%d\n%s", r.Err, len(r.Errs), px.ErrString(r.Errs))
		if r.Root == nil {
			fmt.Println("root=nil")
			continue
		}
		switch *tree {
		case "shape":
			fmt.Print(astx.Shape(r.Root))
		case "full":
			fmt.Print(astx.Fingerprint(r.Root))
		}
		out := px.Print(r.Root)
		fmt.Printf("printed=%q same=%v\n", out, string(out) == string(src))
		tr := oracle.CheckTokens(src, r.Root, len(r.Errs) == 0, v.Flexible())
		fmt.Printf("tokens: clause=%q %s\n", tr.Clause, tr.Msg)
		if *format && len(r.Errs) == 0 {
			orig := px.Parse(src, v, true)
			if p := px.Guard(func() { px.Format(r.Root) }); p != "" {
				fmt.Println("FORMAT PANIC:", p)
				continue
			}
			f1 := px.Print(r.Root)
			fmt.Printf("formatted=%q\n", f1)
			r2 := px.Parse(f1, v, true)
			fmt.Printf("reparse errors=%d %s", len(r2.Errs), px.ErrString(r2.Errs))
			if r2.Root != nil && len(r2.Errs) == 0 {
				if d := astx.Equal(orig.Root, r2.Root, astx.Structure); d != "" {
					fmt.Println("STRUCTURE DIFFERS:", d)
				}
				px.Format(r2.Root)
				f2 := px.Print(r2.Root)
				fmt.Printf("idempotent=%v\n", string(f1) == string(f2))
			}
		}
	}
}
