// rprobe: print the resolver's map for a source (argument), sorted by offset.
package main

import (
	"fmt"
	"os"
	"sort"

	"verif/astx"
	"verif/px"
)

func main() {
	src := []byte(os.Args[1])
	r := px.Parse(src, px.V74, true)
	fmt.Print(px.ErrString(r.Errs))
	m := px.Resolve(r.Root)
	var out []string
	for n, fq := range m {
		p := n.GetPosition()
		out = append(out, fmt.Sprintf("%04d %s %q => %s", p.StartPos, astx.KindName(n), src[p.StartPos:p.EndPos], fq))
	}
	sort.Strings(out)
	for _, l := range out {
		fmt.Println(l)
	}
}
