module verif

go 1.23

toolchain go1.23.5

require (
	github.com/z7zmey/php-parser v0.0.0
	pgregory.net/rapid v1.3.0
)

replace github.com/z7zmey/php-parser => /repo
