#!/usr/bin/env python3
"""vdrive — driver of the /verif property checks.

usage: vdrive.py -prop C07 -tier quick|thorough      run one property's check
       vdrive.py -replay replays/C07/<sha>.json      re-execute a saved violation
       vdrive.py -setup                              build every check binary (warms the go cache)

Exit status: 0 = property held on everything explored (KNOWN-FINDING lines may be printed),
             1 = violation (a line "VIOLATION property=<id> replay=<path>" is printed),
             2 = infrastructure problem / inconclusive (build failure, worker death, time budget).

Each check is a Go test package under checks/<id>/ built against /repo's *current working tree*
(go.mod: replace github.com/z7zmey/php-parser => /repo).  The binary is run in N shard processes;
shard i draws from rapid seed 1 + VERIF_SEED*64 + i (+ a per-check offset), so a run is a pure
function of the code and VERIF_SEED.  Shards report statistics as JSON; the driver merges them into
evidence/<id>.json.
"""
import argparse, json, os, resource, shutil, subprocess, sys, time, hashlib

ROOT = os.path.dirname(os.path.abspath(__file__))
# VERIF_REPO (development only): run the checks against a scratch copy of the repository instead of
# /repo (sensitivity runs against seeded changes).  Such a run uses its own work directory and go.mod
# and writes its evidence there, so it never disturbs the registered checks or their evidence.
ALT_REPO = os.environ.get("VERIF_REPO", "")
if ALT_REPO in ("/repo", "/repo/"):
    ALT_REPO = ""
WORK = os.path.join(ROOT, ".work" + ("-alt-" + hashlib.sha1(ALT_REPO.encode()).hexdigest()[:10] if ALT_REPO else ""))
BIN = os.path.join(WORK, "bin")
EVID = os.path.join(ROOT, "evidence") if not ALT_REPO else os.path.join(WORK, "evidence")

GOENV = {
    "GOFLAGS": "-mod=mod", "GOPROXY": "off", "GOSUMDB": "off", "GOTOOLCHAIN": "local",
    "CGO_ENABLED": os.environ.get("CGO_ENABLED", ""),
}

# per-property configuration: package dir, shards (quick, thorough), per-shard wall limits (s),
# race build, address-space limit (GiB, 0 = none)
DEFAULT = dict(shards=(8, 16), limit=(420, 2400), race=False, as_gib=16, native_fuzz=False)
PROPS = {
    "C01": dict(pkg="c01", native_fuzz=("FuzzParse", 120)), "C02": dict(pkg="c02", cli="plain"), "C03": dict(pkg="c03"), "C04": dict(pkg="c04", native_fuzz=("FuzzTokens", 90)),
    "C05": dict(pkg="c05"), "C06": dict(pkg="c06", native_fuzz=("FuzzErrors", 75)), "C07": dict(pkg="c07", native_fuzz=("FuzzRecovered", 75)), "C08": dict(pkg="c08"),
    "C09": dict(pkg="c09", shards=(4, 16), cli="plain"), "C10": dict(pkg="c10"),
    "C11": dict(pkg="c11", race=True, as_gib=0, shards=(4, 8), cli="race"),
    "C12": dict(pkg="c12"), "C13": dict(pkg="c13"), "C14": dict(pkg="c14", cli="plain"), "C15": dict(pkg="c15"),
    "C16": dict(pkg="c16", cli="plain"), "C17": dict(pkg="c17"), "C18": dict(pkg="c18", shards=(8, 16)),
}


def cfg(prop):
    c = dict(DEFAULT)
    c.update(PROPS[prop])
    return c


def goenv():
    e = dict(os.environ)
    for k, v in GOENV.items():
        if v != "":
            e[k] = v
    e["VERIF_ROOT"] = ROOT
    if ALT_REPO:
        e["VERIF_REPO"] = ALT_REPO
        e["GOFLAGS"] = "-mod=mod -modfile=" + alt_modfile()
    return e


def alt_modfile():
    """go.mod / go.sum twin whose replace directive points at VERIF_REPO."""
    os.makedirs(WORK, exist_ok=True)
    mod = os.path.join(WORK, "alt.mod")
    if not os.path.exists(mod):
        with open(os.path.join(ROOT, "go.mod")) as f:
            txt = f.read()
        txt = txt.replace("=> /repo", "=> " + ALT_REPO)
        with open(mod, "w") as f:
            f.write(txt)
        shutil.copyfile(os.path.join(ROOT, "go.sum"), os.path.join(WORK, "alt.sum"))
    return mod


def sync_gosum():
    """go.sum = union of /repo/go.sum and our own entries (rapid); never touches /repo."""
    mine = os.path.join(ROOT, "go.sum")
    lines = set()
    for p in (mine, "/repo/go.sum", os.path.join(ROOT, "go.sum.base")):
        if os.path.exists(p):
            with open(p) as f:
                lines.update(l for l in f.read().splitlines() if l.strip())
    cur = set()
    if os.path.exists(mine):
        with open(mine) as f:
            cur = set(l for l in f.read().splitlines() if l.strip())
    if lines != cur:
        with open(mine, "w") as f:
            f.write("\n".join(sorted(lines)) + "\n")


def build(prop):
    c = cfg(prop)
    os.makedirs(BIN, exist_ok=True)
    sync_gosum()
    # the recording visitor is regenerated from the ast.Visitor interface of /repo's working tree
    g = subprocess.run(["go", "run", "./cmd/genrec"], cwd=ROOT, env=goenv(), stdout=subprocess.PIPE, stderr=subprocess.STDOUT, text=True)
    if g.returncode != 0:
        print("[vdrive] genrec failed:\n%s" % g.stdout)
        return None
    out = os.path.join(BIN, c["pkg"] + (".race" if c["race"] else "") + ".test")
    cmd = ["go", "test", "-c", "-vet=off", "-o", out]
    if c["race"]:
        cmd.append("-race")
    cmd.append("./checks/" + c["pkg"] + "/")
    t0 = time.time()
    r = subprocess.run(cmd, cwd=ROOT, env=goenv(), stdout=subprocess.PIPE, stderr=subprocess.STDOUT, text=True)
    if r.returncode != 0 or not os.path.exists(out):
        print("[vdrive] BUILD FAILED for %s:\n%s" % (prop, r.stdout))
        return None
    print("[vdrive] built %s in %.1fs" % (os.path.relpath(out, ROOT), time.time() - t0))
    if c.get("cli") and not build_cli(race=(c["cli"] == "race")):
        return None
    return out


def cli_path(race=False):
    return os.path.join(BIN, "php-parser" + (".race" if race else ""))


def build_cli(race=False):
    """cmd/php-parser of the tree under test: several properties name the command-line tool as an
    observation point (-pb, -d, -r, -e, -phpver)."""
    cmd = ["go", "build", "-o", cli_path(race)]
    if race:
        cmd.append("-race")
    cmd.append("github.com/z7zmey/php-parser/cmd/php-parser")
    r = subprocess.run(cmd, cwd=ROOT, env=goenv(), stdout=subprocess.PIPE, stderr=subprocess.STDOUT, text=True)
    if r.returncode != 0 or not os.path.exists(cli_path(race)):
        print("[vdrive] BUILD FAILED for cmd/php-parser:\n%s" % r.stdout)
        return False
    return True


def limiter(as_gib):
    def f():
        os.setsid()
        if as_gib:
            lim = as_gib << 30
            try:
                resource.setrlimit(resource.RLIMIT_AS, (lim, lim))
            except Exception:
                pass
    return f


def run_shards(prop, tier, seed, binpath, extra_env=None, run_filter=None, nshards=None):
    c = cfg(prop)
    n = nshards or c["shards"][0 if tier == "quick" else 1]
    limit = c["limit"][0 if tier == "quick" else 1]
    wd = os.path.join(WORK, prop, tier)
    shutil.rmtree(wd, ignore_errors=True)
    os.makedirs(wd)
    procs = []
    for i in range(n):
        env = goenv()
        env.update({"VERIF_TIER": tier, "VERIF_SEED": str(seed), "VERIF_SHARD": str(i), "VERIF_SHARDS": str(n),
                    "VERIF_STATS": os.path.join(wd, "stats.%d.json" % i)})
        env["VERIF_TMP"] = os.path.join(wd, "tmp.%d" % i)
        if c.get("cli"):
            env["VERIF_CLI"] = cli_path(False) if c["cli"] != "race" else ""
            env["VERIF_CLI_RACE"] = cli_path(True) if c["cli"] == "race" else ""
        if c["race"]:
            env["GORACE"] = "halt_on_error=1 exitcode=66 log_path=" + os.path.join(wd, "race.%d" % i)
        if extra_env:
            env.update(extra_env)
        cmd = [binpath, "-test.timeout=0", "-test.count=1", "-rapid.nofailfile", "-rapid.shrinktime=20s"]
        if run_filter:
            cmd.append("-test.run=" + run_filter)
        log = open(os.path.join(wd, "log.%d.txt" % i), "w")
        # run inside the package dir so that relative testdata (if any) resolves
        p = subprocess.Popen(cmd, cwd=os.path.join(ROOT, "checks", c["pkg"]), env=env, stdout=log, stderr=subprocess.STDOUT,
                             preexec_fn=limiter(c["as_gib"]))
        procs.append((i, p, log))
    deadline = time.time() + limit
    results = {}
    while procs:
        for item in list(procs):
            i, p, log = item
            rc = p.poll()
            if rc is not None:
                results[i] = rc
                log.close()
                procs.remove(item)
        if time.time() > deadline:
            for i, p, log in procs:
                try:
                    os.killpg(p.pid, 9)
                except Exception:
                    pass
                p.wait()
                log.close()
                results[i] = "timeout"
            procs = []
        time.sleep(0.05)
    return wd, n, results


def merge(wd, n):
    tot = dict(evaluations=0, hashes=set(), samples=[], classes={}, excluded={}, violations=[], known={}, notes=[],
               exhaustive={}, rapid_passed={}, rules=[], missing=[], distinct={})
    for i in range(n):
        p = os.path.join(wd, "stats.%d.json" % i)
        if not os.path.exists(p):
            tot["missing"].append(i)
            continue
        with open(p) as f:
            s = json.load(f)
        tot["evaluations"] += s.get("evaluations", 0)
        tot["hashes"].update(s.get("nontrivial_hashes") or [])
        for x in s.get("samples") or []:
            if len(tot["samples"]) < 16 and x not in tot["samples"]:
                tot["samples"].append(x)
        for k in ("classes", "excluded", "rapid_passed"):
            for a, b in (s.get(k) or {}).items():
                tot[k][a] = tot[k].get(a, 0) + b
        tot["violations"].extend(s.get("violations") or [])
        tot["known"].update(s.get("known_findings") or {})
        for x in s.get("notes") or []:
            if x not in tot["notes"]:
                tot["notes"].append(x)
        for a, b in (s.get("distinct_sets") or {}).items():
            tot["distinct"].setdefault(a, set()).update(b)
        for a, b in (s.get("exhaustive") or {}).items():
            tot["exhaustive"][a] = tot["exhaustive"].get(a, True) and b
    return tot


def load_rule(prop):
    p = os.path.join(ROOT, "checks", cfg(prop)["pkg"], "RULE.txt")
    if os.path.exists(p):
        with open(p) as f:
            return f.read().strip()
    return "see DESIGN.md"


def write_evidence(prop, tier, seed, tot, wall, nviol, extra=None):
    os.makedirs(EVID, exist_ok=True)
    cov = {
        "evaluations": int(tot["evaluations"]),
        "distinct_nontrivial": len(tot["hashes"]),
        "rule": load_rule(prop),
        "samples": tot["samples"][:16] or ["(no sample recorded)"],
        "classes": dict(sorted(tot["classes"].items())),
        "excluded_by_construction": dict(sorted(tot["excluded"].items())),
        "known_findings_reproduced": tot["known"],
        "distinct_counts": {k: len(v) for k, v in sorted(tot["distinct"].items())},
        "exhaustive_parts": tot["exhaustive"],
        "notes": tot["notes"],
    }
    if tot["exhaustive"] and all(tot["exhaustive"].values()):
        cov["exhaustive_note"] = "the parts listed in exhaustive_parts enumerate their stated finite space completely; generated parts are samples"
    if extra:
        cov.update(extra)
    ev = {
        "property_id": prop, "tier": tier, "seed": int(seed), "level": "exploration", "coverage": cov,
        "assumptions": [
            "the reflective source-order walk (astx) mirrors pkg/ast/node.go field order (self-tested at start)",
            "generated programs are valid PHP by construction of the generator (phpgen); PHP itself is not available as a referee",
            "absence of a violation in the explored set is not a proof of absence",
        ],
        "wall_s": round(wall, 2), "violations": int(nviol),
    }
    with open(os.path.join(EVID, prop + ".json"), "w") as f:
        json.dump(ev, f, indent=1, sort_keys=False)
        f.write("\n")


def run_native_fuzz(prop, binpath, wd):
    """Thorough tier only: bounded coverage-guided campaigns (seeded corpus, then empty corpus).
    Go's native fuzzer cannot be pinned to a seed; the saved failing input is the reproducible unit."""
    c = cfg(prop)
    target, secs = c["native_fuzz"]
    viols, execs = [], 0
    cache = os.path.join(ROOT, ".cache", "fuzz", prop)
    for label, extra in (("seeded-corpus", {}), ("empty-corpus", {"VERIF_FUZZ_EMPTY_CORPUS": "1"})):
        cdir = os.path.join(cache, label)
        os.makedirs(cdir, exist_ok=True)
        pkgdir = os.path.join(ROOT, "checks", c["pkg"])
        shutil.rmtree(os.path.join(pkgdir, "testdata", "fuzz"), ignore_errors=True)
        env = goenv()
        env.update(extra)
        before = set(os.listdir(os.path.join(ROOT, "replays", prop))) if os.path.isdir(os.path.join(ROOT, "replays", prop)) else set()
        log = os.path.join(wd, "fuzz.%s.txt" % label)
        with open(log, "w") as lf:
            r = subprocess.run([binpath, "-test.run=^$", "-test.fuzz=^%s$" % target, "-test.fuzztime=%ds" % secs,
                                "-test.fuzzcachedir=" + cdir, "-test.timeout=0"], cwd=pkgdir, env=env, stdout=lf, stderr=subprocess.STDOUT,
                               preexec_fn=limiter(0))
        txt = open(log).read()
        import re
        m = re.findall(r"execs: (\d+)", txt)
        if m:
            execs += int(m[-1])
        after = set(os.listdir(os.path.join(ROOT, "replays", prop))) if os.path.isdir(os.path.join(ROOT, "replays", prop)) else set()
        if r.returncode != 0:
            new = sorted(after - before)
            if new:
                for fn in new[:5]:
                    pth = os.path.join(ROOT, "replays", prop, fn)
                    try:
                        v = json.load(open(pth))
                    except Exception:
                        v = {"check": "fuzz", "message": "native fuzzing found a failing input"}
                    v["replay"] = pth
                    viols.append(v)
            else:
                keep = os.path.join(ROOT, "replays", prop)
                os.makedirs(keep, exist_ok=True)
                dst = os.path.join(keep, "fuzz-%s.log" % label)
                shutil.copyfile(log, dst)
                viols.append({"property": prop, "check": "fuzz", "message": "native fuzz campaign failed without a recorded case: " + txt[-400:], "replay": dst})
        shutil.rmtree(os.path.join(pkgdir, "testdata", "fuzz"), ignore_errors=True)
    return viols, execs


def run_property(prop, tier, seed):
    t0 = time.time()
    binpath = build(prop)
    if not binpath:
        return 2
    wd, n, results = run_shards(prop, tier, seed, binpath)
    tot = merge(wd, n)
    if tier == "thorough" and cfg(prop).get("native_fuzz"):
        # coverage instrumentation needs a binary built with -fuzz
        c = cfg(prop)
        fbin = os.path.join(BIN, c["pkg"] + ".fuzz.test")
        fb = subprocess.run(["go", "test", "-c", "-vet=off", "-fuzz=^%s$" % c["native_fuzz"][0], "-o", fbin, "./checks/" + c["pkg"] + "/"],
                            cwd=ROOT, env=goenv(), stdout=subprocess.PIPE, stderr=subprocess.STDOUT, text=True)
        if fb.returncode != 0 or not os.path.exists(fbin):
            print("[vdrive] fuzz build failed:\n%s" % fb.stdout)
            return 2
        fv, fexecs = run_native_fuzz(prop, fbin, wd)
        tot["violations"].extend(fv)
        tot["evaluations"] += fexecs
        tot["notes"].append("native go fuzzing (coverage-guided, not seed-reproducible): %d executions in two bounded campaigns (seeded corpus, empty corpus)" % fexecs)
    wall = time.time() - t0
    rc = 0
    viols = list(tot["violations"])
    infra = []
    for i in range(n):
        r = results.get(i)
        if r == 0:
            continue
        if r == 66:
            # the race detector stopped the process: the report is the replay
            keep = os.path.join(ROOT, "replays", prop)
            os.makedirs(keep, exist_ok=True)
            import glob
            reports = sorted(glob.glob(os.path.join(wd, "race.%d.*" % i)))
            dst = os.path.join(keep, "race-shard%d-%s.log" % (i, tier))
            with open(dst, "w") as out:
                for rp in reports:
                    out.write(open(rp).read())
                out.write(open(os.path.join(wd, "log.%d.txt" % i)).read()[-4000:])
            head = ""
            try:
                head = " / ".join([l.strip() for l in open(dst).read().splitlines() if "by goroutine" in l or l.strip().startswith("github.com/z7zmey")][:4])
            except Exception:
                pass
            viols.append({"property": prop, "check": "data-race", "message": "the Go race detector reported a data race: " + head, "replay": dst})
            continue
        if r == 1:
            # a failing test binary must have recorded a violation; if not, the log is the replay
            if not tot["violations"]:
                logp = os.path.join(wd, "log.%d.txt" % i)
                keep = os.path.join(ROOT, "replays", prop)
                os.makedirs(keep, exist_ok=True)
                dst = os.path.join(keep, "shard%d-%s.log" % (i, tier))
                shutil.copyfile(logp, dst)
                viols.append({"property": prop, "check": "test-failure", "message": "test binary failed without a recorded case", "replay": dst})
            continue
        infra.append((i, r))
    for k in sorted(tot["known"]):
        print("KNOWN-FINDING: property=%s %s — %s" % (prop, k, tot["known"][k]))
    seen = set()
    for v in viols:
        key = (v.get("check"), v.get("replay"))
        if key in seen:
            continue
        seen.add(key)
        print("VIOLATION property=%s replay=%s" % (prop, v.get("replay")))
        print("  check=%s: %s" % (v.get("check"), (v.get("message") or "")[:1500]))
        rc = 1
    write_evidence(prop, tier, seed, tot, wall, len(seen))
    print("[vdrive] %s tier=%s seed=%s shards=%d evaluations=%d distinct_nontrivial=%d wall=%.1fs" %
          (prop, tier, seed, n, tot["evaluations"], len(tot["hashes"]), wall))
    if rc == 0 and (infra or tot["missing"]):
        for i, r in infra:
            print("[vdrive] shard %d ended with %r (see %s)" % (i, r, os.path.join(wd, "log.%d.txt" % i)))
            try:
                with open(os.path.join(wd, "log.%d.txt" % i)) as f:
                    print("".join(f.readlines()[-30:]))
            except Exception:
                pass
        print("[vdrive] INCONCLUSIVE: infrastructure failure (not a violation)")
        return 2
    return rc


def run_replay(path):
    with open(path) as f:
        v = json.load(f)
    prop = v["property"]
    binpath = build(prop)
    if not binpath:
        return 2
    wd, n, results = run_shards(prop, "quick", 0, binpath, extra_env={"VERIF_REPLAY": os.path.abspath(path)},
                                run_filter="^TestReplay$", nshards=1)
    tot = merge(wd, n)
    with open(os.path.join(wd, "log.0.txt")) as f:
        sys.stdout.write(f.read()[-4000:])
    if tot["violations"]:
        print("VIOLATION property=%s replay=%s" % (prop, path))
        return 1
    if results.get(0) != 0:
        print("[vdrive] replay run ended with %r" % (results.get(0),))
        return 2
    print("[vdrive] replay passes: the recorded case no longer violates %s" % prop)
    return 0


def main():
    ap = argparse.ArgumentParser()
    ap.add_argument("-prop")
    ap.add_argument("-tier", default=os.environ.get("VERIF_TIER", "quick"))
    ap.add_argument("-replay")
    ap.add_argument("-setup", action="store_true")
    a = ap.parse_args()
    seed = int(os.environ.get("VERIF_SEED", "0") or 0)
    if a.setup:
        ok = True
        for p in sorted(PROPS):
            if os.path.isdir(os.path.join(ROOT, "checks", cfg(p)["pkg"])):
                ok = (build(p) is not None) and ok
        return 0 if ok else 2
    if a.replay:
        return run_replay(a.replay)
    if not a.prop or a.prop not in PROPS:
        ap.error("need -prop C01..C18")
    if a.tier not in ("quick", "thorough"):
        ap.error("tier must be quick or thorough")
    return run_property(a.prop, a.tier, seed)


if __name__ == "__main__":
    sys.exit(main())
