// Package harness is the glue between the per-property Go test packages and
// the driver (vdrive.py): tier/seed/shard handling, coverage statistics,
// violation and known-finding reporting, replay-file writing.
//
// A test binary is a pure function of /repo's code and VERIF_SEED: no wall
// clock, private RNG or map iteration order is used inside properties.
package harness

import (
	"crypto/sha1"
	"encoding/base64"
	"encoding/hex"
	"encoding/json"
	"flag"
	"fmt"
	"hash/fnv"
	"os"
	"path/filepath"
	"sort"
	"strconv"
	"strings"
	"sync"
	"testing"

	"pgregory.net/rapid"
)

// Violation is one reported property violation.
type Violation struct {
	Property string            `json:"property"`
	Check    string            `json:"check"`
	Message  string            `json:"message"`
	InputB64 string            `json:"input_b64,omitempty"`
	Input    string            `json:"input_text,omitempty"`
	Meta     map[string]string `json:"meta,omitempty"`
	Replay   string            `json:"replay,omitempty"`
}

// Stats is what a shard reports to the driver.
type Stats struct {
	Property    string            `json:"property"`
	Tier        string            `json:"tier"`
	Seed        int64             `json:"seed"`
	Shard       int               `json:"shard"`
	Evaluations int64             `json:"evaluations"`
	NonTrivial  []string          `json:"nontrivial_hashes"`
	Samples     []string          `json:"samples"`
	Classes     map[string]int64  `json:"classes"`
	Excluded    map[string]int64  `json:"excluded"`
	Violations  []Violation       `json:"violations"`
	Known       map[string]string `json:"known_findings"` // id -> what fails (seen this run)
	Notes       []string          `json:"notes"`
	Exhaustive  map[string]bool   `json:"exhaustive"`
	RapidPassed map[string]int    `json:"rapid_passed"`
	// Distinct holds, per named set, the hashes of the distinct members seen (merged by the driver).
	Distinct map[string][]string `json:"distinct_sets"`
}

var (
	mu         sync.Mutex
	st         Stats
	nontrivial = map[uint64]struct{}{}
	inited     bool
	findings   []Finding
	distinct   = map[string]map[uint64]struct{}{}
)

const maxSamples = 12
const maxNonTrivialHashes = 4_000_000

// Finding is an entry of /verif/known_findings.json.
type Finding struct {
	ID       string `json:"id"`
	Property string `json:"property"`
	Status   string `json:"status"` // "open" or "fixed"
	What     string `json:"what"`
	Repro    string `json:"repro,omitempty"`
	Matcher  string `json:"matcher,omitempty"`
	Commit   string `json:"commit,omitempty"`
}

// Root is the /verif directory (from VERIF_ROOT, default /verif).
func Root() string {
	if r := os.Getenv("VERIF_ROOT"); r != "" {
		return r
	}
	return "/verif"
}

func initOnce() {
	if inited {
		return
	}
	inited = true
	st.Tier = Tier()
	st.Seed = Seed()
	st.Shard = Shard()
	st.Classes = map[string]int64{}
	st.Excluded = map[string]int64{}
	st.Known = map[string]string{}
	st.Exhaustive = map[string]bool{}
	st.RapidPassed = map[string]int{}
	b, err := os.ReadFile(filepath.Join(Root(), "known_findings.json"))
	if err == nil {
		var f struct {
			Findings []Finding `json:"findings"`
		}
		if json.Unmarshal(b, &f) == nil {
			findings = f.Findings
		}
	}
}

// Tier is "quick" or "thorough" (VERIF_TIER).
func Tier() string {
	if os.Getenv("VERIF_TIER") == "thorough" {
		return "thorough"
	}
	return "quick"
}

// Thorough reports whether the thorough tier is selected.
func Thorough() bool { return Tier() == "thorough" }

// Seed is VERIF_SEED (default 0).
func Seed() int64 {
	v, _ := strconv.ParseInt(os.Getenv("VERIF_SEED"), 10, 64)
	return v
}

// Shard is this process's shard index; Shards the shard count.
func Shard() int { v, _ := strconv.Atoi(os.Getenv("VERIF_SHARD")); return v }
func Shards() int {
	v, _ := strconv.Atoi(os.Getenv("VERIF_SHARDS"))
	if v < 1 {
		v = 1
	}
	return v
}

// Scale returns q in the quick tier and t in the thorough tier. VERIF_SCALE
// (a float) multiplies both, for development.
func Scale(q, t int) int {
	n := q
	if Thorough() {
		n = t
	}
	if s := os.Getenv("VERIF_SCALE"); s != "" {
		if f, err := strconv.ParseFloat(s, 64); err == nil {
			n = int(float64(n) * f)
			if n < 1 {
				n = 1
			}
		}
	}
	return n
}

// SetProperty names the property the binary checks.
func SetProperty(id string) {
	mu.Lock()
	defer mu.Unlock()
	initOnce()
	st.Property = id
}

// Eval counts one property evaluation.
func Eval() { EvalN(1) }

// EvalN counts n property evaluations.
func EvalN(n int) {
	mu.Lock()
	initOnce()
	st.Evaluations += int64(n)
	mu.Unlock()
}

// Hash64 is FNV-64a over the parts.
func Hash64(parts ...[]byte) uint64 {
	h := fnv.New64a()
	for _, p := range parts {
		h.Write(p)
		h.Write([]byte{0})
	}
	return h.Sum64()
}

// NonTrivial records a non-trivial case by key (hashed); sample is kept for
// the evidence file if it is among the first few distinct ones.
func NonTrivial(key []byte, sample string) {
	h := Hash64(key)
	mu.Lock()
	initOnce()
	if _, ok := nontrivial[h]; !ok && len(nontrivial) < maxNonTrivialHashes {
		nontrivial[h] = struct{}{}
		if len(st.Samples) < maxSamples && sample != "" {
			if len(sample) > 600 {
				sample = sample[:600] + "…"
			}
			st.Samples = append(st.Samples, sample)
		}
	}
	mu.Unlock()
}

// Class counts a case under a class label (distribution measurement).
func Class(name string) { ClassN(name, 1) }

// ClassN adds n to a class counter.
func ClassN(name string, n int) {
	mu.Lock()
	initOnce()
	st.Classes[name] += int64(n)
	mu.Unlock()
}

// Excluded counts a case excluded by construction because of a known finding or filter.
func Excluded(name string) {
	mu.Lock()
	initOnce()
	st.Excluded[name]++
	mu.Unlock()
}

// Distinct records key as a member of the named set; the evidence reports the
// number of distinct members per set (e.g. operator pairs, (kind, slot) sites).
func Distinct(set, key string) {
	h := Hash64([]byte(key))
	mu.Lock()
	initOnce()
	m := distinct[set]
	if m == nil {
		m = map[uint64]struct{}{}
		distinct[set] = m
	}
	if len(m) < 200000 {
		m[h] = struct{}{}
	}
	mu.Unlock()
}

// Note adds a free-text note to the evidence.
func Note(format string, args ...interface{}) {
	mu.Lock()
	initOnce()
	st.Notes = append(st.Notes, fmt.Sprintf(format, args...))
	mu.Unlock()
}

// Exhaustive marks a named enumerated part as completely enumerated.
func Exhaustive(part string) {
	mu.Lock()
	initOnce()
	st.Exhaustive[part] = true
	mu.Unlock()
}

// Findings returns the entries of known_findings.json.
func Findings() []Finding {
	mu.Lock()
	defer mu.Unlock()
	initOnce()
	return findings
}

// FindingOpen reports whether the finding id is listed with status "open".
func FindingOpen(id string) bool {
	for _, f := range Findings() {
		if f.ID == id && f.Status == "open" {
			return true
		}
	}
	return false
}

// KnownSeen records that an open known finding was reproduced this run.
// It returns false (and records nothing) when the id is not an open finding,
// in which case the caller must report a violation instead.
func KnownSeen(id string) bool {
	for _, f := range Findings() {
		if f.ID == id && f.Status == "open" {
			mu.Lock()
			st.Known[id] = f.What
			mu.Unlock()
			return true
		}
	}
	return false
}

// The library under test is handed the very buffer a check later reports as the failing input, and a
// defective library may have written into it (token values alias the source). Remember keeps a private
// copy of the last few buffers passed to the parser; Report and Fail record that copy, so a replay
// file always holds the bytes the case started from.
type remembered struct {
	ptr  *byte
	n    int
	copy []byte
}

var (
	remMu   sync.Mutex
	remRing [32]remembered
	remNext int
)

// Remember notes the pristine content of src (call before handing src to the library).
func Remember(src []byte) {
	if len(src) == 0 {
		return
	}
	remMu.Lock()
	for i := range remRing {
		if remRing[i].ptr == &src[0] && remRing[i].n == len(src) {
			remMu.Unlock()
			return // same buffer parsed again: the first copy is the pristine one
		}
	}
	remRing[remNext] = remembered{&src[0], len(src), append([]byte{}, src...)}
	remNext = (remNext + 1) % len(remRing)
	remMu.Unlock()
}

// Forget drops the remembered copy of src (a check that deliberately edits its buffer between parses).
func Forget(src []byte) {
	if len(src) == 0 {
		return
	}
	remMu.Lock()
	for i := range remRing {
		if remRing[i].ptr == &src[0] {
			remRing[i] = remembered{}
		}
	}
	remMu.Unlock()
}

// Pristine returns the remembered copy of input if there is one, else input.
func Pristine(input []byte) []byte {
	if len(input) == 0 {
		return input
	}
	remMu.Lock()
	defer remMu.Unlock()
	for i := range remRing {
		if remRing[i].ptr == &input[0] && remRing[i].n == len(input) {
			return remRing[i].copy
		}
	}
	return input
}

// Report records a violation (deduplicated by check+message prefix) and writes its replay file.
func Report(check, msg string, input []byte, meta map[string]string) {
	input = Pristine(input)
	mu.Lock()
	defer mu.Unlock()
	initOnce()
	if len(st.Violations) >= 20 {
		return
	}
	v := Violation{Property: st.Property, Check: check, Message: msg, Meta: meta}
	if input != nil {
		v.InputB64 = base64.StdEncoding.EncodeToString(input)
		if len(input) < 4000 {
			v.Input = string(input)
		}
	}
	sum := sha1.Sum([]byte(check + "\x00" + msg + "\x00" + string(input)))
	dir := filepath.Join(Root(), "replays", st.Property)
	_ = os.MkdirAll(dir, 0o755)
	v.Replay = filepath.Join(dir, hex.EncodeToString(sum[:8])+".json")
	b, _ := json.MarshalIndent(v, "", " ")
	_ = os.WriteFile(v.Replay, b, 0o644)
	st.Violations = append(st.Violations, v)
}

// Flush writes the statistics to VERIF_STATS (if set). Call from TestMain.
func Flush() {
	mu.Lock()
	defer mu.Unlock()
	initOnce()
	path := os.Getenv("VERIF_STATS")
	st.NonTrivial = st.NonTrivial[:0]
	for h := range nontrivial {
		st.NonTrivial = append(st.NonTrivial, strconv.FormatUint(h, 16))
	}
	sort.Strings(st.NonTrivial)
	st.Distinct = map[string][]string{}
	for name, m := range distinct {
		for h := range m {
			st.Distinct[name] = append(st.Distinct[name], strconv.FormatUint(h, 16))
		}
	}
	if path == "" {
		fmt.Fprintf(os.Stderr, "[harness] property=%s evaluations=%d distinct_nontrivial=%d violations=%d classes=%v excluded=%v known=%v\n",
			st.Property, st.Evaluations, len(nontrivial), len(st.Violations), st.Classes, st.Excluded, st.Known)
		return
	}
	b, _ := json.Marshal(&st)
	_ = os.WriteFile(path, b, 0o644)
}

// Main is a TestMain body: runs the tests, flushes statistics, exits.
func Main(m *testing.M, property string) {
	SetProperty(property)
	// rapid replays testdata/rapid/** first; runs must depend on the seed only.
	_ = os.RemoveAll("testdata/rapid")
	code := m.Run()
	Flush()
	os.Exit(code)
}

// ---------------------------------------------------------------------------
// rapid integration

type failure struct {
	clause string
	msg    string
	input  []byte
	meta   map[string]string
}

var (
	lastFail   = map[string]*failure{}
	lastFailMu sync.Mutex
)

// Fail records the failing case for the named check and fails the rapid run.
// During shrinking the record is overwritten; the last one is the minimal case.
func Fail(t *rapid.T, check string, input []byte, meta map[string]string, format string, args ...interface{}) {
	msg := fmt.Sprintf(format, args...)
	lastFailMu.Lock()
	lastFail["*"] = &failure{clause: check, msg: msg, input: append([]byte{}, Pristine(input)...), meta: meta}
	lastFailMu.Unlock()
	t.Fatalf("%s", msg)
}

// Check runs a rapid property under the named check. A failure is recorded as
// a violation with the shrunk case. The rapid flags (-rapid.checks, -rapid.seed)
// are set by the driver.
func Check(t *testing.T, check string, quickCases, thoroughCases int, prop func(*rapid.T)) {
	t.Helper()
	n := Scale(quickCases, thoroughCases)
	per := (n + Shards() - 1) / Shards()
	if per < 1 {
		per = 1
	}
	seed := uint64(1) + uint64(Seed())*64 + uint64(Shard()) + (Hash64([]byte(check))%9973)*1000003
	_ = flag.Set("rapid.checks", strconv.Itoa(per))
	_ = flag.Set("rapid.seed", strconv.FormatUint(seed, 10))
	lastFailMu.Lock()
	delete(lastFail, "*")
	lastFailMu.Unlock()
	defer func() {
		lastFailMu.Lock()
		f := lastFail["*"]
		delete(lastFail, "*")
		lastFailMu.Unlock()
		if t.Failed() {
			if f != nil {
				name := check
				if f.clause != "" && f.clause != check {
					name = check + "/" + f.clause
				}
				Report(name, f.msg, f.input, f.meta)
			} else {
				Report(check, "rapid run failed without a recorded case (panic inside the property or generator?) — see test log", nil, nil)
			}
		}
	}()
	rapid.Check(t, prop)
}

// Failf records a violation found outside rapid (enumerations, corpus replay) and fails the test.
func Failf(t *testing.T, check string, input []byte, meta map[string]string, format string, args ...interface{}) {
	t.Helper()
	msg := fmt.Sprintf(format, args...)
	Report(check, msg, input, meta)
	t.Errorf("%s: %s", check, msg)
}

// CorpusFiles lists the committed regression inputs of a property:
// /verif/corpus/<id>/* (sorted).
func CorpusFiles(prop string) []string {
	m, _ := filepath.Glob(filepath.Join(Root(), "corpus", prop, "*"))
	sort.Strings(m)
	var out []string
	for _, p := range m {
		if fi, err := os.Stat(p); err == nil && !fi.IsDir() && !strings.HasSuffix(p, ".md") {
			out = append(out, p)
		}
	}
	return out
}

var (
	inflightF  *os.File
	inflightMu sync.Mutex
)

// InFlight records the case about to be executed in a side file
// (VERIF_INFLIGHT), so that the driver can re-run it alone if the process
// dies from a fatal runtime error, the memory limit or a hang.
func InFlight(meta string, input []byte) {
	path := os.Getenv("VERIF_INFLIGHT")
	if path == "" {
		return
	}
	inflightMu.Lock()
	defer inflightMu.Unlock()
	if inflightF == nil {
		f, err := os.OpenFile(path, os.O_CREATE|os.O_RDWR|os.O_TRUNC, 0o644)
		if err != nil {
			return
		}
		inflightF = f
	}
	hdr := []byte(meta + "\n")
	_ = inflightF.Truncate(0)
	_, _ = inflightF.WriteAt(hdr, 0)
	_, _ = inflightF.WriteAt(input, int64(len(hdr)))
}

// MyShare reports whether item i of an enumeration belongs to this shard.
func MyShare(i int) bool { return i%Shards() == Shard() }

// FlushAndExit writes the statistics and ends the process (used after a
// confirmed hang, when the stuck goroutine cannot be stopped).
func FlushAndExit(code int) {
	Flush()
	os.Exit(code)
}

// ReplayPath returns the file named by VERIF_REPLAY ("" if unset).
func ReplayPath() string { return os.Getenv("VERIF_REPLAY") }

// LoadReplay reads a replay file written by Report.
func LoadReplay(path string) (*Violation, []byte, error) {
	b, err := os.ReadFile(path)
	if err != nil {
		return nil, nil, err
	}
	var v Violation
	if err := json.Unmarshal(b, &v); err != nil {
		return nil, nil, err
	}
	in, err := base64.StdEncoding.DecodeString(v.InputB64)
	if err != nil {
		return nil, nil, err
	}
	return &v, in, nil
}
