package inputs

import (
	"strings"
	"testing"
)

// every unit must be a complete statement sequence (a smoke test of the table itself)
func TestManyUnitsListed(t *testing.T) {
	for _, u := range manyUnits {
		if !strings.HasSuffix(u, "\n") && !strings.HasSuffix(u, "<?php ") {
			t.Errorf("unit %q does not end a line", u)
		}
	}
}
