// Package inputs provides byte-level input sources for the checks: the
// snippets of the repository's own tests (read from /repo at run time, never
// written), a hostile-fragment dictionary, dictionary soup and byte mutators.
// All random choices are rapid draws.
package inputs

import (
	"os"
	"path/filepath"
	"regexp"
	"sort"
	"strconv"
	"strings"
	"sync"

	"pgregory.net/rapid"
)

// RepoRoot is the tree under test (VERIF_REPO, default /repo).
func RepoRoot() string {
	if r := os.Getenv("VERIF_REPO"); r != "" {
		return r
	}
	return "/repo"
}

var (
	corpusOnce sync.Once
	corpus     []string
)

var backquoted = regexp.MustCompile("(?s)`(<\\?.*?)`")

// builtin is used in addition to (and, if /repo's tests are unreadable, instead of) the extracted snippets.
var builtin = []string{
	"<?php echo 1;",
	"<?php $a = $b + $c * 2;\n",
	"<html><?= $x ?></html>",
	"<?php\nnamespace A\\B;\nuse C\\D as E;\nclass F extends E implements G { public function h(int $a = 1): ?string { return \"x $a {$b->c[1]} ${d}\"; } }\n",
	"<?php if ($a): echo 1; elseif ($b): echo 2; else: echo 3; endif;",
	"<?php $x = <<<EOT\nhello $name\nEOT;\n",
	"<?php $x = <<<'EOT'\nraw $name\nEOT;\n",
	"<?php function &f(array &$a, ...$rest) { static $n = 1; global $g; yield $a => $b; }",
	"<?php try { foo(); } catch (A | B $e) { } finally { }",
	"<?php switch ($a) { case 1: break; default: continue 2; }",
	"<?php $f = fn($x) => $x * 2; $g = function() use (&$y) { return $y; };",
	"<?php foreach ($a as $k => &$v) { list($x, , $y) = $v; [$p, $q] = $v; }",
	"<?php __halt_compiler(); raw data \x00\x01",
	"#!/usr/bin/env php\n<?php echo 1;",
	"<?php echo `ls $dir`; goto end; end: ;",
	"<?php new class(1) extends A { use T { a as protected b; A::c insteadof B; } const X = 1; };",
	"<?php declare(strict_types=1); declare(ticks=1) { } ",
	"<?php $a?->b; $a ?? $b; $a <=> $b; $a ** $b; $a ??= 1;",
	"<?php use function A\\b; use const A\\C; use A\\{B, function c, const D};",
	"<?php abstract class A { abstract protected static function f(); private ?int $x = null; var $y; }",
	"<?php interface I extends J, K { const A = 1; public function f(); } trait T { }",
	"<?php while ($a): endwhile; for (;;): endfor; do { } while (0); ?>\n<b>x</b>\n<?php echo 2 ?>",
	"<?php $a = (int) $b . (string)$c; $d = @$e[1]{2}; $f = clone $g; print $h; exit(1); die;",
	"<?php isset($a, $b); empty($c); eval('1'); include 'a'; require_once 'b'; unset($d);",
	"<?php static::f(); self::$a; parent::B; $a::{'x'}(); $$b; ${'c'}; $d->{'e'}; $f->$g();",
}

// Corpus returns PHP snippets: the statement-level snippets of the
// repository's *_test.go files and the two test.php files, plus built-ins.
func Corpus() []string {
	corpusOnce.Do(func() {
		seen := map[string]bool{}
		add := func(s string) {
			if len(s) > 0 && len(s) < 20000 && !seen[s] {
				seen[s] = true
				corpus = append(corpus, s)
			}
		}
		for _, s := range builtin {
			add(s)
		}
		root := RepoRoot()
		var files []string
		for _, g := range []string{"internal/php5/*_test.go", "internal/php7/*_test.go", "internal/scanner/*_test.go",
			"pkg/visitor/printer/*_test.go", "pkg/visitor/nsresolver/*_test.go"} {
			m, _ := filepath.Glob(filepath.Join(root, g))
			files = append(files, m...)
		}
		sort.Strings(files)
		for _, f := range files {
			b, err := os.ReadFile(f)
			if err != nil {
				continue
			}
			for _, m := range backquoted.FindAllSubmatch(b, -1) {
				add(string(m[1]))
			}
		}
		for _, f := range []string{"internal/php5/test.php", "internal/php7/test.php"} {
			b, err := os.ReadFile(filepath.Join(root, f))
			if err != nil {
				continue
			}
			add(string(b))
			for _, line := range strings.Split(string(b), "\n") {
				line = strings.TrimSpace(line)
				if line != "" && !strings.HasPrefix(line, "<?") {
					add("<?php " + line)
				}
			}
		}
	})
	return corpus
}

// Dict is the hostile dictionary: fragments that end lexical constructs early
// or open new ones, plus ordinary filler.
var Dict = []string{
	"\"", "'", "`", "\"$", "${", "{$", "$", "$$", "->", "::", "<", "<?", "<?=", "<?php", "<?php ", "<?php\n", "?>", "?>\n", "?",
	"/*", "*/", "/**", "//", "#", "#!", "<<<A\n", "<<<'A'\n", "<<<\"A\"\n", "\nA", "\nA;", "\nA;\n", "\n  A;", "A", "\r", "\r\n", "\n", "\\",
	"}", "{", "]", "[", "(", ")", "b\"", "0x", "0b", "1e", "1_0", ".", "..", "...", "__halt_compiler", "__halt_compiler();", "yield from", "yield",
	"\x00", "\x01", "\x7f", "\x80", "\xff", "\xef\xbb\xbf", " ", "\t", ";", ",", "=", "=>", "&", "|", "+", "-", "*", "/", "%", "!", "~", "@", "^", ":", "??", "<=>", "**",
	"$a", "$b", "$a[0]", "$a->b", "$a[", "$a->", "{$a}", "{$a", "${a}", "${a[1]}", "${a", "foo", "Foo\\Bar", "\\Foo", "namespace\\Foo", "1", "12", "1.5", "'x'", "\"x\"", "\"$a\"", "\"\\\\\"",
	"if", "else", "elseif", "endif", "while", "for", "foreach", "as", "function", "fn", "class", "new", "static", "echo", "return", "use", "namespace",
	"list", "array", "isset", "empty", "try", "catch", "finally", "switch", "case", "default", "break", "declare", "const", "abstract", "trait", "interface",
	"extends", "implements", "instanceof", "and", "or", "xor", "print", "clone", "goto", "global", "unset", "exit", "die", "include", "require_once",
	"(int)", "( bool )", "(string)", "(unset)", "(array)", "(object)", "(float)", "(binary)",
	"<?php echo 1;", "$a = 1;", "foo();", "if ($a) { }", "function f() { }", "class A { }", "<<<A\nx\nA;\n", "<<<A\n$a\nA;\n", "<<<A\n  x\n  A;\n",
}

// Soup draws 1..n dictionary fragments and concatenates them.
func Soup(t *rapid.T, n int) []byte {
	k := rapid.IntRange(1, n).Draw(t, "soupLen")
	var b []byte
	for i := 0; i < k; i++ {
		b = append(b, rapid.SampledFrom(Dict).Draw(t, "frag")...)
	}
	return b
}

// PHPSoup is Soup behind an open tag, so that the fragments reach the PHP scanner states.
func PHPSoup(t *rapid.T, n int) []byte {
	open := rapid.SampledFrom([]string{"<?php ", "<?php\n", "<?= ", "<? ", "<?php\r\n", "<?php\t"}).Draw(t, "open")
	return append([]byte(open), Soup(t, n)...)
}

// interpDict: the pieces of PHP's "simple" and "complex" interpolation syntax, the literal forms that
// may follow "[" or "[-" (decimal, octal-looking, hex, binary, separated, overflowing), and the bytes the
// offset scanner reports and skips.
var interpDict = []string{
	"$v", "$v", "$a", "$v[", "$v[-", "[", "[-", "-", "]", "0", "1", "12", "012", "0x1F", "0b11", "1_000", "99999999999999999999", "-0", "1.5", "1e3",
	"k", "'k'", "\"k\"", "$k", "$k]", "->", "->p", "->p->q", "->p[0]", "{$", "{$v", "{$v}", "{$v->p[1]}", "${", "${v", "${v}", "${v[1]}", "${v[", "}", "{",
	"`", "\"", "'", "\\", "\\$", "\\{", " ", "\n", "\r\n", "\t", "#", "\x00", "\x01", "\x7f", "\x80", "\xff", "?>", "<?php", "::", "(", ")", ",", ";", "$", "$$", "$1", "text", "A",
}

// InterpSoup draws a string-like construct (double quotes, backquotes, heredoc, or none) whose body is
// 1..10 pieces of interpDict, behind an open tag and usually closed again.
func InterpSoup(t *rapid.T) []byte {
	open, cls := "\"", "\";"
	switch rapid.IntRange(0, 5).Draw(t, "ctx") {
	case 0:
		open, cls = "`", "`;"
	case 1:
		open, cls = "<<<A\n", "\nA;\n"
	case 2:
		open, cls = "<<<\"A\"\n  ", "\n  A;\n"
	case 3:
		open, cls = "b\"", "\""
	}
	b := []byte(rapid.SampledFrom([]string{"<?php ", "<?php $x = ", "<?= ", "<?php f("}).Draw(t, "open") + open)
	n := rapid.IntRange(1, 10).Draw(t, "pieces")
	for i := 0; i < n; i++ {
		b = append(b, rapid.SampledFrom(interpDict).Draw(t, "piece")...)
	}
	if rapid.IntRange(0, 4).Draw(t, "closed") != 0 {
		b = append(b, cls...)
	}
	return b
}

// Seed draws a corpus snippet.
func Seed(t *rapid.T) []byte {
	c := Corpus()
	return []byte(c[rapid.IntRange(0, len(c)-1).Draw(t, "seed")])
}

// Mutate applies 1..k byte-level edits to src (copy; src is not modified).
func Mutate(t *rapid.T, src []byte, k int) []byte {
	out := append([]byte{}, src...)
	n := rapid.IntRange(1, k).Draw(t, "edits")
	for i := 0; i < n; i++ {
		pos := 0
		if len(out) > 0 {
			pos = rapid.IntRange(0, len(out)).Draw(t, "pos")
		}
		switch rapid.IntRange(0, 7).Draw(t, "op") {
		case 0: // truncate
			out = out[:pos]
		case 1: // insert dictionary fragment
			f := rapid.SampledFrom(Dict).Draw(t, "frag")
			out = append(out[:pos], append([]byte(f), out[pos:]...)...)
		case 2: // delete span
			if pos < len(out) {
				l := rapid.IntRange(1, min(8, len(out)-pos)).Draw(t, "len")
				out = append(out[:pos], out[pos+l:]...)
			}
		case 3: // flip a byte
			if pos < len(out) {
				out[pos] = rapid.Byte().Draw(t, "byte")
			}
		case 4: // duplicate span
			if pos < len(out) {
				l := rapid.IntRange(1, min(16, len(out)-pos)).Draw(t, "len")
				span := append([]byte{}, out[pos:pos+l]...)
				out = append(out[:pos], append(span, out[pos:]...)...)
			}
		case 5: // splice with another corpus snippet
			o := Seed(t)
			q := rapid.IntRange(0, len(o)).Draw(t, "q")
			out = append(out[:pos], o[q:]...)
		case 6: // drop the head
			out = out[pos:]
		case 7: // insert raw byte
			out = append(out[:pos], append([]byte{rapid.Byte().Draw(t, "byte")}, out[pos:]...)...)
		}
		if len(out) > 1<<16 {
			out = out[:1<<16]
		}
	}
	return out
}

func min(a, b int) int {
	if a < b {
		return a
	}
	return b
}

// Deep draws a deeply nested but well-formed program (blocks, parentheses,
// arrays, calls, interpolation braces): nesting depth is what drives the
// scanner's state stack and the parser's value stack.
func Deep(t *rapid.T) []byte {
	n := rapid.SampledFrom([]int{3, 17, 64, 130, 257, 1025}).Draw(t, "depth")
	return append([]byte("<?php "), deepBody(t, n)...)
}

// deepBody is one statement nested n levels deep in a drawn bracket kind.
func deepBody(t *rapid.T, n int) []byte {
	var open, close, mid string
	switch rapid.IntRange(0, 8).Draw(t, "nestkind") {
	case 0:
		open, close, mid = "{ ", " }", "echo 1;"
	case 1:
		open, close, mid = "(", ")", "$a"
	case 2:
		open, close, mid = "[", "]", "1"
	case 3:
		open, close, mid = "f(", ")", "$x"
	case 4:
		open, close, mid = "if ($a) { ", " }", "$b = 1;"
	case 5:
		open, close, mid = "$a[", "]", "0"
	case 6:
		open, close, mid = "function () { ", " };", "return 1;"
	case 7:
		open, close, mid = "\"{${", "}}\"", "$v"
		if n > 64 {
			n = 64
		}
	default:
		open, close, mid = "\"{$a[", "]}\"", "1"
		if n > 130 {
			n = 130
		}
	}
	var b []byte
	if open == "(" || open == "[" || open == "f(" || open == "$a[" || open[0] == '"' || open == "function () { " {
		b = append(b, "$r = "...)
	}
	for i := 0; i < n; i++ {
		b = append(b, open...)
	}
	b = append(b, mid...)
	for i := 0; i < n; i++ {
		b = append(b, close...)
	}
	if open != "{ " && open != "if ($a) { " && open != "function () { " {
		b = append(b, ';')
	}
	return b
}

// Segments draws a program made of two to five independent regions one after the other — deeply
// nested statements of drawn depths (around the powers of two at which stacks grow), runs of a
// repeated statement, string-like constructs, corpus snippets, stray closers — so that whatever the
// scanner or parser keeps from one region (a grown or trimmed stack, a memo, a pending label) meets
// the next region. A single deep or long region does not exercise that hand-over.
func Segments(t *rapid.T) []byte {
	b := []byte("<?php\n")
	n := rapid.IntRange(2, 5).Draw(t, "segments")
	for i := 0; i < n; i++ {
		switch rapid.IntRange(0, 7).Draw(t, "segment") {
		case 0, 1, 2:
			d := rapid.SampledFrom([]int{1, 2, 7, 8, 9, 10, 15, 16, 17, 31, 32, 33, 40, 64, 65, 129}).Draw(t, "depth")
			b = append(b, deepBody(t, d)...)
		case 3:
			u := rapid.SampledFrom(manyUnits).Draw(t, "unit")
			for k, m := 0, rapid.IntRange(1, 40).Draw(t, "reps"); k < m; k++ {
				b = append(b, strings.Replace(u, "%d", strconv.Itoa(i*100+k), 1)...)
			}
		case 4:
			b = append(b, rapid.SampledFrom([]string{"$h = <<<X\n a {$b[\"k\"]} ${c} $d->e \\\\\nX;\n", "$s = \"x{$a->b[1]}y\\\"z$c[0]\";\n", "$n = <<<'N'\n raw $x\nN;\n", "echo `ls {$d}`;\n", "?>html <?= $x ?> more\n<?php\n"}).Draw(t, "stringlike")...)
		case 5:
			s := Seed(t)
			if len(s) > 5 && len(s) < 600 && string(s[:5]) == "<?php" {
				b = append(b, s[5:]...)
				b = append(b, ";\n?><?php\n"...)
			}
		case 6:
			b = append(b, rapid.SampledFrom([]string{"}\n", "} }\n", ")\n", "]\n", "endif;\n", "\"\n", "*/\n"}).Draw(t, "stray")...)
		default:
			b = append(b, "$x = 1;\n"...)
		}
		b = append(b, '\n')
	}
	return b
}

// fileHeads are byte sequences that mean something at the very start of a file to some tool (byte
// order marks, a shebang line, magic numbers) and that a lexer might be tempted to treat specially.
// To PHP everything before the first open tag is inline HTML, apart from one leading "#!" line.
var fileHeads = []string{"\xef\xbb\xbf", "\xef\xbb\xbf", "\xef\xbb", "\xff\xfe", "\xfe\xff", "\xef\xbb\xbf#!/bin/x\n", "#!/bin/x\n\xef\xbb\xbf", "\x00", "\x1f\x8b", "\n", "\r\n", " ", "%PDF-", "<?xml version=\"1.0\"?>\n"}

// Any draws an input from one of the byte-level sources; one input in sixteen gets a file head
// (byte order mark etc.) in front.
func Any(t *rapid.T) ([]byte, string) {
	b, class := anyBody(t)
	if rapid.IntRange(0, 15).Draw(t, "filehead") == 0 {
		h := rapid.SampledFrom(fileHeads).Draw(t, "head")
		return append([]byte(h), b...), class + "+file-head"
	}
	return b, class
}

func anyBody(t *rapid.T) ([]byte, string) {
	switch rapid.IntRange(0, 39).Draw(t, "special") {
	case 0:
		return Deep(t), "deep-nesting"
	case 1:
		return LongLexemes(t), "long-lexemes"
	case 2:
		return ManyStatements(t), "many-statements"
	case 3, 4:
		return Segments(t), "segments"
	case 6:
		return NumberSoup(t), "number-lookalikes"
	case 5:
		// trees that are returned together with the grammar's own reports (by-reference foreach key, trait with
		// extends / implements): well-formed syntax, built by action code no valid program reaches
		return SemanticErrorProgram(t), "grammar-reported-errors"
	}
	switch rapid.IntRange(0, 6).Draw(t, "source") {
	case 6:
		return InterpSoup(t), "interpolation-soup"
	case 0:
		return Seed(t), "corpus"
	case 1:
		return Mutate(t, Seed(t), 4), "corpus-mutated"
	case 2:
		return PHPSoup(t, 12), "php-soup"
	case 3:
		return Soup(t, 12), "soup"
	case 4:
		s := Seed(t)
		return s[:rapid.IntRange(0, len(s)).Draw(t, "cut")], "corpus-prefix"
	default:
		return rapid.SliceOfN(rapid.Byte(), 0, 64).Draw(t, "bytes"), "bytes"
	}
}

var compileTimeInvalid = []string{
	"class A { public static private function f() {} }", "class A { static public static $x; }", "class A { abstract final function f(); }", "class A { final static final function f() {} }",
	"class A { public protected $p = 1; }", "class A { abstract public abstract function g(); }", "class A { private static protected static function h() {} }",
	"abstract final class B {}", "class A { abstract function f() {} }", "interface I { public $p; }", "interface I { private function f(); }", "class A { var var $x; }",
	"function f($a, $a) {}", "function f(...$a, $b) {}", "function f(...$a = 1) {}", "function f($this) {}", "function f(array ...$a = []) {}",
	"break;", "continue 2;", "break 0;", "function g() { __halt_compiler(); }", "if ($a) { __halt_compiler(); }", "class A { function f() { class B {} } }",
	"namespace A; namespace B { }", "$a = 1; namespace C;", "function f() { namespace D; }", "function f() { use A\\B; }", "function f() { const X = 1; }",
	"$this = 1;", "list() = $a;", "[] = $a;", "[$a, [$b]] = [1, [2]];", "list(list()) = $a;", "isset(1 + 1);", "unset(f());", "f() = 1;", "1 = $a;", "new class { public public $x; };",
	"goto a; while (1) { a: }", "a: a: ;", "static $x = f();", "const A = $b;", "class A { const B = $c; }", "global $a->b;", "yield 1;", "function f() { yield; return 1; }",
	"try { } finally { } finally { }", "switch ($a) { default: default: }", "class A extends B, C {}", "class A { use T { f as public private g; } }", "declare(foo=1);", "declare(ticks=$a);",
	"echo <<<A\n$\nA;\n", "$a = &new B;", "function &f(): void {}", "function f(): static {}", "fn($a) => yield;", "class A { public function __construct(public $x) {} }",
}

// numberPieces: literals and near-literals of every numeric form — the scanner decides per lexeme
// between integer, float, "too large", and no number at all (PHP 7 rejects "08", PHP 5 reads it as 0).
var numberPieces = []string{
	"0", "00", "007", "0777", "08", "09", "019", "089", "0_9", "0_7", "1_000", "1__0", "1_", "_1", "0x1F", "0X1f", "0x", "0xG", "0x_1", "0b11", "0B2", "0b", "0b102",
	"9223372036854775807", "9223372036854775808", "0x7FFFFFFFFFFFFFFF", "0x8000000000000000", "0777777777777777777777", "01777777777777777777777",
	"0b111111111111111111111111111111111111111111111111111111111111111", "0b1000000000000000000000000000000000000000000000000000000000000000",
	"1e3", "1E+3", "1e", "1e+", "1e-3", ".5", "5.", "0.", "1.5e-3", "0e0", "1_000.5", "1.5_0", "1._5", "1e1_0", "00.5", "09.5", "0x1.5", "1..2", ".5.5", "12", "1", "99999999999999999999", "1e999",
}

// NumberSoup puts one to three number pieces (optionally joined by an operator or nothing) into the
// operand position of a small valid statement. Whatever the scanner makes of them, the checks' generic
// clauses apply: an error is reported, or the tokens of the returned tree cover the whole text.
func NumberSoup(t *rapid.T) []byte {
	var x []byte
	for i, k := 0, rapid.IntRange(1, 3).Draw(t, "npieces"); i < k; i++ {
		if i > 0 {
			x = append(x, rapid.SampledFrom([]string{"", " ", "+", "-", ".", " . ", "*", ",", "=>", "_", "e", "x"}).Draw(t, "glue")...)
		}
		x = append(x, rapid.SampledFrom(numberPieces).Draw(t, "number")...)
	}
	frame := rapid.SampledFrom([][2]string{{"<?php $a = ", ";"}, {"<?php f(", ", 1);"}, {"<?php echo ", ", 1;"}, {"<?php $a = [", " => 1];"}, {"<?php return ", ";"}, {"<?php $a[", "] = 1;"},
		{"<?php $a = -", ";"}, {"<?php ", ";"}, {"<?php ", ""}, {"<?php $a = \"$b[", "]\";"}, {"<?php const A = ", ";"}, {"<?php function f($x = ", ") {}"}}).Draw(t, "frame")
	return append(append([]byte(frame[0]), x...), frame[1]...)
}

// SemanticErrorProgram draws a program that is syntactically well-formed but
// that the grammars reject with their own reports (by-reference foreach key,
// trait with extends/implements), mixed with ordinary statements.
func SemanticErrorProgram(t *rapid.T) []byte {
	subjects := []string{"$a", "$a->b", "[1, 2]", "array(1)", "f()", "$a + $b", "A::b()", "(array) $x", "new ArrayObject", "$a[0]", "clone $a", "\"s\"", "$a ?: $b"}
	values := []string{"$v", "&$v", "& $v", "list($x, $y)", "$o->p", "$v[0]"}
	bodies := []string{"{}", ";", "echo 1;", ": endforeach;", "{ foreach ($q as &$kk => $vv) {} }", "{ $a = 1; }"}
	amp := []string{"&", "& ", " &  "}
	var b []byte
	b = append(b, "<?php "...)
	n := rapid.IntRange(1, 3).Draw(t, "n")
	for i := 0; i < n; i++ {
		switch rapid.IntRange(0, 8).Draw(t, "kind") {
		case 6, 7, 8:
			// well-formed for a lenient grammar, rejected by PHP's compiler: whether the parser reports them or
			// not, every clause about returned trees applies (repeated / conflicting modifiers, misplaced
			// statements, duplicate names ...)
			b = append(b, (rapid.SampledFrom(compileTimeInvalid).Draw(t, "invalid") + " ")...)
		case 0, 1, 2:
			b = append(b, ("foreach (" + rapid.SampledFrom(subjects).Draw(t, "subject") + " as " + rapid.SampledFrom(amp).Draw(t, "amp") + "$k => " + rapid.SampledFrom(values).Draw(t, "value") + ") " + rapid.SampledFrom(bodies).Draw(t, "body") + " ")...)
		case 3:
			b = append(b, ("trait T" + string(rune('0'+i)) + " extends A { } ")...)
		case 4:
			b = append(b, ("trait T" + string(rune('0'+i)) + " implements I, J { function f() {} } ")...)
		default:
			b = append(b, ("$x" + string(rune('0'+i)) + " = " + rapid.SampledFrom(subjects).Draw(t, "subject") + "; ")...)
		}
	}
	return b
}

// longLens are lexeme lengths around the sizes at which buffers, abbreviations
// and block allocations usually change behaviour.
var longLens = []int{63, 64, 65, 127, 128, 129, 255, 256, 257, 258, 259, 260, 300, 511, 512, 513, 1000, 1023, 1024, 1025, 2047, 2048, 2049, 4095, 4096, 4097, 8191, 8192, 8193, 10000}

// LongLexemes draws a valid program in which one to three lexemes are very
// long: string literals, comments, inline HTML, heredoc and nowdoc bodies,
// identifiers, numbers, whitespace runs and the data after __halt_compiler().
func LongLexemes(t *rapid.T) []byte {
	fill := func(n int, alphabet string) string {
		b := make([]byte, n)
		k := rapid.IntRange(0, len(alphabet)-1).Draw(t, "phase")
		for i := range b {
			b[i] = alphabet[(i+k)%len(alphabet)]
		}
		return string(b)
	}
	var b []byte
	if rapid.IntRange(0, 3).Draw(t, "leadhtml") == 0 {
		b = append(b, fill(rapid.SampledFrom(longLens).Draw(t, "len"), "<p>html text</p>\n")...)
	}
	b = append(b, "<?php\n"...)
	n := rapid.IntRange(1, 3).Draw(t, "n")
	for i := 0; i < n; i++ {
		l := rapid.SampledFrom(longLens).Draw(t, "len")
		switch rapid.IntRange(0, 11).Draw(t, "kind") {
		case 0:
			b = append(b, ("$s = '" + fill(l, "abc def ") + "';\n")...)
		case 1:
			b = append(b, ("$s = \"" + fill(l, "xyz- ") + " $v tail\";\n")...)
		case 2:
			b = append(b, ("/*" + fill(l, "comment ") + "*/ echo 1;\n")...)
		case 3:
			b = append(b, ("// " + fill(l, "line comment ") + "\necho 2;\n")...)
		case 4:
			b = append(b, ("?>" + fill(l, "<b>inline</b> ") + "<?php\n")...)
		case 5:
			b = append(b, ("$h = <<<EOT\n" + fill(l, "heredoc text\n") + "\nEOT;\n")...)
		case 6:
			b = append(b, ("$h = <<<'EOT'\n" + fill(l, "nowdoc $x\n") + "\nEOT;\n")...)
		case 7:
			b = append(b, ("function f" + fill(l, "abcdefghij_") + "() {}\n")...)
		case 8:
			b = append(b, ("$n = 1" + fill(l, "0123456789") + ";\n")...)
		case 9:
			b = append(b, ("echo" + fill(l, " \t\n") + "3;\n")...)
		case 10:
			b = append(b, ("/** " + fill(l, "doc * ") + "*/ class C" + string(rune('a'+i)) + " {}\n")...)
		default:
			b = append(b, ("echo `" + fill(l, "ls -l ") + "`;\n")...)
		}
	}
	if rapid.IntRange(0, 1).Draw(t, "halt") == 0 {
		b = append(b, ("__halt_compiler();" + fill(rapid.SampledFrom(longLens).Draw(t, "len"), "binary data \x00\x01\xff "))...)
	}
	return b
}

// manyUnits are small valid statements; each stresses one or two node kinds (names and name parts,
// variables, arguments, array items, strings with parts, members, parameters).
var manyUnits = []string{
	"A\\B\\C::d($e, 1);\n", "new \\Foo\\Bar(namespace\\baz());\n", "$a = [1, 'k' => $b, &$c];\n", "echo \"x $a[0] {$b->c} ${d}\";\n", "$o->p->q[1]->r();\n",
	"function f%d(A\\B $x, ?C ...$y): D { return $x; }\n", "use P\\Q\\{R, function s, const T};\n", "if ($a) { $b; } elseif ($c) { $d; } else { $e; }\n", "list($a, , list($b)) = $c;\n",
	"class K%d extends L implements M, N { const O = 1; public $p = 2; function q() {} use R, S { R::t insteadof S; u as protected v; } }\n",
	"try { a(); } catch (E | F $g) { } finally { }\n", "$x = $y ?? $z ?: fn($w) => $w <=> 1;\n", "switch ($a) { case 1: break; default: continue 2; }\n", "/* c */ $i++; // d\n# e\n",
	"?><b><?= $h ?></b>\n<?php ", "echo <<<EOT\n a $b\nEOT;\n", "global $g1, $$g2; static $s = 1, $t;\n", "foreach ($a as $k => &$v): endforeach;\n",
}

// ManyStatements draws a valid program in which one to three kinds of statement are repeated a few
// hundred to a few thousand times (around 256, 1024 and 4096 repetitions): allocation in blocks —
// of tokens, positions or any node kind — changes behaviour at such counts, and no small program
// reaches them.
func ManyStatements(t *rapid.T) []byte {
	n := rapid.SampledFrom([]int{130, 257, 300, 520, 1030, 1100, 2100, 4200}).Draw(t, "repetitions")
	k := rapid.IntRange(1, 3).Draw(t, "kinds")
	var units []string
	for i := 0; i < k; i++ {
		units = append(units, rapid.SampledFrom(manyUnits).Draw(t, "unit"))
	}
	b := []byte("<?php\n")
	for i := 0; i < n; i++ {
		u := units[i%len(units)]
		if strings.Contains(u, "%d") {
			u = strings.Replace(u, "%d", strconv.Itoa(i), 1)
		}
		b = append(b, u...)
	}
	return b
}

// ManyUnitsForTest exposes the statement table to the package's self-test.
func ManyUnitsForTest() []string { return manyUnits }
