package inputs_test

import (
	"strings"
	"testing"

	"verif/inputs"
	"verif/px"
)

func TestManyUnitsParse(t *testing.T) {
	for _, u := range inputs.ManyUnitsForTest() {
		src := "<?php\n" + strings.Replace(u, "%d", "1", 1) + strings.Replace(u, "%d", "2", 1)
		r := px.Parse([]byte(src), px.V74, true)
		if len(r.Errs) > 0 || r.Panic != "" {
			t.Errorf("unit %q: %s %s", u, px.ErrString(r.Errs), r.Panic)
		}
	}
}
