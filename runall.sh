#!/bin/bash
# usage: runall.sh <tier> <seed> [props...]  — runs the registered checks one after another, prints exit + wall per property
tier=${1:-quick}; seed=${2:-0}; shift 2
props=${@:-C01 C02 C03 C04 C05 C06 C07 C08 C09 C10 C11 C12 C13 C14 C15 C16 C17 C18}
cd "$(dirname "$0")"
for p in $props; do
  s=$(date +%s)
  out=$(VERIF_SEED=$seed python3 vdrive.py -prop $p -tier $tier 2>&1); rc=$?
  e=$(date +%s)
  echo "$p tier=$tier seed=$seed exit=$rc wall=$((e-s))s $(echo "$out" | grep -c '^KNOWN-FINDING') known"
  echo "$out" | grep -E '^(VIOLATION|  check=|\[vdrive\] (INCONCLUSIVE|shard))' | head -6
done
